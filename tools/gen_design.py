#!/usr/bin/env python3
"""Assemble DESIGN.md from docs/DESIGN-part*.md plus tables generated from known_findings.json and seeded/*/meta.json."""
import json, pathlib, re

V = pathlib.Path(__file__).resolve().parent.parent
parts = sorted((V / "docs").glob("DESIGN-part*.md"))
text = "\n".join(p.read_text().rstrip() + "\n" for p in parts)

kf = json.loads((V / "known_findings.json").read_text())["findings"]
fixed = [f for f in kf if f["status"] == "fixed"]
known = [f for f in kf if f["status"] == "known"]
t = ["| Property | id | `fix:` commit in /repo | what failed on the pinned tree | witness (corpus, replayed on every run) |", "|---|---|---|---|---|"]
for f in sorted(fixed, key=lambda f: f["property"]):
    what = re.sub(r"^fixed: property=\S+ \S+ ", "", f["what"])
    t.append(f"| {f['property']} | {f['id']} | `{f.get('commit','')}` | {what} | `{f.get('witness','')}` |")
fixed_table = "\n".join(t)
t = ["| Property | id | regime (input predicate) | what fails | witness |", "|---|---|---|---|---|"]
for f in sorted(known, key=lambda f: f["property"]):
    t.append(f"| {f['property']} | {f['id']} | `{f['regime']}` | {f['what']} | `{f.get('witness','')}` |")
known_table = "\n".join(t)

rows = ["| id | property | change | needs to manifest | caught | how |", "|---|---|---|---|---|---|"]
hrows = ["| id | checks run | what was refactored | outcome |", "|---|---|---|---|"]
for m in sorted((V / "seeded").glob("harmless-*/meta.json")):
    d = json.loads(m.read_text())
    silent = d.get("silent", "outcome" in d and not any(str(o).startswith("VIOLATION") for o in d.get("outcome", [])))
    res = "silent (all proofs re-checked, 0 mismatches)" if silent else "**alarm: no-failing-input-found** (extractor refuses the new shape)"
    hrows.append(f"| {d['id']} | {d['property'].replace(' (negative control)','')} | {d.get('change','')[:160]} | {res} |")
harmless_table = "\n".join(hrows)
for m in sorted((V / "seeded").glob("*/meta.json")):
    if m.parent.name.startswith("harmless-"):
        continue
    d = json.loads(m.read_text())
    out = d.get("outcome")
    if isinstance(out, list):
        # compact: "discharged 0/17, mismatches 893, violations 680" from the `check …` summary line(s)
        bits = []
        for o in out:
            mm = re.search(r"check (C\d+) .*obligations=(\d+) discharged=(\d+).*mismatches=(\d+) violations=(\d+)", o)
            if mm:
                bits.append(f"{mm.group(1)}: proofs {mm.group(3)}/{mm.group(2)}, model≠code on {mm.group(4)} cases, oracle violations {mm.group(5)}")
        nof = any("no-failing-input-found" in o for o in out if o.startswith("VIOLATION"))
        out = ("; ".join(bits) or "; ".join(o for o in out if o.startswith(("VIOLATION", "check")))[:200]) + (" (no failing input)" if nof and not d.get("with_failing_input") else "")
    if d.get("history"):
        out = str(out) + f" — first run: {str(d['history'][0].get('earlier_outcome',''))[:120]}"
    if "detected" in d:
        caught = "yes, failing input" if d.get("with_failing_input") else ("yes, no-failing-input-found" if d["detected"] else "**no**")
    elif "expected" in d:
        caught = "(negative control: no alarm expected)"
    else:
        caught = "yes, failing input"
    rows.append(f"| {d['id']} | {d['property']} | {d['change']} | {d.get('needs_to_manifest', d.get('expected',''))} | {caught} | {str(out)[:420]} |")
seeded_table = "\n".join(rows)

# per-property list of the theorems currently in Props/Cxx.lean (so §4 never goes stale)
def _strip(src):
    src = re.sub(r"/-.*?-/", "", src, flags=re.S)
    return re.sub(r"--.*", "", src)
def _thms(prop):
    f = V / "lean" / "Frequenz" / "Props" / f"{prop}.lean"
    if not f.exists():
        return []
    return re.findall(r"^(?:@\[[^\]]*\]\s*)?theorem\s+([A-Za-z_][\w.']*)", _strip(f.read_text()), flags=re.M)
def _add_thms(m):
    prop = m.group(1)
    names = _thms(prop)
    spec = V / "harness" / "props.d" / f"{prop}.json"
    ext = json.loads(spec.read_text()).get("extracted", []) if spec.exists() else []
    return (m.group(0) + f"*Now in `Props/{prop}.lean` ({len(names)} theorems, all audited on every run):* " + ", ".join(f"`{n}`" for n in names)
            + f".  *Regenerated from source for this check:* " + ", ".join(f"`Extracted/{e}.lean`" for e in ext) + ".\n\n")
text = re.sub(r"^### (C\d\d) — [^\n]*\n", _add_thms, text, flags=re.M)
text = text.replace("<!--FIXED_TABLE-->", fixed_table).replace("<!--KNOWN_TABLE-->", known_table).replace("<!--SEEDED_TABLE-->", seeded_table).replace("<!--HARMLESS_TABLE-->", harmless_table)
(V / "DESIGN.md").write_text(text)
print("DESIGN.md:", len(text.splitlines()), "lines;", len(fixed), "fixed,", len(known), "known,", len(rows) - 2, "seeded")
