#!/bin/bash
# Usage: tools/apply_fix.sh <patch> <msgfile> <Cxx> [<Cyy>…]
# 1. scratch worktree + patch: full suite must still be 332 passed; 2. checks must pass against the patched tree;
# 3. apply + commit in /repo ("fix: …" message from <msgfile>); 4. re-run the checks on /repo.
set -u
PATCH="$(readlink -f "$1")"; MSG="$(readlink -f "$2")"; shift 2
V="$(cd "$(dirname "$0")/.." && pwd)"
WT="/tmp/fix-wt-$$"
git -C /repo worktree add -q "$WT" HEAD || exit 2
git -C "$WT" apply "$PATCH" || { echo "patch does not apply"; git -C /repo worktree remove --force "$WT"; exit 2; }
t=$(cd "$WT" && PYTHONPATH="$WT/src" /venv/bin/python -m pytest -q -p no:cacheprovider --timeout=900 2>&1 | tail -1)
echo "tests with patch: $t"
case "$t" in *"332 passed"*) ;; *) echo "ABORT: baseline not preserved"; git -C /repo worktree remove --force "$WT"; exit 1;; esac
ok=1
for P in "$@"; do
  out=$(cd "$V" && VERIF_REPO="$WT" ./check "$P" 2>&1 | grep -E "^(VIOLATION|check )" | cut -c1-300); echo "patched tree: $out"
  case "$out" in *VIOLATION*) ok=0;; esac
done
git -C /repo worktree remove --force "$WT"
[ $ok = 1 ] || { echo "ABORT: check does not pass on the patched tree"; exit 1; }
git -C /repo apply "$PATCH" && git -C /repo add -A && git -C /repo commit -q -F "$MSG" && git -C /repo log --oneline | head -1
for P in "$@"; do (cd "$V" && ./check "$P" 2>&1 | grep -E "^(VIOLATION|KNOWN|check )" | cut -c1-300); done
