#!/bin/sh
# Serialised `lake build <targets…>` (several agents/checks share lean/.lake).  Output capped.
V="$(cd "$(dirname "$0")/.." && pwd)"
mkdir -p "$V/out"
cd "$V/lean" && flock "$V/out/.lake.lock" lake build "$@" 2>&1 | tail -c 6000
