#!/usr/bin/env python3
"""Run behaviour-preserving refactors (written by independent agents) through the checks; store them as negative
controls in seeded/harmless-<name>/ with the outcome.   Usage: run_harmless.py <patch> <name> <Cxx> [<Cyy>…]"""
import json, pathlib, shutil, subprocess, sys
V = pathlib.Path(__file__).resolve().parent.parent
patch, name, *props = sys.argv[1:]
tr = subprocess.run([str(V / "tools/try_seeded.sh"), patch, *props], capture_output=True, text=True, cwd=V).stdout
lines = [l[:260] for l in tr.splitlines() if l.startswith(("VIOLATION", "check "))]
out = V / "seeded" / f"harmless-{name}"
out.mkdir(parents=True, exist_ok=True)
import os
if os.path.abspath(patch) != str(out / "patch.diff"):
    shutil.copy(patch, out / "patch.diff")
alarms = [l for l in lines if l.startswith("VIOLATION")]
meta = {"id": f"harmless-{name}", "property": ", ".join(props) + " (negative control)",
        "change": "behaviour-preserving refactor written by a fresh sub-agent (renames / reordering / control-flow restructuring; suite still 332 passed)",
        "expected": "no alarm", "ran": f"tools/try_seeded.sh seeded/harmless-{name}/patch.diff {' '.join(props)}",
        "outcome": lines, "silent": not alarms}
(out / "meta.json").write_text(json.dumps(meta, indent=1))
print(name, "SILENT" if not alarms else "ALARM", "|", " || ".join(l[:150] for l in lines))
