#!/usr/bin/env python3
"""Normalised AST fingerprints of the anchored source files (docstrings and comments ignored).

`./check` compares the fingerprints of `spec["sources"]` with `harness/fingerprints.json`; a difference
does NOT fail the check, it marks the property `source_changed` and multiplies the search budget
(the hand-written model was validated against a different source text).  Run this file to record the
fingerprints of the tree the models were last validated against:   python3 tools/fingerprint.py --update
"""
from __future__ import annotations

import ast
import hashlib
import json
import os
import pathlib
import sys

V = pathlib.Path(__file__).resolve().parent.parent
REPO = pathlib.Path(os.environ.get("VERIF_REPO", "/repo"))


def fingerprint(path: pathlib.Path) -> str:
    try:
        tree = ast.parse(path.read_text())
    except (OSError, SyntaxError) as e:
        return f"unreadable:{type(e).__name__}"
    for node in ast.walk(tree):
        body = getattr(node, "body", None)
        if isinstance(body, list) and body and isinstance(body[0], ast.Expr) and isinstance(
                getattr(body[0], "value", None), ast.Constant) and isinstance(body[0].value.value, str):
            node.body = body[1:] or [ast.Pass()]
    return hashlib.sha256(ast.unparse(tree).encode()).hexdigest()[:20]


def current(sources: list[str], repo: pathlib.Path = REPO) -> dict[str, str]:
    return {s: fingerprint(repo / s) for s in sources}


def anchors() -> dict[str, list[str]]:
    """Anchored files per property, from properties.jsonl (the default `sources` of a check)."""
    out = {}
    for line in (V / "properties.jsonl").read_text().splitlines():
        if line.strip():
            p = json.loads(line)
            out[p["id"]] = list(p["anchors"]["files"])
    return out


def sources_of(prop: str, spec: dict) -> list[str]:
    return sorted(set(spec.get("sources") or []) | set(anchors().get(prop, [])))


def main() -> None:
    specs = {p.stem: json.loads(p.read_text()) for p in sorted((V / "harness" / "props.d").glob("C*.json"))}
    out = {k: current(sources_of(k, v)) for k, v in specs.items()}
    if "--update" in sys.argv:
        (V / "harness" / "fingerprints.json").write_text(json.dumps(out, indent=1, sort_keys=True) + "\n")
        print("recorded fingerprints for", ", ".join(k for k, v in out.items() if v))
    else:
        print(json.dumps(out, indent=1))


if __name__ == "__main__":
    main()
