#!/bin/bash
# Usage: tools/try_seeded.sh <patch.diff> <Cxx> [<Cyy> …]   (env TIER=quick|thorough, VERIF_SEED)
# Runs the checks against a scratch worktree of /repo with the patch applied, from a scratch COPY of /verif
# (so the regenerated Extracted/*.lean and the lake build do not disturb the live tree).  Cleans up afterwards.
set -u
PATCH="$(readlink -f "$1")"; shift
V="$(cd "$(dirname "$0")/.." && pwd)"
ID="$$"
WT="/tmp/seed-wt-$ID"; VC="/tmp/seed-verif-$ID"
git -C /repo worktree add -q "$WT" HEAD || exit 2
if ! git -C "$WT" apply "$PATCH"; then echo "patch does not apply"; git -C /repo worktree remove --force "$WT"; exit 2; fi
rsync -a --exclude out --exclude .git "$V/" "$VC/"
rc=0
for P in "$@"; do
  (cd "$VC" && VERIF_REPO="$WT" ./check "$P" --tier "${TIER:-quick}" 2>&1 | grep -E "^(VIOLATION|KNOWN-FINDING|check )" | cut -c1-400)
  f=$(ls -t "$VC"/out/"$P"-*.json 2>/dev/null | head -1)
  if [ -n "$f" ]; then mkdir -p "$V/out/seeded"; cp "$f" "$V/out/seeded/$(basename "$PATCH" .diff)-$(basename "$f")"; echo "replay copied: out/seeded/$(basename "$PATCH" .diff)-$(basename "$f")"; fi
done
git -C /repo worktree remove --force "$WT"; rm -rf "$VC"
