"""Which metric does a fallback formula request, and which the formula it backs?  -> Lean (`Extracted/FallbackMetrics.lean`).

From the *current* source text of `formula_engine/_formula_generators/*.py` (pure `ast`, the repo is never imported):

  * every construction site `FallbackFormulaMetricFetcher(<generator>)` inside a generator class `P` is resolved to the
    class `F` of `<generator>` (a local assigned exactly once in that method from `F(…)`, or `F(…)` itself);
  * the metric of a generator class is what its `generate()` passes to `self._get_builder(<name>, ComponentMetricId.<M>,
    <create method>)` — every such call of the class (base classes are searched when the class has none) must name the
    same literal member `<M>`; likewise the create method (`Power.from_watts`, …), which decides the unit of the result;
  * `FormulaGenerator._get_builder` must hand its second parameter on to `ResampledFormulaBuilder` as the metric id.

Emitted: one row (P, metric of P, create of P, F, metric of F, create of F) per construction site.  The theorem
`C19_fallback_same_metric` (Props/C19.lean) says every row has equal metrics and equal create methods, and that the
rows are the ones the harness drives.  A class whose metric cannot be established this way (a computed metric id, several
different ones, no `_get_builder` call) raises — when it takes part in a fallback pair.
"""
import ast
import pathlib

from py2lean import Unsupported

NAME = "FallbackMetrics"
DIR = "src/frequenz/sdk/timeseries/formula_engine/_formula_generators/"
FILES = ["_battery_power_formula.py", "_chp_power_formula.py", "_consumer_power_formula.py",
         "_ev_charger_current_formula.py", "_ev_charger_power_formula.py", "_fallback_formula_metric_fetcher.py",
         "_formula_generator.py", "_grid_current_formula.py", "_grid_power_3_phase_formula.py",
         "_grid_power_formula.py", "_grid_power_formula_base.py", "_grid_reactive_power_formula.py",
         "_producer_power_formula.py", "_pv_power_formula.py", "_simple_formula.py"]
SOURCES = [DIR + f for f in FILES]
WRAPPER = "FallbackFormulaMetricFetcher"


def _classes(repo: pathlib.Path) -> dict[str, ast.ClassDef]:
    out: dict[str, ast.ClassDef] = {}
    d = repo / DIR
    listed = {f for f in FILES}
    present = {p.name for p in d.glob("*.py") if p.name != "__init__.py"}
    if present != listed:
        raise Unsupported(f"the generator modules changed: {sorted(present ^ listed)}")
    for f in FILES:
        tree = ast.parse((d / f).read_text())
        for n in tree.body:
            if isinstance(n, ast.ClassDef):
                if n.name in out:
                    raise Unsupported(f"class {n.name} defined twice")
                out[n.name] = n
    return out


def _bases(cls: ast.ClassDef) -> list[str]:
    names = []
    for b in cls.bases:
        if isinstance(b, ast.Subscript):
            b = b.value
        if isinstance(b, ast.Name):
            names.append(b.id)
        elif isinstance(b, ast.Attribute):
            names.append(b.attr)
    return names


def _builder_calls(cls: ast.ClassDef) -> list[ast.Call]:
    return [n for n in ast.walk(cls) if isinstance(n, ast.Call) and isinstance(n.func, ast.Attribute)
            and n.func.attr == "_get_builder" and isinstance(n.func.value, ast.Name) and n.func.value.id == "self"]


def _metric_of(name: str, classes: dict[str, ast.ClassDef], seen: tuple = ()) -> tuple[str, str]:
    """(metric member, create method) of a generator class."""
    if name not in classes or name in seen:
        raise Unsupported(f"generator class {name} not found")
    cls = classes[name]
    calls = _builder_calls(cls)
    if not calls:
        found = []
        for b in _bases(cls):
            if b in classes:
                try:
                    found.append(_metric_of(b, classes, seen + (name,)))
                except Unsupported:
                    pass
        if len(found) != 1:
            raise Unsupported(f"{name}: no `self._get_builder(…)` call establishes its metric")
        return found[0]
    got = set()
    for c in calls:
        args = list(c.args) + [None] * 3
        by_kw = {k.arg: k.value for k in c.keywords}
        metric = by_kw.get("component_metric_id", args[1])
        create = by_kw.get("create_method", args[2])
        if not (isinstance(metric, ast.Attribute) and isinstance(metric.value, ast.Name)
                and metric.value.id == "ComponentMetricId"):
            raise Unsupported(f"{name}: the metric id of `_get_builder` is not a literal `ComponentMetricId.<member>` "
                              f"({ast.unparse(metric) if metric is not None else 'missing'})")
        if create is None:
            raise Unsupported(f"{name}: `_get_builder` without a create method")
        got.add((metric.attr, ast.unparse(create)))
    if len(got) != 1:
        raise Unsupported(f"{name}: several different metrics / create methods: {sorted(got)}")
    return next(iter(got))


def _check_get_builder(classes: dict[str, ast.ClassDef]) -> None:
    base = classes.get("FormulaGenerator")
    fn = next((n for n in (base.body if base else []) if isinstance(n, ast.FunctionDef) and n.name == "_get_builder"), None)
    if fn is None:
        raise Unsupported("FormulaGenerator._get_builder not found")
    params = [a.arg for a in fn.args.args]
    if len(params) < 4:
        raise Unsupported("FormulaGenerator._get_builder: parameters")
    metric_param, create_param = params[2], params[3]
    calls = [n for n in ast.walk(fn) if isinstance(n, ast.Call) and isinstance(n.func, ast.Name)
             and n.func.id == "ResampledFormulaBuilder"]
    if len(calls) != 1:
        raise Unsupported("FormulaGenerator._get_builder: expected one ResampledFormulaBuilder(…)")
    c = calls[0]
    passed = [a for a in c.args] + [k.value for k in c.keywords]
    names = [a.id for a in passed if isinstance(a, ast.Name)]
    if names.count(metric_param) != 1 or names.count(create_param) != 1:
        raise Unsupported("FormulaGenerator._get_builder does not hand its metric id / create method on")
    # positional layout of ResampledFormulaBuilder(namespace, formula_name, channel_registry, sender, metric_id, create_method)
    kw = {k.arg: k.value for k in c.keywords}
    metric_arg = kw.get("metric_id", c.args[4] if len(c.args) > 4 else None)
    create_arg = kw.get("create_method", c.args[5] if len(c.args) > 5 else None)
    if not (isinstance(metric_arg, ast.Name) and metric_arg.id == metric_param
            and isinstance(create_arg, ast.Name) and create_arg.id == create_param):
        raise Unsupported("FormulaGenerator._get_builder: metric id / create method in the wrong argument position")
    for n in ast.walk(fn):
        if isinstance(n, ast.Name) and isinstance(n.ctx, ast.Store) and n.id in (metric_param, create_param):
            raise Unsupported("FormulaGenerator._get_builder rebinds its metric id / create method")


def _sites(cls: ast.ClassDef, classes: dict[str, ast.ClassDef]) -> list[str]:
    """The generator classes wrapped by `FallbackFormulaMetricFetcher(…)` inside `cls`."""
    out = []
    for fn in [n for n in cls.body if isinstance(n, (ast.FunctionDef, ast.AsyncFunctionDef))]:
        for n in ast.walk(fn):
            if not (isinstance(n, ast.Call) and isinstance(n.func, ast.Name) and n.func.id == WRAPPER):
                continue
            args = list(n.args) + [k.value for k in n.keywords]
            if len(args) != 1:
                raise Unsupported(f"{cls.name}: {WRAPPER}(…) with {len(args)} arguments")
            a = args[0]
            if isinstance(a, ast.Name):
                assigns = [s for s in ast.walk(fn) if isinstance(s, (ast.Assign, ast.AnnAssign))
                           and any(isinstance(t, ast.Name) and t.id == a.id
                                   for t in (s.targets if isinstance(s, ast.Assign) else [s.target]))]
                other = [x for x in ast.walk(fn) if isinstance(x, ast.Name) and x.id == a.id
                         and isinstance(x.ctx, ast.Store)]
                if len(assigns) != 1 or len(other) != 1 or assigns[0].value is None:
                    raise Unsupported(f"{cls.name}: the generator passed to {WRAPPER} is not a local assigned once")
                a = assigns[0].value
            if not (isinstance(a, ast.Call) and isinstance(a.func, ast.Name) and a.func.id in classes):
                raise Unsupported(f"{cls.name}: cannot tell which generator {WRAPPER}({ast.unparse(args[0])[:40]}) wraps")
            out.append(a.func.id)
    return out


def generate(repo: pathlib.Path) -> str:
    classes = _classes(repo)
    if WRAPPER not in classes:
        raise Unsupported(f"{WRAPPER} not found")
    _check_get_builder(classes)
    rows = []
    for name in sorted(classes):
        for fb in _sites(classes[name], classes):
            pm, pc = _metric_of(name, classes)
            fm, fc = _metric_of(fb, classes)
            rows.append((name, pm, pc, fb, fm, fc))
    if not rows:
        raise Unsupported(f"no {WRAPPER}(…) construction site found")
    body = ",\n".join(f'    ⟨"{a}", "{b}", "{c}", "{d}", "{e}", "{f}"⟩' for a, b, c, d, e, f in rows)
    return (
        "namespace Extracted.FallbackMetrics\n\n"
        "/-- one `FallbackFormulaMetricFetcher(<generator>)` construction site -/\n"
        "structure Row where\n"
        "  primary : String          -- the generator class that builds the fallback\n"
        "  primaryMetric : String    -- `ComponentMetricId` member its own formula requests\n"
        "  primaryCreate : String    -- … and the create method (unit) of its result\n"
        "  fallback : String         -- the generator class of the fallback formula\n"
        "  fallbackMetric : String\n"
        "  fallbackCreate : String\n"
        "deriving DecidableEq, Repr\n\n"
        f"def rows : List Row := [\n{body}]\n\n"
        "end Extracted.FallbackMetrics\n"
    )
