"""Power distributor (C14) and result accounting (C15) -> Lean tables and expressions.

Everything below is read from the Python AST of the anchored functions (never imported):

C14  `power_distributing.py`
  * `_run`                    -> what happens to an arriving request when a task for the same group is /
                                 is not registered (`store pending` | `start` | `drop`);
  * `_handle_task_completion` -> whether an exception of the finished task escapes the callback, what is
                                 done when a pending request exists / does not exist;
  * `_process_request`        -> whether the new task is registered in `_processing_tasks`.
C15  `_battery_manager.py`, `_pv_inverter_manager.py`, `_internal/_math.py`
  * which `set_power` outcomes count as failed in `_parse_result` / `_set_api_power` (from the `except`
    clauses, using the exception hierarchy of the client library written down in `MRO` below);
  * the expressions put into the `Success` / `PartialFailure` fields;
  * the PV water-filling loop: skip test, share, allocation, sort direction;
  * the `is_close_to_zero` tolerance;
  * the instance attributes that any method reachable from `distribute_power` assigns / deletes / mutates
    (`batRequestStateWrites`, `pvRequestStateWrites`): one manager serves several requests concurrently, so these
    are the only channel through which another request in flight could change a result.

How the code is located (tolerant to behaviour-preserving rewrites, still read from the current source):
  * variables are identified by their *role* (parameter position, what is returned / passed to the result
    constructors, how they are accumulated), never by name; single-use locals are inlined;
  * the await-free scheduling code of C14 is *symbolically executed* over the two facts it can test (request id
    in `_processing_tasks` / in `_pending_requests`): inverted tests, guard clauses, early `continue`/`return`,
    if/elif chains vs sequential ifs, `.get(..)`/walrus tests and private helper methods of the same class are
    normalised away, the table records the effect per combination; lambda / nested def / partial callbacks alike;
  * one iteration of the loops that inspect the finished `set_power` tasks is symbolically executed once per
    outcome (returns / each exception kind): flags, try/except/else, `continue`, if/else are interpreted and
    the table records whether the failed accumulators (both of them) or the succeeded one are updated;
  * the branch that selects `PartialFailure` vs `Success` is recognised in either polarity.
Statements with side effects that are not one of the recognised effects, partial effects (only one of two
accumulators), or anything else outside this fragment raise `Unsupported`; the checks of C14/C15 then go to the
failing-input search.
"""
from __future__ import annotations

import ast
import copy
import pathlib
from fractions import Fraction

NAME = "Distributor"
PD = "src/frequenz/sdk/microgrid/_power_distributing/"
SOURCES = [
    PD + "power_distributing.py",
    PD + "_component_managers/_battery_manager.py",
    PD + "_component_managers/_pv_inverter_manager/_pv_inverter_manager.py",
    "src/frequenz/sdk/_internal/_math.py",
]


class Unsupported(Exception):
    pass


# ----------------------------------------------------------------------------- helpers
def _strip(body: list[ast.stmt]) -> list[ast.stmt]:
    """Drop docstrings, logging calls, `pass`, and `if` statements that only log."""
    out = []
    for s in body:
        if isinstance(s, ast.Expr) and isinstance(s.value, ast.Constant):
            continue
        if isinstance(s, ast.Pass):
            continue
        if _is_log(s):
            continue
        if isinstance(s, ast.If) and not _strip(s.body) and not _strip(s.orelse) and not _mutates(s.test):
            continue
        out.append(s)
    return out


MUTATORS = {"pop", "setdefault", "update", "clear", "popitem", "add", "remove", "discard", "append", "extend",
            "insert", "send", "cancel", "set_result", "set_exception"}


def _mutates(node: ast.AST) -> bool:
    """Does evaluating this expression (possibly) change state?  (method calls with a mutating name)"""
    return any(isinstance(c, ast.Call) and isinstance(c.func, ast.Attribute) and c.func.attr in MUTATORS
               for c in ast.walk(node))


def _is_log(s: ast.stmt) -> bool:
    return (
        isinstance(s, ast.Expr)
        and isinstance(s.value, ast.Call)
        and isinstance(s.value.func, ast.Attribute)
        and isinstance(s.value.func.value, ast.Name)
        and s.value.func.value.id in ("_logger", "logging")
        and not any(_mutates(a) for a in s.value.args)
    )


def _find_class(tree: ast.Module, name: str) -> ast.ClassDef:
    for n in tree.body:
        if isinstance(n, ast.ClassDef) and n.name == name:
            return n
    raise Unsupported(f"class {name} not found")


def _find_method(cls: ast.ClassDef, name: str) -> ast.FunctionDef | ast.AsyncFunctionDef:
    for n in cls.body:
        if isinstance(n, (ast.FunctionDef, ast.AsyncFunctionDef)) and n.name == name:
            return n
    raise Unsupported(f"method {cls.name}.{name} not found")


def _src(n: ast.AST) -> str:
    return ast.unparse(n)


def _contains(node: ast.AST | list[ast.stmt], kind: type | tuple[type, ...]) -> bool:
    nodes = node if isinstance(node, list) else [node]
    return any(isinstance(x, kind) for n in nodes for x in ast.walk(n))


# ----------------------------------------------------------------------------- normalisation
class _Subst(ast.NodeTransformer):
    """Inline locals: every loaded name that has a recorded defining expression is replaced by it."""

    def __init__(self, env: dict[str, ast.expr]):
        self.env = env

    def visit_Name(self, node: ast.Name) -> ast.AST:  # noqa: N802
        if isinstance(node.ctx, ast.Load) and node.id in self.env:
            repl = self.env[node.id]
            if isinstance(repl, ast.Name) and repl.id == node.id:
                return node
            return _Subst({k: v for k, v in self.env.items() if k != node.id}).visit(copy.deepcopy(repl))
        return node

    def visit_NamedExpr(self, node: ast.NamedExpr) -> ast.AST:  # noqa: N802
        return self.visit(node.value)


def _canon(node: ast.AST, env: dict[str, ast.expr]) -> str:
    return ast.unparse(_Subst(env).visit(copy.deepcopy(node)))


def _methods(cls: ast.ClassDef) -> dict[str, ast.FunctionDef]:
    return {n.name: n for n in cls.body if isinstance(n, ast.FunctionDef)}


# ----------------------------------------------------------------------------- call normalisation / helper inlining
def _plain_methods(cls: ast.ClassDef) -> dict[str, ast.FunctionDef | ast.AsyncFunctionDef]:
    """Instance methods (first parameter `self`, no static/class-method decorator) of a class."""
    out = {}
    for n in cls.body:
        if isinstance(n, (ast.FunctionDef, ast.AsyncFunctionDef)) and n.args.args and n.args.args[0].arg == "self" \
                and not any(_src(d).split(".")[-1] in ("staticmethod", "classmethod", "property") for d in n.decorator_list):
            out[n.name] = n
    return out


class _KwToPos(ast.NodeTransformer):
    """`self.m(a, y=c, x=b)` -> `self.m(a, b, c)` using the signature of `m` in the same class.  Done only when the
    keywords fill the next positional parameters without a gap and the order of evaluation of the arguments cannot
    matter (same order, or no argument contains a call / await / walrus).  Anything else is left as written."""

    def __init__(self, sigs: dict[str, list[str]]):
        self.sigs = sigs

    def visit_Call(self, node: ast.Call) -> ast.AST:  # noqa: N802
        self.generic_visit(node)
        f = node.func
        if not (isinstance(f, ast.Attribute) and isinstance(f.value, ast.Name) and f.value.id == "self"
                and f.attr in self.sigs and node.keywords):
            return node
        if any(k.arg is None for k in node.keywords) or any(isinstance(a, ast.Starred) for a in node.args):
            return node
        rest = self.sigs[f.attr][len(node.args):]
        kw = {k.arg: k.value for k in node.keywords}
        if len(kw) != len(node.keywords) or list(rest[:len(kw)]) != [p for p in rest if p in kw] or not set(kw) <= set(rest):
            return node
        if [k.arg for k in node.keywords] != list(rest[:len(kw)]) and \
                any(_contains(v, (ast.Call, ast.Await, ast.NamedExpr)) for v in kw.values()):
            return node
        node.args = list(node.args) + [kw[p] for p in rest[:len(kw)]]
        node.keywords = []
        return node


def _normalise_calls(tree: ast.Module) -> ast.Module:
    for cls in tree.body:
        if isinstance(cls, ast.ClassDef):
            sigs = {name: [a.arg for a in fn.args.args[1:]] for name, fn in _plain_methods(cls).items()
                    if not fn.args.posonlyargs and not fn.args.vararg}
            _KwToPos(sigs).visit(cls)
    return tree


class _Rename(ast.NodeTransformer):
    def __init__(self, m: dict[str, str]):
        self.m = m

    def visit_Name(self, node: ast.Name) -> ast.AST:  # noqa: N802
        if node.id in self.m:
            node.id = self.m[node.id]
        return node

    def visit_arg(self, node: ast.arg) -> ast.AST:  # noqa: N802
        if node.arg in self.m:
            node.arg = self.m[node.arg]
        return node


class _Inliner:
    """Replace `x = self._h(a, …)` / `x: T = self._h(…)` / `self._h(…)` / `return self._h(…)` by the body of the
    synchronous same-class method `_h` (parameters bound to the arguments, locals renamed apart; when `_h` ends in
    `return <local>` that local simply takes the name `x`).  Only helpers whose body is straight-line up to ONE final
    `return` (or none) are inlined; every other call is left as it is, for the analyses to accept or refuse."""

    def __init__(self, cls: ast.ClassDef, keep: set[str]):
        self.methods = {k: v for k, v in _plain_methods(cls).items() if isinstance(v, ast.FunctionDef) and k not in keep}
        # static methods: called as `self.f(…)` or `<Class>.f(…)`, no `self` parameter
        self.static = {n.name: n for n in cls.body if isinstance(n, ast.FunctionDef) and n.name not in keep
                       and [_src(d).split(".")[-1] for d in n.decorator_list] == ["staticmethod"]}
        self.cls_name = cls.name
        self.n = 0

    def inlinable(self, call: ast.expr | None) -> ast.FunctionDef | None:
        if not (isinstance(call, ast.Call) and isinstance(call.func, ast.Attribute) and isinstance(call.func.value, ast.Name)
                and call.func.value.id in ("self", self.cls_name) and not call.keywords
                and not any(isinstance(a, ast.Starred) for a in call.args)):
            return None
        name = call.func.attr
        if name in self.static:
            fn, nself = self.static[name], 0
        elif name in self.methods and call.func.value.id == "self":
            fn, nself = self.methods[name], 1
            if [d for d in fn.decorator_list if _src(d).split(".")[-1] != "override"]:
                return None
        else:
            return None
        a = fn.args
        if a.vararg or a.kwarg or a.kwonlyargs or a.posonlyargs or len(a.args) - nself != len(call.args):
            return None
        body = [s for s in fn.body if not (isinstance(s, ast.Expr) and isinstance(s.value, ast.Constant))]
        if _contains(body, (ast.Yield, ast.YieldFrom, ast.FunctionDef, ast.AsyncFunctionDef, ast.ClassDef, ast.Global,
                            ast.Nonlocal, ast.Await)):
            return None
        inner = body[:-1] if body and isinstance(body[-1], ast.Return) else body
        if _contains(inner, ast.Return):
            # several exits: fine unless one of them is inside a loop / with block (no single-exit form without `break`)
            for x in body:
                for y in ast.walk(x):
                    if isinstance(y, (ast.For, ast.While, ast.With, ast.Match)) and _contains(y, ast.Return):
                        return None
        return fn

    def single_exit(self, stmts: list[ast.stmt], rvar: str, dvar: str) -> tuple[list[ast.stmt], bool]:
        """`return e` -> `rvar = e; dvar = True`; what follows a statement that may have returned runs `if not dvar`."""
        out: list[ast.stmt] = []
        for i, s in enumerate(stmts):
            may = False
            if isinstance(s, ast.Return):
                out.append(ast.Assign(targets=[ast.Name(id=rvar, ctx=ast.Store())], value=s.value or ast.Constant(value=None)))
                out.append(ast.Assign(targets=[ast.Name(id=dvar, ctx=ast.Store())], value=ast.Constant(value=True)))
                return out, True
            if isinstance(s, ast.If):
                s.body, m1 = self.single_exit(s.body, rvar, dvar)
                s.orelse, m2 = self.single_exit(s.orelse, rvar, dvar)
                may = m1 or m2
            elif isinstance(s, ast.Try):
                s.body, m1 = self.single_exit(s.body, rvar, dvar)
                s.orelse, m2 = self.single_exit(s.orelse, rvar, dvar)
                s.finalbody, m3 = self.single_exit(s.finalbody, rvar, dvar)
                may = m1 or m2 or m3
                for h in s.handlers:
                    h.body, m = self.single_exit(h.body, rvar, dvar)
                    may = may or m
            out.append(s)
            if may:
                rest, _ = self.single_exit(list(stmts[i + 1:]), rvar, dvar)
                if rest:
                    out.append(ast.If(test=ast.UnaryOp(op=ast.Not(), operand=ast.Name(id=dvar, ctx=ast.Load())), body=rest, orelse=[]))
                return out, True
        return out, False

    def expand(self, fn: ast.FunctionDef, call: ast.Call, target: ast.expr | None, ann: ast.expr | None,
               is_return: bool) -> list[ast.stmt]:
        self.n += 1
        body = copy.deepcopy([s for s in fn.body if not (isinstance(s, ast.Expr) and isinstance(s.value, ast.Constant))])
        params = [x.arg for x in fn.args.args[(0 if fn.name in self.static and self.static[fn.name] is fn else 1):]]
        bound = set(params)
        for s in body:
            for x in ast.walk(s):
                if isinstance(x, ast.Name) and isinstance(x.ctx, (ast.Store, ast.Del)):
                    bound.add(x.id)
                elif isinstance(x, ast.arg):
                    bound.add(x.arg)
        ren = {b: f"_{fn.name.strip('_')}{self.n}_{b}" for b in bound if b != "self"}
        ret = body[-1] if body and isinstance(body[-1], ast.Return) else None
        if _contains(body[:-1] if ret is not None else body, ast.Return):  # several exits -> single-exit form
            rvar, dvar = f"_{fn.name.strip('_')}{self.n}_result", f"_{fn.name.strip('_')}{self.n}_returned"
            body, _ = self.single_exit(body, rvar, dvar)
            body.insert(0, ast.Assign(targets=[ast.Name(id=dvar, ctx=ast.Store())], value=ast.Constant(value=False)))
            ret = ast.Return(value=ast.Name(id=rvar, ctx=ast.Load()))
            bound |= {rvar, dvar}
            ren[rvar], ren[dvar] = rvar, dvar
        elif ret is not None:
            body = body[:-1]
        arg_names = {x.id for a in call.args for x in ast.walk(a) if isinstance(x, ast.Name)}
        direct = (ret is not None and isinstance(ret.value, ast.Name) and ret.value.id in bound and ret.value.id not in params
                  and isinstance(target, ast.Name) and target.id not in arg_names)
        if direct:
            ren[ret.value.id] = target.id
        # a parameter that the helper never rebinds and whose argument is a plain name / attribute path (no call, no
        # subscript: evaluating it again is the same value) is replaced by the argument; the others are assigned
        rebound = {x.id for s in body for x in ast.walk(s) if isinstance(x, ast.Name) and isinstance(x.ctx, (ast.Store, ast.Del))}
        subst: dict[str, ast.expr] = {}
        out: list[ast.stmt] = []
        for pn, a in zip(params, call.args):
            plain = all(isinstance(x, (ast.Name, ast.Attribute, ast.Load)) for x in ast.walk(a))
            if plain and pn not in rebound:
                subst[ren[pn]] = copy.deepcopy(a)
            else:
                out.append(ast.Assign(targets=[ast.Name(id=ren[pn], ctx=ast.Store())], value=copy.deepcopy(a)))
        body = [_Rename(ren).visit(s) for s in body]
        if subst:
            body = [_Subst(subst).visit(s) for s in body]
        out += body
        val = _Rename(ren).visit(copy.deepcopy(ret.value)) if ret is not None and ret.value is not None else ast.Constant(value=None)
        if subst:
            val = _Subst(subst).visit(val)
        if is_return:
            out.append(ast.Return(value=val))
        elif target is not None and not direct:
            out.append(ast.AnnAssign(target=target, annotation=ann, value=val, simple=1) if ann is not None
                       else ast.Assign(targets=[target], value=val))
        for s in out:
            ast.fix_missing_locations(s)
        return out

    def stmts(self, body: list[ast.stmt], depth: int = 0) -> list[ast.stmt]:
        out: list[ast.stmt] = []
        for s in body:
            call, target, ann, is_ret = None, None, None, False
            if isinstance(s, ast.Assign) and len(s.targets) == 1 and isinstance(s.targets[0], ast.Name):
                call, target = s.value, s.targets[0]
            elif isinstance(s, ast.AnnAssign) and isinstance(s.target, ast.Name) and s.value is not None:
                call, target, ann = s.value, s.target, s.annotation
            elif isinstance(s, ast.Expr):
                call = s.value
            elif isinstance(s, ast.Return):
                call, is_ret = s.value, True
            fn = self.inlinable(call) if depth < 4 else None
            if fn is not None:
                out.extend(self.stmts(self.expand(fn, call, target, ann, is_ret), depth + 1))
                continue
            if isinstance(s, ast.If) and depth < 4:  # `if [not] self._h(…):`
                t, neg = s.test, False
                while isinstance(t, ast.UnaryOp) and isinstance(t.op, ast.Not):
                    t, neg = t.operand, not neg
                fn = self.inlinable(t)
                if fn is not None:
                    tmp = ast.Name(id=f"_{fn.name.strip('_')}{self.n + 1}_value", ctx=ast.Store())
                    out.extend(self.stmts(self.expand(fn, t, tmp, None, False), depth + 1))
                    test: ast.expr = ast.Name(id=tmp.id, ctx=ast.Load())
                    s.test = ast.UnaryOp(op=ast.Not(), operand=test) if neg else test
                    ast.fix_missing_locations(s)
            for field in ("body", "orelse", "finalbody"):
                sub = getattr(s, field, None)
                if isinstance(sub, list) and sub and isinstance(sub[0], ast.stmt):
                    setattr(s, field, self.stmts(sub, depth))
            if isinstance(s, ast.Try):
                for h in s.handlers:
                    h.body = self.stmts(h.body, depth)
            out.append(s)
        return out


def _inlined(cls: ast.ClassDef, name: str, keep: set[str] = frozenset()) -> ast.FunctionDef | ast.AsyncFunctionDef:
    """The method `name` of `cls` with its straight-line private helpers inlined (a copy; `cls` is not changed)."""
    fn = copy.deepcopy(_find_method(cls, name))
    fn.body = _Inliner(cls, set(keep) | {name}).stmts(fn.body)
    return fn


def _desugar(fn: ast.AST) -> None:
    """Top-level `x = [e for v in it if c]` / `x = sorted(y, key=…, reverse=…)` become the loop / the in-place sort they
    mean (`x = []; for v in it: if c: x.append(e)` resp. `x = list(y)`-free `x.sort(…)` when y is x or a fresh list)."""
    # a local `def f(x): return e` (or `f = lambda x: e`) that is defined once: calls `f(a)` become `e[x := a]`, other
    # uses (`key=f`) become the lambda
    local: dict[str, ast.Lambda] = {}
    for s in fn.body:
        if isinstance(s, ast.FunctionDef) and not s.decorator_list and not s.args.defaults and not s.args.vararg \
                and not s.args.kwarg and not s.args.kwonlyargs:
            b = [x for x in s.body if not (isinstance(x, ast.Expr) and isinstance(x.value, ast.Constant))]
            if len(b) == 1 and isinstance(b[0], ast.Return) and b[0].value is not None:
                local[s.name] = ast.Lambda(args=s.args, body=b[0].value)
        elif isinstance(s, ast.Assign) and len(s.targets) == 1 and isinstance(s.targets[0], ast.Name) \
                and isinstance(s.value, ast.Lambda) and not s.value.args.defaults:
            local[s.targets[0].id] = s.value
    stores = [x.id for x in ast.walk(fn) if isinstance(x, ast.Name) and isinstance(x.ctx, ast.Store)] + \
             [x.name for x in ast.walk(fn) if isinstance(x, (ast.FunctionDef, ast.AsyncFunctionDef)) and x is not fn]
    local = {k: v for k, v in local.items() if stores.count(k) == 1 and not _mutates(v.body)
             and not _contains(v.body, (ast.Await, ast.NamedExpr))}
    if local:
        class _Calls(ast.NodeTransformer):
            def visit_Call(self, node: ast.Call) -> ast.AST:  # noqa: N802
                if isinstance(node.func, ast.Name) and node.func.id in local and not node.keywords \
                        and len(node.args) == len(local[node.func.id].args.args) \
                        and all(isinstance(x, (ast.Name, ast.Attribute, ast.Load)) for a in node.args for x in ast.walk(a)):
                    lam = local[node.func.id]
                    return _Subst({p.arg: a for p, a in zip(lam.args.args, node.args)}).visit(copy.deepcopy(lam.body))
                self.generic_visit(node)
                return node

            def visit_Name(self, node: ast.Name) -> ast.AST:  # noqa: N802
                if isinstance(node.ctx, ast.Load) and node.id in local:
                    return copy.deepcopy(local[node.id])
                return node

        kept = [x for x in fn.body if not (isinstance(x, ast.FunctionDef) and x.name in local)
                and not (isinstance(x, ast.Assign) and isinstance(x.targets[0], ast.Name) and x.targets[0].id in local
                         and isinstance(x.value, ast.Lambda))]
        fn.body = [_Calls().visit(x) for x in kept]
    out: list[ast.stmt] = []
    for s in fn.body:
        tg = None
        if isinstance(s, ast.Assign) and len(s.targets) == 1 and isinstance(s.targets[0], ast.Name):
            tg = s.targets[0]
        elif isinstance(s, ast.AnnAssign) and isinstance(s.target, ast.Name) and s.value is not None:
            tg = s.target
        v = getattr(s, "value", None)
        if tg is not None and isinstance(v, ast.ListComp) and len(v.generators) == 1 and not v.generators[0].is_async:
            g = v.generators[0]
            app: ast.stmt = ast.Expr(ast.Call(func=ast.Attribute(value=ast.Name(id=tg.id, ctx=ast.Load()), attr="append", ctx=ast.Load()),
                                              args=[v.elt], keywords=[]))
            body: list[ast.stmt] = [app]
            for c in reversed(g.ifs):
                body = [ast.If(test=c, body=body, orelse=[])]
            out.append(ast.Assign(targets=[ast.Name(id=tg.id, ctx=ast.Store())], value=ast.List(elts=[], ctx=ast.Load())))
            out.append(ast.For(target=g.target, iter=g.iter, body=body, orelse=[]))
        elif tg is not None and isinstance(v, ast.Call) and _src(v.func) == "sorted" and len(v.args) == 1 \
                and isinstance(v.args[0], ast.Name) and v.args[0].id == tg.id:
            out.append(ast.Expr(ast.Call(func=ast.Attribute(value=ast.Name(id=tg.id, ctx=ast.Load()), attr="sort", ctx=ast.Load()),
                                         args=[], keywords=v.keywords)))
        else:
            out.append(s)
    for x in out:
        ast.fix_missing_locations(x)
    fn.body = out



# ----------------------------------------------------------------------------- C14
class _Path:
    def __init__(self) -> None:
        self.cond: dict[str, bool] = {}
        self.eff: list[str] = []
        self.st = "run"  # run | continue | return
        self.env: dict[str, ast.expr] = {}

    def copy(self) -> "_Path":
        q = _Path()
        q.cond, q.eff, q.st, q.env = dict(self.cond), list(self.eff), self.st, dict(self.env)
        return q


class _Sched:
    """Symbolic execution of the (await-free) scheduling code over the two facts it can test:
    `busy` = the request id is in `_processing_tasks`, `pend` = it is in `_pending_requests`.
    Guard clauses, early `continue`/`return`, inverted tests, single-use locals and private helper methods of
    the same class are normalised away; what remains per (busy, pend) combination is a list of effects."""

    MAPS = {"self._processing_tasks": "busy", "self._pending_requests": "pend"}

    def __init__(self, cls: ast.ClassDef, rid: str, req: str | None):
        self.methods = _methods(cls)
        self.rid, self.req = rid, req

    def test(self, t: ast.expr, env: dict) -> tuple[str, bool] | None:
        pos = True
        while isinstance(t, ast.UnaryOp) and isinstance(t.op, ast.Not):
            pos, t = not pos, t.operand
        if isinstance(t, ast.NamedExpr):
            t = t.value
        if isinstance(t, ast.Compare) and len(t.ops) == 1:
            op, left, right = t.ops[0], t.left, t.comparators[0]
            if isinstance(op, (ast.In, ast.NotIn)) and _canon(left, env) == self.rid and _canon(right, env) in self.MAPS:
                return self.MAPS[_canon(right, env)], pos == isinstance(op, ast.In)
            if isinstance(op, (ast.Is, ast.IsNot)) and isinstance(right, ast.Constant) and right.value is None:
                inner = self.test(left, env)
                if inner is not None and isinstance(left, (ast.Call, ast.NamedExpr)):
                    return inner[0], (pos == isinstance(op, ast.IsNot)) == inner[1]
            return None
        if isinstance(t, ast.Call) and isinstance(t.func, ast.Attribute) and t.func.attr == "get" and len(t.args) == 1:
            if _canon(t.func.value, env) in self.MAPS and _canon(t.args[0], env) == self.rid:
                return self.MAPS[_canon(t.func.value, env)], pos  # stored values are never falsy (tasks / requests)
        return None

    def effect(self, s: ast.stmt, env: dict) -> str | None:
        rid = self.rid
        if isinstance(s, ast.Expr):
            c = _canon(s.value, env)
            if self.req is not None and c == f"self._process_request({rid}, {self.req})":
                return "start"
            if c == f"self._process_request({rid}, self._pending_requests.pop({rid}))":
                return "startPopped"
            if c in (f"self._process_request({rid}, self._pending_requests[{rid}])",
                     f"self._process_request({rid}, self._pending_requests.get({rid}))"):
                return "startKept"
            if c in (f"self._processing_tasks.pop({rid})", f"self._processing_tasks.pop({rid}, None)"):
                return "clear"
        if isinstance(s, ast.Delete) and len(s.targets) == 1 and _canon(s.targets[0], env) == f"self._processing_tasks[{rid}]":
            return "clear"
        if (isinstance(s, ast.Assign) and len(s.targets) == 1 and self.req is not None
                and _canon(s.targets[0], env) == f"self._pending_requests[{rid}]" and _canon(s.value, env) == self.req):
            return "storePending"
        return None

    def block(self, stmts: list[ast.stmt], paths: list[_Path]) -> list[_Path]:
        for s in stmts:
            nxt: list[_Path] = []
            for p in paths:
                nxt.extend(self.step(s, p) if p.st == "run" else [p])
            paths = nxt
        return paths

    def step(self, s: ast.stmt, p: _Path) -> list[_Path]:
        if (isinstance(s, ast.Expr) and isinstance(s.value, ast.Constant)) or isinstance(s, ast.Pass) or _is_log(s):
            return [p]
        if isinstance(s, ast.Continue):
            p.st = "continue"
            return [p]
        if isinstance(s, ast.Return) and s.value is None:
            p.st = "return"
            return [p]
        e = self.effect(s, p.env)
        if e is not None:
            p.eff.append(e)
            return [p]
        if isinstance(s, ast.If):
            t = self.test(s.test, p.env)
            if t is None or _mutates(s.test):
                if not _strip(s.body) and not _strip(s.orelse) and not _mutates(s.test):
                    return [p]
                raise Unsupported(f"scheduling code branches on `{_src(s.test)}`")
            atom, pos = t
            if atom in p.cond:
                return self.block(s.body if p.cond[atom] == pos else s.orelse, [p])
            yes, no = p.copy(), p.copy()
            yes.cond[atom], no.cond[atom] = pos, not pos
            return self.block(s.body, [yes]) + self.block(s.orelse, [no])
        if isinstance(s, (ast.Assign, ast.AnnAssign)) and isinstance(s.targets[0] if isinstance(s, ast.Assign) else s.target, ast.Name):
            if s.value is None:
                return [p]
            name = (s.targets[0] if isinstance(s, ast.Assign) else s.target).id
            if _mutates(s.value) and _canon(s.value, p.env) != f"self._pending_requests.pop({self.rid})":
                raise Unsupported(f"scheduling code: assignment with a side effect `{_src(s)[:80]}`")
            p.env[name] = _Subst(p.env).visit(copy.deepcopy(s.value))
            return [p]
        # a private helper of the same class: inline its body
        if (isinstance(s, ast.Expr) and isinstance(s.value, ast.Call) and isinstance(s.value.func, ast.Attribute)
                and _src(s.value.func.value) == "self" and s.value.func.attr in self.methods
                and s.value.func.attr not in ("_process_request", "_handle_task_completion") and not s.value.keywords):
            fn = self.methods[s.value.func.attr]
            params = [a.arg for a in fn.args.args][1:]
            if len(params) != len(s.value.args):
                raise Unsupported(f"helper {fn.name}: argument count")
            saved = p.env
            p.env = {k: _Subst(saved).visit(copy.deepcopy(a)) for k, a in zip(params, s.value.args)}
            out = self.block(fn.body, [p])
            for q in out:
                if q.st == "return":
                    q.st = "run"
                q.env = dict(saved)
            return out
        raise Unsupported(f"scheduling code: cannot interpret `{_src(s)[:80]}`")

    def table(self, stmts: list[ast.stmt], env: dict[str, ast.expr]) -> dict[tuple[bool, bool], list[str]]:
        start = _Path()
        start.env = dict(env)
        paths = self.block(stmts, [start])
        out: dict[tuple[bool, bool], list[str]] = {}
        for busy in (True, False):
            for pend in (True, False):
                match = [p for p in paths if p.cond.get("busy", busy) == busy and p.cond.get("pend", pend) == pend]
                if len(match) != 1:
                    raise Unsupported("scheduling code: ambiguous paths")
                out[(busy, pend)] = match[0].eff
        return out


def _one(effects: list[str], empty: str) -> str:
    if not effects:
        return empty
    if len(effects) != 1:
        raise Unsupported(f"more than one effect on a path: {effects}")
    return effects[0]


def _policy(tree: ast.Module) -> dict[str, str]:
    cls = _find_class(tree, "PowerDistributingActor")
    # ---- _run
    run = _find_method(cls, "_run")
    loops = [n for n in run.body if isinstance(n, ast.AsyncFor)]
    if len(loops) != 1 or _src(loops[0].iter) != "self._requests_receiver" or not isinstance(loops[0].target, ast.Name):
        raise Unsupported("_run: `async for <request> in self._requests_receiver` expected")
    req = loops[0].target.id
    if loops[0].orelse or [s for s in _strip(run.body) if s is not loops[0] and not isinstance(s, ast.Expr)]:
        raise Unsupported("_run: unexpected statements around the request loop")
    sched = _Sched(cls, f"frozenset({req}.component_ids)", req)
    tab = sched.table(loops[0].body, {})
    pol: dict[str, str] = {}
    for key, busy in (("arriveBusy", True), ("arriveIdle", False)):
        if tab[(busy, True)] != tab[(busy, False)] and busy:
            raise Unsupported("_run: the effect of an arrival depends on whether a request is pending")
        # (idle and pending is unreachable: a pending request exists only while a task is registered)
        pol[key] = "." + _one(tab[(busy, False)], "drop")
        if pol[key] not in (".storePending", ".start", ".drop"):
            raise Unsupported(f"_run: arrival effect {pol[key]}")
    # ---- _handle_task_completion
    htc = _find_method(cls, "_handle_task_completion")
    params = [a.arg for a in htc.args.args]
    if len(params) != 4:
        raise Unsupported("_handle_task_completion: (self, req_id, request, task) expected")
    rid2, task = params[1], params[3]
    hb = _strip(htc.body)
    if not hb:
        raise Unsupported("_handle_task_completion: empty")
    first = hb[0]
    if isinstance(first, ast.Try):
        if [_src(s) for s in _strip(first.body)] != [f"{task}.result()"] or first.finalbody or _strip(first.orelse):
            raise Unsupported("_handle_task_completion: try body is not `task.result()`")
        propagates = True
        for h in first.handlers:
            names = _handler_names(h)
            if names is None or "Exception" in names or "BaseException" in names:
                propagates = _contains(h.body, (ast.Raise, ast.Return))
                if _strip([x for x in h.body if not isinstance(x, (ast.Raise, ast.Return))]):
                    raise Unsupported("_handle_task_completion: the exception handler does more than logging")
                break
        rest = hb[1:]
    elif isinstance(first, ast.Expr) and _src(first.value) == f"{task}.result()":
        propagates, rest = True, hb[1:]
    else:
        if any(f"{task}.result" in _src(x) or f"{task}.exception" in _src(x) for x in hb):
            raise Unsupported("_handle_task_completion: the task's outcome is inspected in an unknown way")
        propagates, rest = False, hb  # the outcome is never inspected: nothing can escape
    pol["excPropagates"] = "true" if propagates else "false"
    tab = _Sched(cls, rid2, None).table(rest, {})
    if tab[(True, True)] != tab[(False, True)]:
        raise Unsupported("_handle_task_completion: with a pending request the effect depends on the task table")
    pol["completePending"] = "." + _one(tab[(True, True)], "nothing")
    pol["completeNoPending"] = "." + _one(tab[(True, False)], "nothing")
    if tab[(False, False)]:
        raise Unsupported("_handle_task_completion: effect without a pending request and without a task")
    if pol["completeNoPending"] not in (".clear", ".nothing") or pol["completePending"] == ".start":
        raise Unsupported("_handle_task_completion: effect not expressible in the policy table")
    # ---- _process_request
    prq = _find_method(cls, "_process_request")
    pp = [a.arg for a in prq.args.args]
    if len(pp) != 3:
        raise Unsupported("_process_request: (self, req_id, request) expected")
    pb = _strip(prq.body)
    tasks = [s for s in pb if isinstance(s, ast.Assign) and isinstance(s.value, ast.Call)
             and _src(s.value.func) == "asyncio.create_task" and isinstance(s.targets[0], ast.Name)]
    if len(tasks) != 1 or _src(tasks[0].value.args[0]) != f"self._component_manager.distribute_power({pp[2]})":
        raise Unsupported("_process_request: create_task(self._component_manager.distribute_power(request)) expected")
    tv = tasks[0].targets[0].id
    nested = {s.name: s for s in pb if isinstance(s, ast.FunctionDef)}
    cbs = [s for s in pb if isinstance(s, ast.Expr) and isinstance(s.value, ast.Call)
           and _src(s.value.func) == f"{tv}.add_done_callback"]
    if len(cbs) != 1 or len(cbs[0].value.args) != 1:
        raise Unsupported("_process_request: one add_done_callback expected")
    cb = cbs[0].value.args[0]
    want = f"self._handle_task_completion({pp[1]}, {pp[2]}, "
    if isinstance(cb, ast.Lambda) and len(cb.args.args) == 1:
        ok = _src(cb.body) == want + cb.args.args[0].arg + ")"
    elif isinstance(cb, ast.Name) and cb.id in nested and len(nested[cb.id].args.args) == 1:
        nb = _strip(nested[cb.id].body)
        ok = len(nb) == 1 and isinstance(nb[0], (ast.Expr, ast.Return)) and nb[0].value is not None \
            and _src(nb[0].value) == want + nested[cb.id].args.args[0].arg + ")"
    elif isinstance(cb, ast.Call) and _src(cb.func) in ("functools.partial", "partial"):
        ok = [_src(a) for a in cb.args] == ["self._handle_task_completion", pp[1], pp[2]] and not cb.keywords
    else:
        ok = False
    if not ok:
        raise Unsupported("_process_request: callback is not self._handle_task_completion(req_id, request, <task>)")
    regs = [s for s in pb if isinstance(s, ast.Assign) and _src(s.targets[0]) == f"self._processing_tasks[{pp[1]}]"]
    if any(_src(s.value) != tv for s in regs) or len(regs) > 1:
        raise Unsupported("_process_request: unexpected registration")
    pol["startRegisters"] = "true" if regs else "false"
    used_nested = [n for n in nested.values() if isinstance(cb, ast.Name) and n.name == cb.id]
    if len(pb) != 2 + len(regs) + len(used_nested):
        raise Unsupported("_process_request: unexpected extra statements")
    return pol


# ----------------------------------------------------------------------------- exception handling tables
# outcome -> names under which an `except` clause catches it (client-library hierarchy, trusted)
MRO = {
    "outOfRange": ["OperationOutOfRange", "GrpcError", "ApiClientError", "Exception", "BaseException"],
    "clientError": ["ApiClientError", "Exception", "BaseException"],
    "exception": ["Exception", "BaseException"],
    "timeout": ["CancelledError", "BaseException"],
}


def _handler_names(h: ast.ExceptHandler) -> list[str] | None:
    if h.type is None:
        return None
    elts = h.type.elts if isinstance(h.type, ast.Tuple) else [h.type]
    return [_src(e).split(".")[-1] for e in elts]


class _CallLoop:
    """Symbolic execution of one iteration of the loop that inspects the finished `set_power` tasks, once per
    outcome of `<task>.result()` (returns / raises one of the four exception kinds).  Boolean flags, guard
    clauses, `continue`, try/except/else are interpreted; what is recorded is which accumulation effects
    happen.  `effects` maps a statement (after inlining locals) to an effect name, or raises for a statement
    that touches an accumulator in an unknown way."""

    def __init__(self, task: str, effect, tracked: set[str]):
        self.task, self.effect, self.tracked = task, effect, tracked

    def run(self, body: list[ast.stmt], outcome: str) -> tuple[set[str], str]:
        self.outcome = outcome
        self.flags: dict[str, bool] = {}
        self.env: dict[str, ast.expr] = {}
        self.effects: list[str] = []
        self.st = "run"
        self.block(body)
        if len(set(self.effects)) != len(self.effects):
            raise Unsupported("an accumulation happens twice in one iteration")
        return set(self.effects), self.st

    def block(self, stmts: list[ast.stmt]) -> None:
        for s in stmts:
            if self.st != "run":
                return
            self.step(s)

    def cond(self, t: ast.expr) -> bool:
        if isinstance(t, ast.UnaryOp) and isinstance(t.op, ast.Not):
            return not self.cond(t.operand)
        if isinstance(t, ast.Name) and t.id in self.flags:
            return self.flags[t.id]
        if isinstance(t, ast.Constant) and isinstance(t.value, bool):
            return t.value
        if isinstance(t, ast.Compare) and len(t.ops) == 1 and isinstance(t.ops[0], (ast.Is, ast.IsNot, ast.Eq, ast.NotEq)) \
                and isinstance(t.comparators[0], ast.Constant) and isinstance(t.comparators[0].value, bool):
            v = self.cond(t.left) == t.comparators[0].value
            return v if isinstance(t.ops[0], (ast.Is, ast.Eq)) else not v
        raise Unsupported(f"result loop branches on `{_src(t)}`")

    def step(self, s: ast.stmt) -> None:
        if (isinstance(s, ast.Expr) and isinstance(s.value, ast.Constant)) or isinstance(s, ast.Pass) or _is_log(s):
            return
        if isinstance(s, ast.Continue):
            self.st = "continue"
            return
        if isinstance(s, ast.Raise):
            self.st = "raise"
            return
        e = self.effect(s, self.env)
        if e is not None:
            self.effects.append(e)
            return
        if isinstance(s, ast.If):
            if _mutates(s.test):
                raise Unsupported(f"result loop: test with a side effect `{_src(s.test)}`")
            self.block(s.body if self.cond(s.test) else s.orelse)
            return
        if isinstance(s, (ast.Assign, ast.AnnAssign)):
            tgt = s.targets[0] if isinstance(s, ast.Assign) else s.target
            if isinstance(tgt, ast.Name) and tgt.id not in self.tracked and (isinstance(s, ast.AnnAssign) or len(s.targets) == 1):
                if s.value is None:
                    return
                if _mutates(s.value):
                    raise Unsupported(f"result loop: assignment with a side effect `{_src(s)[:80]}`")
                if isinstance(s.value, ast.Constant) and isinstance(s.value.value, bool):
                    self.flags[tgt.id] = s.value.value
                else:
                    self.flags.pop(tgt.id, None)
                    self.env[tgt.id] = _Subst(self.env).visit(copy.deepcopy(s.value))
                return
        if isinstance(s, ast.Try):
            self.try_(s)
            return
        raise Unsupported(f"result loop: cannot interpret `{_src(s)[:80]}`")

    def try_(self, t: ast.Try) -> None:
        raised = False
        for s in t.body:
            if self.st != "run":
                break
            if isinstance(s, ast.Expr) and _canon(s.value, self.env) == f"{self.task}.result()":
                if self.outcome != "ok":
                    raised = True
                    break
                continue
            self.step(s)
        if raised:
            mro = MRO[self.outcome]
            for h in t.handlers:
                names = _handler_names(h)
                if names is None or any(n in mro for n in names):
                    self.block(h.body)
                    break
            else:
                self.st = "raise"
        elif self.st == "run":
            self.block(t.orelse)
        saved, self.st = self.st, "run"
        self.block(t.finalbody)
        if self.st == "run":
            self.st = saved


def _handling_table(loop_body: list[ast.stmt], sim: _CallLoop, failed: set[str], succeeded: set[str]) -> dict[str, str]:
    if not any(isinstance(x, ast.Try) for s in loop_body for x in ast.walk(s)):
        raise Unsupported("result loop without try")
    table = {}
    for outcome in ["ok"] + list(MRO):
        eff, st = sim.run(loop_body, outcome)
        if st == "raise":
            table[outcome] = "propagates"
        elif eff == failed:
            table[outcome] = "failed"
        elif eff == succeeded:
            table[outcome] = "succeeded"
        else:
            raise Unsupported(f"result loop: outcome {outcome} has the partial effect {sorted(eff)}")
    return table


def _nonempty_test(t: ast.expr, coll: str) -> bool | None:
    """`len(c) > 0`, `c`, `len(c) != 0`, `len(c) >= 1` -> True; `len(c) == 0`, `not c`, … -> False."""
    if isinstance(t, ast.UnaryOp) and isinstance(t.op, ast.Not):
        r = _nonempty_test(t.operand, coll)
        return None if r is None else not r
    src = _src(t).replace(" ", "")
    if src in (coll, f"len({coll})>0", f"len({coll})!=0", f"len({coll})>=1", f"0<len({coll})", f"bool({coll})", f"len({coll})"):
        return True
    if src in (f"len({coll})==0", f"len({coll})<1", f"0==len({coll})", f"len({coll})<=0"):
        return False
    return None


def _result_branches(fn: ast.AST, coll: str, where: str) -> None:
    """Check that `PartialFailure` is built exactly when `coll` is non-empty and `Success` exactly otherwise."""
    def has(nodes: list[ast.stmt], ctor: str) -> bool:
        return any(isinstance(c, ast.Call) and _src(c.func) == ctor for n in nodes for c in ast.walk(n))

    ifs = [n for n in ast.walk(fn) if isinstance(n, ast.If) and _nonempty_test(n.test, coll) is not None
           and (has(n.body, "PartialFailure") or has(n.orelse, "PartialFailure") or has(n.body, "Success") or has(n.orelse, "Success"))]
    if len(ifs) != 1:
        raise Unsupported(f"{where}: one branch on the emptiness of `{coll}` selecting the result type expected")
    n = ifs[0]
    nonempty, empty = (n.body, n.orelse) if _nonempty_test(n.test, coll) else (n.orelse, n.body)
    if has(empty, "PartialFailure") or has(nonempty, "Success"):
        raise Unsupported(f"{where}: result type does not follow the emptiness of `{coll}`")
    if has(nonempty, "PartialFailure") and has(empty, "Success"):
        return
    # one of the two is built after the `if`: the branch taken must leave the function
    taken = nonempty if has(nonempty, "PartialFailure") else empty
    if not (has(nonempty, "PartialFailure") or has(empty, "Success")) or not taken or not isinstance(taken[-1], ast.Return):
        raise Unsupported(f"{where}: cannot tell which result is sent")


# ----------------------------------------------------------------------------- expressions
class Expr:
    """Python expression -> Lean term over `Rat`, with names resolved through a role map."""

    def __init__(self, roles: dict[str, str], inline: dict[str, ast.expr] | None = None):
        self.roles = roles          # source text of a sub-expression -> Lean identifier
        self.inline = inline or {}  # local name -> defining expression

    def tr(self, n: ast.expr) -> str:
        s = _src(n)
        if s in self.roles:
            return self.roles[s]
        if isinstance(n, ast.Name):
            if n.id in self.inline:
                return self.tr(self.inline[n.id])
            raise Unsupported(f"unknown name `{n.id}` in expression")
        if isinstance(n, ast.Constant) and isinstance(n.value, (int, float)) and not isinstance(n.value, bool):
            fr = Fraction(repr(n.value))
            return f"(({fr.numerator} : Rat) / {fr.denominator})" if fr.denominator != 1 else f"({fr.numerator} : Rat)"
        if isinstance(n, ast.Call):
            f = _src(n.func)
            if f == "Power.zero" and not n.args:
                return "(0 : Rat)"
            if f in ("Power.from_watts", "float") and len(n.args) == 1 and not n.keywords:
                return self.tr(n.args[0])
            if f.endswith(".as_watts") and not n.args and isinstance(n.func, ast.Attribute):
                return self.tr(n.func.value)
            if f in ("max", "min") and len(n.args) >= 2 and not n.keywords:
                acc = self.tr(n.args[0])
                for a in n.args[1:]:
                    acc = f"(py{f.capitalize()} {acc} {self.tr(a)})"
                return acc
            raise Unsupported(f"call `{s}`")
        if isinstance(n, ast.UnaryOp) and isinstance(n.op, ast.USub):
            return f"(-{self.tr(n.operand)})"
        if isinstance(n, ast.BinOp):
            for k, v in {ast.Add: "+", ast.Sub: "-", ast.Mult: "*", ast.Div: "/"}.items():
                if isinstance(n.op, k):
                    return f"({self.tr(n.left)} {v} {self.tr(n.right)})"
        raise Unsupported(f"expression `{s}`")

    def prop(self, n: ast.expr) -> str:
        if isinstance(n, ast.BoolOp):
            j = " ∧ " if isinstance(n.op, ast.And) else " ∨ "
            return "(" + j.join(self.prop(v) for v in n.values) + ")"
        if isinstance(n, ast.UnaryOp) and isinstance(n.op, ast.Not):
            return f"(¬ {self.prop(n.operand)})"
        if isinstance(n, ast.Compare):
            ops = {ast.Lt: "<", ast.LtE: "≤", ast.Gt: ">", ast.GtE: "≥", ast.Eq: "=", ast.NotEq: "≠"}
            parts, left = [], n.left
            for op, right in zip(n.ops, n.comparators):
                if type(op) not in ops:
                    raise Unsupported(f"comparison `{_src(n)}`")
                parts.append(f"{self.tr(left)} {ops[type(op)]} {self.tr(right)}")
                left = right
            return "(" + " ∧ ".join(parts) + ")"
        if isinstance(n, ast.Call) and _src(n.func) == "is_close_to_zero" and len(n.args) == 1 and not n.keywords:
            x = self.tr(n.args[0])
            return f"(-closeToZeroTol ≤ {x} ∧ {x} ≤ closeToZeroTol)"
        raise Unsupported(f"condition `{_src(n)}`")


def _kwargs_of(fn: ast.AST, ctor: str) -> list[dict[str, ast.expr]]:
    out = []
    for n in ast.walk(fn):
        if isinstance(n, ast.Call) and _src(n.func) == ctor:
            out.append({k.arg: k.value for k in n.keywords if k.arg})
    return out


def _single_assignments(fn: ast.AST) -> dict[str, ast.expr]:
    """Locals assigned exactly once by a plain `name = expr` (never augmented / re-bound)."""
    count: dict[str, int] = {}
    value: dict[str, ast.expr] = {}
    for n in ast.walk(fn):
        if isinstance(n, ast.Assign):
            for t in n.targets:
                for nm in ast.walk(t):
                    if isinstance(nm, ast.Name):
                        count[nm.id] = count.get(nm.id, 0) + 1
                        if isinstance(t, ast.Name):
                            value[nm.id] = n.value
        elif isinstance(n, (ast.AugAssign, ast.AnnAssign)) and isinstance(n.target, ast.Name):
            count[n.target.id] = count.get(n.target.id, 0) + (2 if isinstance(n, ast.AugAssign) else 1)
            if isinstance(n, ast.AnnAssign) and n.value is not None:
                value[n.target.id] = n.value
    return {k: v for k, v in value.items() if count.get(k) == 1}


# ----------------------------------------------------------------------------- fallback on the translation
def _from_translation(fn: str, tree: ast.Module, first: Exception) -> dict[str, str]:
    """The shape-bound matchers below refused the code (`first`).  `results_loops.py` translates the same functions
    statement by statement into a decision tree; read the wanted expressions off its leaves.  If that fails as well
    the original refusal stands."""
    import sys
    here = str(pathlib.Path(__file__).resolve().parent)
    if here not in sys.path:
        sys.path.insert(0, here)
    try:
        import results_loops  # noqa: PLC0415  (imports this module under its plain name; only used as a library here)
        out = getattr(results_loops, fn)(tree)
    except Exception:  # pylint: disable=broad-except
        raise first from None
    if fn == "pv_loop_exprs":
        rev = results_loops._pv(tree)["pvSortReverse"]  # pylint: disable=protected-access
        out = dict(out, pvSortDescending=rev)
    return out


# ----------------------------------------------------------------------------- C15 battery
def _battery(tree: ast.Module) -> tuple[dict[str, str], dict[str, str]]:
    cls = _find_class(tree, "BatteryManager")
    # ---- _parse_result
    pr = _inlined(cls, "_parse_result")
    loops = [n for n in pr.body if isinstance(n, ast.For)]
    if len(loops) != 1 or not isinstance(loops[0].target, ast.Tuple) or len(loops[0].target.elts) != 2:
        raise Unsupported("_parse_result: `for inverter_id, aws in tasks.items()` expected")
    inv, aws = (_src(e) for e in loops[0].target.elts)
    tasks_param = pr.args.args[1].arg
    dist_param = pr.args.args[2].arg
    if _src(loops[0].iter) != f"{tasks_param}.items()":
        raise Unsupported("_parse_result: loop is not over tasks.items()")
    ret = [s for s in pr.body if isinstance(s, ast.Return)]
    if (len(ret) != 1 or not isinstance(ret[0].value, ast.Tuple) or len(ret[0].value.elts) != 2
            or not all(isinstance(e, ast.Name) for e in ret[0].value.elts)):
        raise Unsupported("_parse_result: must return (failed_power, failed_batteries)")
    power_var, set_var = (e.id for e in ret[0].value.elts)

    def effect(s: ast.stmt, env: dict) -> str | None:
        if isinstance(s, ast.AugAssign) and _src(s.target) == power_var:
            if isinstance(s.op, ast.Add) and _canon(s.value, env) == f"{dist_param}[{inv}]":
                return "power"
            raise Unsupported(f"_parse_result: `{_src(s)}`")
        bats = (f"self._inv_bats_map[{inv}]", f"set(self._inv_bats_map[{inv}])")
        if isinstance(s, ast.Expr) and isinstance(s.value, ast.Call) and _src(s.value.func).split(".")[0] == set_var:
            if _src(s.value.func) == f"{set_var}.update" and len(s.value.args) == 1 and _canon(s.value.args[0], env) in bats:
                return "set"
            raise Unsupported(f"_parse_result: `{_src(s)}`")
        if isinstance(s, ast.AugAssign) and _src(s.target) == set_var:
            if isinstance(s.op, ast.BitOr) and _canon(s.value, env) in bats:
                return "set"
            raise Unsupported(f"_parse_result: `{_src(s)}`")
        if any(isinstance(x, ast.Name) and isinstance(x.ctx, ast.Store) and x.id in (power_var, set_var) for x in ast.walk(s)) \
                and not isinstance(s, (ast.If, ast.Try)):
            raise Unsupported(f"_parse_result: `{_src(s)}`")
        return None

    handling = _handling_table(loops[0].body, _CallLoop(aws, effect, {power_var, set_var}), {"power", "set"}, set())
    inits = {(_src(s.targets[0]) if isinstance(s, ast.Assign) else _src(s.target)): _src(s.value)
             for s in pr.body if isinstance(s, (ast.Assign, ast.AnnAssign)) and s.value is not None}
    if inits.get(power_var) not in ("0.0", "0") or inits.get(set_var) != "set()":
        raise Unsupported("_parse_result: accumulators must start at 0.0 / set()")
    # ---- _distribute_power
    try:
        exprs = _battery_fields(cls)
    except Unsupported as first:
        exprs = _from_translation("battery_field_exprs", tree, first)
    return handling, exprs


def _battery_fields(cls: ast.ClassDef) -> dict[str, str]:
    dp = _inlined(cls, "_distribute_power")
    request, dist = dp.args.args[1].arg, dp.args.args[2].arg
    inline = _single_assignments(dp)
    failed_name = None
    for n in ast.walk(dp):
        if (isinstance(n, ast.Assign) and isinstance(n.targets[0], ast.Tuple) and isinstance(n.value, ast.Await)
                and "_set_distributed_power" in _src(n.value)):
            failed_name = _src(n.targets[0].elts[0])
            failed_set = _src(n.targets[0].elts[1])
    if failed_name is None:
        raise Unsupported("_distribute_power: `failed_power, failed_batteries = await self._set_distributed_power` expected")
    roles = {f"{request}.power.as_watts()": "requestPower", f"{request}.power": "requestPower",
             f"{dist}.remaining_power": "remaining", failed_name: "failed"}
    inline = {k: v for k, v in inline.items() if k not in (failed_name, failed_set)}
    ex = Expr(roles, inline)
    pf, ok_ = _kwargs_of(dp, "PartialFailure"), _kwargs_of(dp, "Success")
    if len(pf) != 1 or len(ok_) != 1:
        raise Unsupported("_distribute_power: one PartialFailure and one Success expected")
    _result_branches(dp, failed_set, "_distribute_power")
    exprs = {
        "batPfSucceeded": ex.tr(pf[0]["succeeded_power"]),
        "batPfFailed": ex.tr(pf[0]["failed_power"]),
        "batPfExcess": ex.tr(pf[0]["excess_power"]),
        "batOkSucceeded": ex.tr(ok_[0]["succeeded_power"]),
        "batOkExcess": ex.tr(ok_[0]["excess_power"]),
    }
    return exprs


# ----------------------------------------------------------------------------- C15 PV
def _pv(tree: ast.Module) -> tuple[dict[str, str], dict[str, str]]:
    cls = _find_class(tree, "PVManager")
    # target power: initialised in __init__, must not be assigned anywhere else (the model has no such state)
    targets = [n for n in ast.walk(cls) if isinstance(n, (ast.Assign, ast.AugAssign, ast.AnnAssign))
               and any(_src(t) == "self._target_power" for t in (n.targets if isinstance(n, ast.Assign) else [n.target]))]
    uses_target = any(_src(n) == "self._target_power" for n in ast.walk(_inlined(cls, "_set_api_power")))
    if uses_target and (len(targets) != 1 or not isinstance(targets[0], ast.Assign)):
        raise Unsupported("PVManager._target_power is assigned outside __init__: not modelled")
    target_init = Expr({}).tr(targets[0].value) if targets and isinstance(targets[0], ast.Assign) else "(0 : Rat)"
    # ---- _set_api_power
    sp = _inlined(cls, "_set_api_power")
    request, allocs, remaining = (a.arg for a in sp.args.args[1:4])
    pf, ok_ = _kwargs_of(sp, "PartialFailure"), _kwargs_of(sp, "Success")
    if len(pf) != 1 or len(ok_) != 1:
        raise Unsupported("_set_api_power: one PartialFailure and one Success expected")
    if not (isinstance(pf[0].get("failed_components"), ast.Name) and isinstance(pf[0].get("succeeded_components"), ast.Name)
            and _src(ok_[0].get("succeeded_components")) == _src(pf[0]["succeeded_components"])):
        raise Unsupported("_set_api_power: component sets in the results are not plain collected sets")
    failed_set, succ_set = pf[0]["failed_components"].id, pf[0]["succeeded_components"].id
    loops = [n for n in sp.body if isinstance(n, ast.For) and isinstance(n.target, ast.Tuple) and len(n.target.elts) == 2
             and any(isinstance(x, ast.Try) for s in n.body for x in ast.walk(s))]
    if len(loops) != 1:
        raise Unsupported("_set_api_power: one `for component_id, task in tasks.items()` loop with a try expected")
    cid, task = (_src(e) for e in loops[0].target.elts)
    accs = {_src(x.target) for x in ast.walk(loops[0]) if isinstance(x, ast.AugAssign)}
    if len(accs) != 1:
        raise Unsupported("_set_api_power: exactly one accumulated power expected in the result loop")
    failed_name = accs.pop()

    def effect(s: ast.stmt, env: dict) -> str | None:
        if isinstance(s, ast.AugAssign) and _src(s.target) == failed_name:
            if isinstance(s.op, ast.Add) and _canon(s.value, env) == f"{allocs}[{cid}]":
                return "failPower"
            raise Unsupported(f"_set_api_power: `{_src(s)}`")
        if isinstance(s, ast.Expr) and isinstance(s.value, ast.Call) and _src(s.value.func).split(".")[0] in (failed_set, succ_set):
            who = _src(s.value.func).split(".")[0]
            if _src(s.value.func) == f"{who}.add" and [_canon(a, env) for a in s.value.args] == [cid]:
                return "failSet" if who == failed_set else "succSet"
            raise Unsupported(f"_set_api_power: `{_src(s)}`")
        if any(isinstance(x, ast.Name) and isinstance(x.ctx, ast.Store) and x.id in (failed_name, failed_set, succ_set)
               for x in ast.walk(s)) and not isinstance(s, (ast.If, ast.Try)):
            raise Unsupported(f"_set_api_power: `{_src(s)}`")
        return None

    handling = _handling_table(loops[0].body, _CallLoop(task, effect, {failed_name, failed_set, succ_set}),
                               {"failPower", "failSet"}, {"succSet"})
    inits = {(_src(s.targets[0]) if isinstance(s, ast.Assign) else _src(s.target)): _src(s.value)
             for s in sp.body if isinstance(s, (ast.Assign, ast.AnnAssign)) and s.value is not None}
    if inits.get(failed_name) != "Power.zero()" or inits.get(failed_set) != "set()" or inits.get(succ_set) != "set()":
        raise Unsupported("_set_api_power: accumulators must start at Power.zero() / set()")
    # the tasks inspected are one `set_power(component_id, allocation)` per allocation
    tasks_name = _src(loops[0].iter).removesuffix(".items()")
    made = [n for n in ast.walk(sp) if isinstance(n, ast.Call) and _src(n.func) == "asyncio.create_task"]
    if (len(made) != 1 or not _src(loops[0].iter).endswith(".items()") or tasks_name == allocs
            or ".set_power(" not in _src(made[0].args[0]) or f"{allocs}.items()" not in _src(sp)):
        raise Unsupported("_set_api_power: one set_power task per allocation expected")
    try:
        exprs = _pv_fields(sp, request, remaining, failed_name, failed_set, succ_set, pf, ok_)
    except Unsupported as first:
        exprs = _from_translation("pv_field_exprs", tree, first)
    exprs["pvTargetInit"] = target_init
    try:
        exprs.update(_pv_loop(cls))
    except Unsupported as first:
        exprs.update(_from_translation("pv_loop_exprs", tree, first))
    return handling, exprs


def _pv_fields(sp: ast.AST, request: str, remaining: str, failed_name: str, failed_set: str, succ_set: str,
               pf: list, ok_: list) -> dict[str, str]:
    roles = {f"{request}.power": "requestPower", f"{request}.power.as_watts()": "requestPower", remaining: "remaining",
             failed_name: "failed", "self._target_power": "target"}
    inline = {k: v for k, v in _single_assignments(sp).items() if k not in (failed_name, failed_set, succ_set)}
    ex = Expr(roles, inline)
    _result_branches(sp, failed_set, "_set_api_power")
    exprs = {
        "pvPfSucceeded": ex.tr(pf[0]["succeeded_power"]),
        "pvPfFailed": ex.tr(pf[0]["failed_power"]),
        "pvPfExcess": ex.tr(pf[0]["excess_power"]),
        "pvOkSucceeded": ex.tr(ok_[0]["succeeded_power"]),
        "pvOkExcess": ex.tr(ok_[0]["excess_power"]),
    }
    return exprs


def _pv_loop(cls: ast.ClassDef) -> dict[str, str]:
    exprs: dict[str, str] = {}
    dp = _inlined(cls, "distribute_power")
    _desugar(dp)
    req = dp.args.args[1].arg
    rem_names = [s.targets[0].id for s in dp.body if isinstance(s, ast.Assign) and isinstance(s.targets[0], ast.Name)
                 and _src(s.value) == f"{req}.power"]
    if len(rem_names) != 1:
        raise Unsupported("distribute_power: `remaining_power = request.power` expected")
    rem = rem_names[0]
    loops = [n for n in dp.body if isinstance(n, ast.For) and isinstance(n.iter, ast.Call) and _src(n.iter.func) == "enumerate"]
    if len(loops) != 1 or not isinstance(loops[0].target, ast.Tuple):
        raise Unsupported("distribute_power: `for idx, inv_id in enumerate(working_components)` expected")
    idx, inv = (_src(e) for e in loops[0].target.elts)
    comps = _src(loops[0].iter.args[0])
    nums = [s.targets[0].id for s in dp.body if isinstance(s, ast.Assign) and isinstance(s.targets[0], ast.Name)
            and _src(s.value) == f"len({comps})"]
    if len(nums) != 1:
        raise Unsupported("distribute_power: `num_components = len(working_components)` expected")
    num = nums[0]
    sorts = [s.value for s in dp.body if isinstance(s, ast.Expr) and isinstance(s.value, ast.Call)
             and _src(s.value.func) == f"{comps}.sort"]
    if len(sorts) != 1:
        raise Unsupported("distribute_power: one working_components.sort(...) expected")
    kws = {k.arg: k.value for k in sorts[0].keywords}
    if "key" not in kws or "active_power_inclusion_lower_bound" not in _src(kws["key"]) or sorts[0].args:
        raise Unsupported("distribute_power: sort key is not the inclusion lower bound")
    rev = kws.get("reverse")
    descending = isinstance(rev, ast.Constant) and rev.value is True
    if rev is not None and not isinstance(rev, ast.Constant):
        raise Unsupported("distribute_power: sort reverse flag")
    lb = _strip(loops[0].body)
    # 1. the skip test
    if not isinstance(lb[0], ast.If) or _strip(lb[0].orelse):
        raise Unsupported("distribute_power: loop must start with the `remaining >= 0` test")
    sk = _strip(lb[0].body)
    if [_src(s) for s in sk] != [f"allocations[{inv}] = Power.zero()", "continue"]:
        raise Unsupported("distribute_power: skip branch must allocate zero and continue")
    ex0 = Expr({rem: "remaining", f"{rem}.as_watts()": "remaining"})
    skip = ex0.prop(lb[0].test)
    # 2. share, bound, allocation
    body = [s for s in lb[1:] if not (isinstance(s, ast.If) and "has_value" in _src(s.test))]
    assigns = {s.targets[0].id: s.value for s in body if isinstance(s, ast.Assign) and isinstance(s.targets[0], ast.Name)}
    bound_names = [k for k, v in assigns.items() if "active_power_inclusion_lower_bound" in _src(v)]
    if len(bound_names) != 1:
        raise Unsupported("distribute_power: the inverter's lower bound must be read exactly once")
    bound = bound_names[0]
    subs = [s for s in body if isinstance(s, ast.AugAssign) and isinstance(s.op, ast.Sub) and _src(s.target) == rem]
    stores = [s for s in body if isinstance(s, ast.Assign) and _src(s.targets[0]) == f"allocations[{inv}]"]
    if len(subs) != 1 or len(stores) != 1 or _src(subs[0].value) != _src(stores[0].value):
        raise Unsupported("distribute_power: `allocations[inv_id] = a; remaining_power -= a` expected")
    if body.index(stores[0]) > body.index(subs[0]) and isinstance(stores[0].value, ast.Name) is False:
        raise Unsupported("distribute_power: allocation stored after the remaining power changed")
    roles = {rem: "remaining", bound: "bound", f"float({num} - {idx})": "(((num - idx : Nat) : Rat))",
             f"({num} - {idx})": "(((num - idx : Nat) : Rat))", f"{num} - {idx}": "(((num - idx : Nat) : Rat))"}
    inl = {k: v for k, v in assigns.items() if k != bound}
    share_names = [k for k, v in inl.items() if _contains(v, ast.Div)]
    if len(share_names) != 1:
        raise Unsupported("distribute_power: one share expression (a division) expected")
    share = share_names[0]
    share_expr = Expr(roles).tr(inl[share])
    roles2 = dict(roles)
    roles2[share] = "share"
    alloc_expr = Expr(roles2, {k: v for k, v in inl.items() if k != share}).tr(stores[0].value)
    known = len([s for s in body if isinstance(s, (ast.Assign, ast.AugAssign))])
    if known != len(body) or len(body) != 2 + len(assigns) - (1 if f"allocations[{inv}]" in assigns else 0):
        raise Unsupported("distribute_power: unexpected statements in the allocation loop")
    exprs.update({"pvSkip": skip, "pvShare": share_expr, "pvAlloc": alloc_expr,
                  "pvSortDescending": "true" if descending else "false"})
    return exprs


# ----------------------------------------------------------------------------- C15 per-request instance state
def _self_root(n: ast.AST) -> str | None:
    """`self.X`, `self.X[k]`, `self.X.y.z` -> "X"; anything else -> None."""
    while isinstance(n, (ast.Subscript, ast.Attribute)):
        if isinstance(n, ast.Attribute) and isinstance(n.value, ast.Name) and n.value.id == "self":
            return n.attr
        n = n.value
    return None


def _request_state_writes(tree: ast.Module, cname: str) -> list[str]:
    """Instance attributes that the per-request code of a manager writes: every `self.X` that is assigned, deleted,
    item-assigned or mutated through a mutating method (`.update`, `.add`, `.pop`, … — not `.send` on a channel) in a
    method of the class reachable from `distribute_power` through `self.<method>` references.  The actor runs
    `distribute_power` of ONE manager concurrently for requests with different component sets, so such an attribute is
    shared between the requests in flight; an empty list means that a call can only see what `__init__` (or code
    outside the request path) stored."""
    cls = _find_class(tree, cname)
    meths = {n.name: n for n in cls.body if isinstance(n, (ast.FunctionDef, ast.AsyncFunctionDef))}
    seen: list[str] = []
    todo = ["distribute_power"]
    while todo:
        m = todo.pop()
        if m in seen or m not in meths:
            continue
        seen.append(m)
        for x in ast.walk(meths[m]):
            if isinstance(x, ast.Attribute) and isinstance(x.value, ast.Name) and x.value.id == "self" and x.attr in meths:
                todo.append(x.attr)
    if "distribute_power" not in seen:
        raise Unsupported(f"{cname}.distribute_power not found")
    writes: set[str] = set()
    for m in seen:
        for x in ast.walk(meths[m]):
            if isinstance(x, (ast.Attribute, ast.Subscript)) and isinstance(x.ctx, (ast.Store, ast.Del)):
                r = _self_root(x)
                if r is not None:
                    writes.add(r)
            elif isinstance(x, ast.Call) and isinstance(x.func, ast.Attribute) and x.func.attr in MUTATORS \
                    and x.func.attr != "send":
                r = _self_root(x.func.value)
                if r is not None:
                    writes.add(r)
            elif isinstance(x, ast.Call) and _src(x.func) in ("setattr", "delattr", "vars") and x.args \
                    and _src(x.args[0]) == "self":
                raise Unsupported(f"{cname}.{m}: `{_src(x)[:60]}` (instance state changed reflectively)")
            elif isinstance(x, ast.Attribute) and isinstance(x.value, ast.Name) and x.value.id == "self" and x.attr == "__dict__":
                raise Unsupported(f"{cname}.{m}: self.__dict__")
    return sorted(writes)


def _tolerance(tree: ast.Module) -> str:
    for n in tree.body:
        if isinstance(n, ast.FunctionDef) and n.name == "is_close_to_zero":
            d = n.args.defaults
            if len(d) == 1 and isinstance(d[0], ast.Constant) and isinstance(d[0].value, float):
                ret = [s for s in n.body if isinstance(s, ast.Return)]
                zero = [s for s in n.body if isinstance(s, (ast.Assign, ast.AnnAssign)) and _src(s.value) == "0.0"]
                if len(ret) == 1 and zero and _src(ret[0].value).replace(" ", "") in (
                        "math.isclose(a=value,b=zero,abs_tol=abs_tol)", "math.isclose(value,zero,abs_tol=abs_tol)"):
                    fr = Fraction(repr(d[0].value))
                    return f"(({fr.numerator} : Rat) / {fr.denominator})"
    raise Unsupported("is_close_to_zero: unexpected definition")


def _table(name: str, t: dict[str, str]) -> str:
    rows = "\n".join(f"  | .{k} => .{v}" for k, v in t.items())
    return f"def {name} : Outcome → Handling\n{rows}\n"


def generate(repo: pathlib.Path) -> str:
    trees = [_normalise_calls(ast.parse((repo / s).read_text())) for s in SOURCES]
    pol = _policy(trees[0])
    bat_h, bat_e = _battery(trees[1])
    pv_h, pv_e = _pv(trees[2])
    tol = _tolerance(trees[3])
    bat_w = "[" + ", ".join(f'"{w}"' for w in _request_state_writes(trees[1], "BatteryManager")) + "]"
    pv_w = "[" + ", ".join(f'"{w}"' for w in _request_state_writes(trees[2], "PVManager")) + "]"
    pol_fields = ", ".join(f"{k} := {v}" for k, v in pol.items())
    bat_args = "(requestPower remaining failed : Rat)"
    pv_args = "(requestPower remaining failed target : Rat)"
    out = f"""import Frequenz.Model.Prelude

set_option linter.unusedVariables false

namespace Extracted.Distributor

/-! ## C14: decision table of `_run` / `_handle_task_completion` / `_process_request` -/

inductive ArriveAct | storePending | start | drop
deriving DecidableEq, Repr

inductive CompleteAct | startPopped | startKept | clear | nothing
deriving DecidableEq, Repr

structure Policy where
  arriveBusy : ArriveAct          -- `_run`, a task of the group is registered
  arriveIdle : ArriveAct          -- `_run`, no task of the group is registered
  excPropagates : Bool            -- an exception of the finished task escapes `_handle_task_completion`
  completePending : CompleteAct   -- callback, a pending request exists
  completeNoPending : CompleteAct -- callback, no pending request, a task is registered
  startRegisters : Bool           -- `_process_request` stores the task in `_processing_tasks`
deriving DecidableEq, Repr

def policy : Policy := {{ {pol_fields} }}

/-! ## C15: which `set_power` outcomes count as failed -/

inductive Outcome | ok | outOfRange | clientError | exception | timeout
deriving DecidableEq, Repr

inductive Handling | succeeded | failed | propagates
deriving DecidableEq, Repr

{_table("batHandling", bat_h)}
{_table("pvHandling", pv_h)}
def closeToZeroTol : Rat := {tol}

/-! ## C15: result fields of `BatteryManager._distribute_power` -/

def batPfSucceeded {bat_args} : Rat := {bat_e["batPfSucceeded"]}
def batPfFailed {bat_args} : Rat := {bat_e["batPfFailed"]}
def batPfExcess {bat_args} : Rat := {bat_e["batPfExcess"]}
def batOkSucceeded {bat_args} : Rat := {bat_e["batOkSucceeded"]}
def batOkExcess {bat_args} : Rat := {bat_e["batOkExcess"]}

/-! ## C15: PV water-filling loop and result fields of `PVManager._set_api_power` -/

def pvSortDescending : Bool := {pv_e["pvSortDescending"]}
def pvSkip (remaining : Rat) : Prop := {pv_e["pvSkip"]}
instance (remaining : Rat) : Decidable (pvSkip remaining) := by unfold pvSkip; exact inferInstance
def pvShare (remaining : Rat) (num idx : Nat) : Rat := {pv_e["pvShare"]}
def pvAlloc (remaining bound share : Rat) : Rat := {pv_e["pvAlloc"]}
def pvTargetInit : Rat := {pv_e["pvTargetInit"]}
def pvPfSucceeded {pv_args} : Rat := {pv_e["pvPfSucceeded"]}
def pvPfFailed {pv_args} : Rat := {pv_e["pvPfFailed"]}
def pvPfExcess {pv_args} : Rat := {pv_e["pvPfExcess"]}
def pvOkSucceeded {pv_args} : Rat := {pv_e["pvOkSucceeded"]}
def pvOkExcess {pv_args} : Rat := {pv_e["pvOkExcess"]}

/-! ## C15: instance attributes written by the per-request code (shared by the requests in flight) -/

def batRequestStateWrites : List String := {bat_w}
def pvRequestStateWrites : List String := {pv_w}

end Extracted.Distributor
"""
    return out
