"""Power distributor (C14) and result accounting (C15) -> Lean tables and expressions.

Everything below is read from the Python AST of the anchored functions (never imported):

C14  `power_distributing.py`
  * `_run`                    -> what happens to an arriving request when a task for the same group is /
                                 is not registered (`store pending` | `start` | `drop`);
  * `_handle_task_completion` -> whether an exception of the finished task escapes the callback, what is
                                 done when a pending request exists / does not exist;
  * `_process_request`        -> whether the new task is registered in `_processing_tasks`.
C15  `_battery_manager.py`, `_pv_inverter_manager.py`, `_internal/_math.py`
  * which `set_power` outcomes count as failed in `_parse_result` / `_set_api_power` (from the `except`
    clauses, using the exception hierarchy of the client library written down in `MRO` below);
  * the expressions put into the `Success` / `PartialFailure` fields;
  * the PV water-filling loop: skip test, share, allocation, sort direction;
  * the `is_close_to_zero` tolerance.

Variables are identified by their *role* (parameter position, how they are initialised/updated), not by
their name, so renaming a local does not break the extraction.  Anything that does not have the expected
shape raises `Unsupported`; the checks of C14/C15 then go to the failing-input search.
"""
from __future__ import annotations

import ast
import pathlib
from fractions import Fraction

NAME = "Distributor"
PD = "src/frequenz/sdk/microgrid/_power_distributing/"
SOURCES = [
    PD + "power_distributing.py",
    PD + "_component_managers/_battery_manager.py",
    PD + "_component_managers/_pv_inverter_manager/_pv_inverter_manager.py",
    "src/frequenz/sdk/_internal/_math.py",
]


class Unsupported(Exception):
    pass


# ----------------------------------------------------------------------------- helpers
def _strip(body: list[ast.stmt]) -> list[ast.stmt]:
    """Drop docstrings, logging calls, `pass`, and `if` statements that only log."""
    out = []
    for s in body:
        if isinstance(s, ast.Expr) and isinstance(s.value, ast.Constant):
            continue
        if isinstance(s, ast.Pass):
            continue
        if _is_log(s):
            continue
        if isinstance(s, ast.If) and not _strip(s.body) and not _strip(s.orelse):
            continue
        out.append(s)
    return out


def _is_log(s: ast.stmt) -> bool:
    return (
        isinstance(s, ast.Expr)
        and isinstance(s.value, ast.Call)
        and isinstance(s.value.func, ast.Attribute)
        and isinstance(s.value.func.value, ast.Name)
        and s.value.func.value.id in ("_logger", "logging")
    )


def _find_class(tree: ast.Module, name: str) -> ast.ClassDef:
    for n in tree.body:
        if isinstance(n, ast.ClassDef) and n.name == name:
            return n
    raise Unsupported(f"class {name} not found")


def _find_method(cls: ast.ClassDef, name: str) -> ast.FunctionDef | ast.AsyncFunctionDef:
    for n in cls.body:
        if isinstance(n, (ast.FunctionDef, ast.AsyncFunctionDef)) and n.name == name:
            return n
    raise Unsupported(f"method {cls.name}.{name} not found")


def _src(n: ast.AST) -> str:
    return ast.unparse(n)


def _contains(node: ast.AST | list[ast.stmt], kind: type | tuple[type, ...]) -> bool:
    nodes = node if isinstance(node, list) else [node]
    return any(isinstance(x, kind) for n in nodes for x in ast.walk(n))


# ----------------------------------------------------------------------------- C14
def _membership(test: ast.expr, rid: str) -> tuple[str, bool]:
    """`rid in self._X` / `rid not in self._X` -> ("_X", positive?)."""
    neg = False
    if isinstance(test, ast.UnaryOp) and isinstance(test.op, ast.Not):
        neg, test = True, test.operand
    if (
        isinstance(test, ast.Compare)
        and len(test.ops) == 1
        and isinstance(test.ops[0], (ast.In, ast.NotIn))
        and isinstance(test.left, ast.Name)
        and test.left.id == rid
        and isinstance(test.comparators[0], ast.Attribute)
        and _src(test.comparators[0].value) == "self"
    ):
        pos = isinstance(test.ops[0], ast.In) != neg
        return test.comparators[0].attr, pos
    raise Unsupported(f"membership test expected, got `{_src(test)}`")


def _arrive_action(body: list[ast.stmt], rid: str, req: str) -> str:
    body = _strip(body)
    if not body:
        return "drop"
    if len(body) != 1:
        raise Unsupported("arrival branch with more than one effect")
    s = body[0]
    if isinstance(s, ast.Assign) and _src(s.targets[0]) == f"self._pending_requests[{rid}]" and _src(s.value) == req:
        return "storePending"
    if isinstance(s, ast.Expr) and _src(s.value) == f"self._process_request({rid}, {req})":
        return "start"
    raise Unsupported(f"arrival effect `{_src(s)}`")


def _complete_action(body: list[ast.stmt], rid: str) -> str:
    body = _strip(body)
    if not body:
        return "nothing"
    if len(body) != 1:
        raise Unsupported("completion branch with more than one effect")
    s = _src(body[0])
    if s == f"self._process_request({rid}, self._pending_requests.pop({rid}))":
        return "startPopped"
    if s in (f"self._process_request({rid}, self._pending_requests[{rid}])",
             f"self._process_request({rid}, self._pending_requests.get({rid}))"):
        return "startKept"
    if s in (f"del self._processing_tasks[{rid}]", f"self._processing_tasks.pop({rid})"):
        return "clear"
    raise Unsupported(f"completion effect `{s}`")


def _policy(tree: ast.Module) -> dict[str, str]:
    cls = _find_class(tree, "PowerDistributingActor")
    # ---- _run
    run = _find_method(cls, "_run")
    loops = [n for n in run.body if isinstance(n, ast.AsyncFor)]
    if len(loops) != 1 or _src(loops[0].iter) != "self._requests_receiver" or not isinstance(loops[0].target, ast.Name):
        raise Unsupported("_run: `async for <request> in self._requests_receiver` expected")
    req = loops[0].target.id
    body = _strip(loops[0].body)
    if len(body) != 2 or not isinstance(body[0], ast.Assign) or not isinstance(body[1], ast.If):
        raise Unsupported("_run: loop body is not `<id> = frozenset(...)`; `if ...`")
    if _src(body[0].value) != f"frozenset({req}.component_ids)" or not isinstance(body[0].targets[0], ast.Name):
        raise Unsupported("_run: request id is not frozenset(request.component_ids)")
    rid = body[0].targets[0].id
    attr, pos = _membership(body[1].test, rid)
    if attr != "_processing_tasks":
        raise Unsupported("_run: branch is not on membership in _processing_tasks")
    busy, idle = (body[1].body, body[1].orelse) if pos else (body[1].orelse, body[1].body)
    pol = {"arriveBusy": "." + _arrive_action(busy, rid, req), "arriveIdle": "." + _arrive_action(idle, rid, req)}
    # ---- _handle_task_completion
    htc = _find_method(cls, "_handle_task_completion")
    params = [a.arg for a in htc.args.args]
    if len(params) != 4:
        raise Unsupported("_handle_task_completion: (self, req_id, request, task) expected")
    rid2, task = params[1], params[3]
    hb = _strip(htc.body)
    if not hb:
        raise Unsupported("_handle_task_completion: empty")
    first = hb[0]
    if isinstance(first, ast.Try):
        if [_src(s) for s in _strip(first.body)] != [f"{task}.result()"] or first.finalbody or _strip(first.orelse):
            raise Unsupported("_handle_task_completion: try body is not `task.result()`")
        propagates = True
        for h in first.handlers:
            names = _handler_names(h)
            if names is None or "Exception" in names or "BaseException" in names:
                propagates = _contains(h.body, (ast.Raise, ast.Return))
                break
        rest = hb[1:]
    elif isinstance(first, ast.Expr) and _src(first.value) == f"{task}.result()":
        propagates, rest = True, hb[1:]
    else:
        # the result of the task is never inspected: an exception cannot escape
        propagates, rest = False, hb
    pol["excPropagates"] = "true" if propagates else "false"
    if len(rest) != 1 or not isinstance(rest[0], ast.If):
        raise Unsupported("_handle_task_completion: a single if/elif chain expected after the try")
    top = rest[0]
    attr, pos = _membership(top.test, rid2)
    if attr != "_pending_requests" or not pos:
        raise Unsupported("_handle_task_completion: first test is not `req_id in self._pending_requests`")
    pol["completePending"] = "." + _complete_action(top.body, rid2)
    other = _strip(top.orelse)
    if not other:
        pol["completeNoPending"] = ".nothing"
    elif len(other) == 1 and isinstance(other[0], ast.If):
        attr, pos = _membership(other[0].test, rid2)
        if attr != "_processing_tasks" or not pos or _strip(other[0].orelse):
            raise Unsupported("_handle_task_completion: elif is not `req_id in self._processing_tasks`")
        pol["completeNoPending"] = "." + _complete_action(other[0].body, rid2)
    else:
        pol["completeNoPending"] = "." + _complete_action(other, rid2)
    # ---- _process_request
    prq = _find_method(cls, "_process_request")
    pp = [a.arg for a in prq.args.args]
    if len(pp) != 3:
        raise Unsupported("_process_request: (self, req_id, request) expected")
    pb = _strip(prq.body)
    tasks = [s for s in pb if isinstance(s, ast.Assign) and isinstance(s.value, ast.Call)
             and _src(s.value.func) == "asyncio.create_task" and isinstance(s.targets[0], ast.Name)]
    if len(tasks) != 1 or _src(tasks[0].value.args[0]) != f"self._component_manager.distribute_power({pp[2]})":
        raise Unsupported("_process_request: create_task(self._component_manager.distribute_power(request)) expected")
    tv = tasks[0].targets[0].id
    cbs = [s for s in pb if isinstance(s, ast.Expr) and isinstance(s.value, ast.Call)
           and _src(s.value.func) == f"{tv}.add_done_callback"]
    if len(cbs) != 1:
        raise Unsupported("_process_request: one add_done_callback expected")
    cb = cbs[0].value.args[0]
    if not (isinstance(cb, ast.Lambda) and len(cb.args.args) == 1
            and _src(cb.body) == f"self._handle_task_completion({pp[1]}, {pp[2]}, {cb.args.args[0].arg})"):
        raise Unsupported("_process_request: callback is not self._handle_task_completion(req_id, request, t)")
    regs = [s for s in pb if isinstance(s, ast.Assign) and _src(s.targets[0]) == f"self._processing_tasks[{pp[1]}]"]
    if any(_src(s.value) != tv for s in regs) or len(regs) > 1:
        raise Unsupported("_process_request: unexpected registration")
    pol["startRegisters"] = "true" if regs else "false"
    if len(pb) != 2 + len(regs):
        raise Unsupported("_process_request: unexpected extra statements")
    return pol


# ----------------------------------------------------------------------------- exception handling tables
# outcome -> names under which an `except` clause catches it (client-library hierarchy, trusted)
MRO = {
    "outOfRange": ["OperationOutOfRange", "GrpcError", "ApiClientError", "Exception", "BaseException"],
    "clientError": ["ApiClientError", "Exception", "BaseException"],
    "exception": ["Exception", "BaseException"],
    "timeout": ["CancelledError", "BaseException"],
}


def _handler_names(h: ast.ExceptHandler) -> list[str] | None:
    if h.type is None:
        return None
    elts = h.type.elts if isinstance(h.type, ast.Tuple) else [h.type]
    return [_src(e).split(".")[-1] for e in elts]


def _handling(try_: ast.Try, classify_handler, ok_result: str) -> dict[str, str]:
    table = {"ok": ok_result}
    for outcome, mro in MRO.items():
        res = "propagates"
        for h in try_.handlers:
            names = _handler_names(h)
            if names is None or any(n in mro for n in names):
                res = classify_handler(h)
                break
        table[outcome] = res
    return table


# ----------------------------------------------------------------------------- expressions
class Expr:
    """Python expression -> Lean term over `Rat`, with names resolved through a role map."""

    def __init__(self, roles: dict[str, str], inline: dict[str, ast.expr] | None = None):
        self.roles = roles          # source text of a sub-expression -> Lean identifier
        self.inline = inline or {}  # local name -> defining expression

    def tr(self, n: ast.expr) -> str:
        s = _src(n)
        if s in self.roles:
            return self.roles[s]
        if isinstance(n, ast.Name):
            if n.id in self.inline:
                return self.tr(self.inline[n.id])
            raise Unsupported(f"unknown name `{n.id}` in expression")
        if isinstance(n, ast.Constant) and isinstance(n.value, (int, float)) and not isinstance(n.value, bool):
            fr = Fraction(repr(n.value))
            return f"(({fr.numerator} : Rat) / {fr.denominator})" if fr.denominator != 1 else f"({fr.numerator} : Rat)"
        if isinstance(n, ast.Call):
            f = _src(n.func)
            if f == "Power.zero" and not n.args:
                return "(0 : Rat)"
            if f in ("Power.from_watts", "float") and len(n.args) == 1 and not n.keywords:
                return self.tr(n.args[0])
            if f.endswith(".as_watts") and not n.args and isinstance(n.func, ast.Attribute):
                return self.tr(n.func.value)
            if f in ("max", "min") and len(n.args) >= 2 and not n.keywords:
                acc = self.tr(n.args[0])
                for a in n.args[1:]:
                    acc = f"(py{f.capitalize()} {acc} {self.tr(a)})"
                return acc
            raise Unsupported(f"call `{s}`")
        if isinstance(n, ast.UnaryOp) and isinstance(n.op, ast.USub):
            return f"(-{self.tr(n.operand)})"
        if isinstance(n, ast.BinOp):
            for k, v in {ast.Add: "+", ast.Sub: "-", ast.Mult: "*", ast.Div: "/"}.items():
                if isinstance(n.op, k):
                    return f"({self.tr(n.left)} {v} {self.tr(n.right)})"
        raise Unsupported(f"expression `{s}`")

    def prop(self, n: ast.expr) -> str:
        if isinstance(n, ast.BoolOp):
            j = " ∧ " if isinstance(n.op, ast.And) else " ∨ "
            return "(" + j.join(self.prop(v) for v in n.values) + ")"
        if isinstance(n, ast.UnaryOp) and isinstance(n.op, ast.Not):
            return f"(¬ {self.prop(n.operand)})"
        if isinstance(n, ast.Compare):
            ops = {ast.Lt: "<", ast.LtE: "≤", ast.Gt: ">", ast.GtE: "≥", ast.Eq: "=", ast.NotEq: "≠"}
            parts, left = [], n.left
            for op, right in zip(n.ops, n.comparators):
                if type(op) not in ops:
                    raise Unsupported(f"comparison `{_src(n)}`")
                parts.append(f"{self.tr(left)} {ops[type(op)]} {self.tr(right)}")
                left = right
            return "(" + " ∧ ".join(parts) + ")"
        if isinstance(n, ast.Call) and _src(n.func) == "is_close_to_zero" and len(n.args) == 1 and not n.keywords:
            x = self.tr(n.args[0])
            return f"(-closeToZeroTol ≤ {x} ∧ {x} ≤ closeToZeroTol)"
        raise Unsupported(f"condition `{_src(n)}`")


def _kwargs_of(fn: ast.AST, ctor: str) -> list[dict[str, ast.expr]]:
    out = []
    for n in ast.walk(fn):
        if isinstance(n, ast.Call) and _src(n.func) == ctor:
            out.append({k.arg: k.value for k in n.keywords if k.arg})
    return out


def _single_assignments(fn: ast.AST) -> dict[str, ast.expr]:
    """Locals assigned exactly once by a plain `name = expr` (never augmented / re-bound)."""
    count: dict[str, int] = {}
    value: dict[str, ast.expr] = {}
    for n in ast.walk(fn):
        if isinstance(n, ast.Assign):
            for t in n.targets:
                for nm in ast.walk(t):
                    if isinstance(nm, ast.Name):
                        count[nm.id] = count.get(nm.id, 0) + 1
                        if isinstance(t, ast.Name):
                            value[nm.id] = n.value
        elif isinstance(n, (ast.AugAssign, ast.AnnAssign)) and isinstance(n.target, ast.Name):
            count[n.target.id] = count.get(n.target.id, 0) + (2 if isinstance(n, ast.AugAssign) else 1)
            if isinstance(n, ast.AnnAssign) and n.value is not None:
                value[n.target.id] = n.value
    return {k: v for k, v in value.items() if count.get(k) == 1}


# ----------------------------------------------------------------------------- C15 battery
def _battery(tree: ast.Module) -> tuple[dict[str, str], dict[str, str]]:
    cls = _find_class(tree, "BatteryManager")
    # ---- _parse_result
    pr = _find_method(cls, "_parse_result")
    loops = [n for n in pr.body if isinstance(n, ast.For)]
    if len(loops) != 1 or not isinstance(loops[0].target, ast.Tuple) or len(loops[0].target.elts) != 2:
        raise Unsupported("_parse_result: `for inverter_id, aws in tasks.items()` expected")
    inv, aws = (_src(e) for e in loops[0].target.elts)
    tasks_param = pr.args.args[1].arg
    dist_param = pr.args.args[2].arg
    if _src(loops[0].iter) != f"{tasks_param}.items()":
        raise Unsupported("_parse_result: loop is not over tasks.items()")
    lb = _strip(loops[0].body)
    tries = [s for s in lb if isinstance(s, ast.Try)]
    if len(tries) != 1:
        raise Unsupported("_parse_result: one try statement expected")
    try_ = tries[0]
    # the flag: a local set to True before the try
    flags = [s.targets[0].id for s in lb if isinstance(s, ast.Assign) and isinstance(s.targets[0], ast.Name)
             and isinstance(s.value, ast.Constant) and s.value.value is True and lb.index(s) < lb.index(try_)]
    if len(flags) != 1:
        raise Unsupported("_parse_result: `failed = True` before the try expected")
    flag = flags[0]
    tb = [_src(s) for s in _strip(try_.body)]
    if not tb or tb[0] != f"{aws}.result()" or _strip(try_.orelse) or try_.finalbody:
        raise Unsupported("_parse_result: try body does not start with `aws.result()`")

    def sets_flag_false(stmts: list[ast.stmt]) -> bool:
        return any(isinstance(x, ast.Assign) and _src(x.targets[0]) == flag and _src(x.value) == "False"
                   for s in stmts for x in ast.walk(s))

    def classify(h: ast.ExceptHandler) -> str:
        if _contains(h.body, (ast.Raise, ast.Return, ast.Continue, ast.Break)):
            return "propagates" if _contains(h.body, ast.Raise) else "succeeded"
        return "succeeded" if sets_flag_false(h.body) else "failed"

    ok = "succeeded" if sets_flag_false(try_.body) else "failed"
    handling = _handling(try_, classify, ok)
    after = lb[lb.index(try_) + 1:]
    if len(after) != 1 or not isinstance(after[0], ast.If) or _src(after[0].test) != flag or _strip(after[0].orelse):
        raise Unsupported("_parse_result: `if failed:` block expected after the try")
    bats = [s.targets[0].id for s in lb if isinstance(s, ast.Assign) and isinstance(s.targets[0], ast.Name)
            and _src(s.value) == f"self._inv_bats_map[{inv}]"]
    if len(bats) != 1:
        raise Unsupported("_parse_result: `battery_ids = self._inv_bats_map[inverter_id]` expected")
    eff = [_src(s) for s in _strip(after[0].body)]
    power_acc = [s for s in _strip(after[0].body) if isinstance(s, ast.AugAssign) and isinstance(s.op, ast.Add)
                 and _src(s.value) == f"{dist_param}[{inv}]"]
    set_acc = [e for e in eff if e.endswith(f".update({bats[0]})")]
    if len(eff) != 2 or len(power_acc) != 1 or len(set_acc) != 1:
        raise Unsupported("_parse_result: the failed block must add distribution[inverter_id] and the batteries")
    ret = [s for s in pr.body if isinstance(s, ast.Return)]
    if len(ret) != 1 or _src(ret[0].value) != f"({_src(power_acc[0].target)}, {set_acc[0].split('.')[0]})":
        raise Unsupported("_parse_result: must return (failed_power, failed_batteries)")
    # ---- _distribute_power
    dp = _find_method(cls, "_distribute_power")
    request, dist = dp.args.args[1].arg, dp.args.args[2].arg
    inline = _single_assignments(dp)
    failed_name = None
    for n in ast.walk(dp):
        if (isinstance(n, ast.Assign) and isinstance(n.targets[0], ast.Tuple) and isinstance(n.value, ast.Await)
                and "_set_distributed_power" in _src(n.value)):
            failed_name = _src(n.targets[0].elts[0])
            failed_set = _src(n.targets[0].elts[1])
    if failed_name is None:
        raise Unsupported("_distribute_power: `failed_power, failed_batteries = await self._set_distributed_power` expected")
    roles = {f"{request}.power.as_watts()": "requestPower", f"{request}.power": "requestPower",
             f"{dist}.remaining_power": "remaining", failed_name: "failed"}
    inline = {k: v for k, v in inline.items() if k not in (failed_name, failed_set)}
    ex = Expr(roles, inline)
    pf, ok_ = _kwargs_of(dp, "PartialFailure"), _kwargs_of(dp, "Success")
    if len(pf) != 1 or len(ok_) != 1:
        raise Unsupported("_distribute_power: one PartialFailure and one Success expected")
    tests = [n for n in ast.walk(dp) if isinstance(n, ast.If) and _contains(n.body, ast.Call)
             and any(_src(c.func) == "PartialFailure" for c in ast.walk(n) if isinstance(c, ast.Call))]
    if len(tests) != 1 or _src(tests[0].test) not in (f"len({failed_set}) > 0", failed_set, f"len({failed_set}) != 0"):
        raise Unsupported("_distribute_power: `if len(failed_batteries) > 0` expected")
    exprs = {
        "batPfSucceeded": ex.tr(pf[0]["succeeded_power"]),
        "batPfFailed": ex.tr(pf[0]["failed_power"]),
        "batPfExcess": ex.tr(pf[0]["excess_power"]),
        "batOkSucceeded": ex.tr(ok_[0]["succeeded_power"]),
        "batOkExcess": ex.tr(ok_[0]["excess_power"]),
    }
    return handling, exprs


# ----------------------------------------------------------------------------- C15 PV
def _pv(tree: ast.Module) -> tuple[dict[str, str], dict[str, str]]:
    cls = _find_class(tree, "PVManager")
    # target power: initialised in __init__, must not be assigned anywhere else (the model has no such state)
    targets = [n for n in ast.walk(cls) if isinstance(n, (ast.Assign, ast.AugAssign, ast.AnnAssign))
               and any(_src(t) == "self._target_power" for t in (n.targets if isinstance(n, ast.Assign) else [n.target]))]
    uses_target = any(_src(n) == "self._target_power" for n in ast.walk(_find_method(cls, "_set_api_power")))
    if uses_target and (len(targets) != 1 or not isinstance(targets[0], ast.Assign)):
        raise Unsupported("PVManager._target_power is assigned outside __init__: not modelled")
    target_init = Expr({}).tr(targets[0].value) if targets and isinstance(targets[0], ast.Assign) else "(0 : Rat)"
    # ---- _set_api_power
    sp = _find_method(cls, "_set_api_power")
    request, allocs, remaining = (a.arg for a in sp.args.args[1:4])
    loops = [n for n in sp.body if isinstance(n, ast.For) and _src(n.iter) != f"{allocs}.items()"]
    loops = [n for n in loops if any(isinstance(x, ast.Try) for x in n.body)]
    if len(loops) != 1 or not isinstance(loops[0].target, ast.Tuple):
        raise Unsupported("_set_api_power: `for component_id, task in tasks.items()` with a try expected")
    cid, task = (_src(e) for e in loops[0].target.elts)
    lb = _strip(loops[0].body)
    if not isinstance(lb[0], ast.Try) or [_src(s) for s in _strip(lb[0].body)] != [f"{task}.result()"] or lb[0].finalbody:
        raise Unsupported("_set_api_power: try body is not `task.result()`")
    try_ = lb[0]
    after = lb[1:]
    fail_power = [s for s in after if isinstance(s, ast.AugAssign) and isinstance(s.op, ast.Add)
                  and _src(s.value) == f"{allocs}[{cid}]"]
    fail_set = [s for s in after if isinstance(s, ast.Expr) and _src(s.value).endswith(f".add({cid})")]
    if len(after) != 2 or len(fail_power) != 1 or len(fail_set) != 1:
        raise Unsupported("_set_api_power: after the try, the component and allocations[component_id] must be added to the failed set/power")
    failed_name = _src(fail_power[0].target)
    failed_set = _src(fail_set[0].value).split(".")[0]

    def leaves(stmts: list[ast.stmt]) -> str:
        """What a block after `task.result()` does with the component."""
        stmts = _strip(stmts)
        if _contains(stmts, ast.Raise):
            return "propagates"
        adds = [_src(s.value).split(".")[0] for s in stmts if isinstance(s, ast.Expr) and _src(s.value).endswith(f".add({cid})")]
        if stmts and isinstance(stmts[-1], ast.Continue):
            if len(stmts) == 2 and adds and adds[0] != failed_set:
                return "succeeded"
            raise Unsupported("_set_api_power: unexpected block ending in continue")
        if stmts:
            raise Unsupported("_set_api_power: unexpected statements in handler")
        return "failed"

    handling = _handling(try_, lambda h: leaves(h.body), leaves(try_.orelse))
    succ_sets = [_src(s.value).split(".")[0] for s in _strip(try_.orelse) if isinstance(s, ast.Expr)]
    succ_set = succ_sets[0] if succ_sets else None
    roles = {f"{request}.power": "requestPower", f"{request}.power.as_watts()": "requestPower", remaining: "remaining",
             failed_name: "failed", "self._target_power": "target"}
    inline = {k: v for k, v in _single_assignments(sp).items() if k not in (failed_name, failed_set, succ_set)}
    ex = Expr(roles, inline)
    pf, ok_ = _kwargs_of(sp, "PartialFailure"), _kwargs_of(sp, "Success")
    if len(pf) != 1 or len(ok_) != 1:
        raise Unsupported("_set_api_power: one PartialFailure and one Success expected")
    if (_src(pf[0]["failed_components"]) != failed_set or _src(pf[0]["succeeded_components"]) != succ_set
            or _src(ok_[0]["succeeded_components"]) != succ_set):
        raise Unsupported("_set_api_power: component sets in the results are not the collected ones")
    ifs = [n for n in sp.body if isinstance(n, ast.If) and any(_src(c.func) == "PartialFailure" for c in ast.walk(n) if isinstance(c, ast.Call))]
    if len(ifs) != 1 or _src(ifs[0].test) not in (failed_set, f"len({failed_set}) > 0") or not isinstance(_strip(ifs[0].body)[-1], ast.Return):
        raise Unsupported("_set_api_power: `if failed_components: send(PartialFailure); return` expected")
    exprs = {
        "pvTargetInit": target_init,
        "pvPfSucceeded": ex.tr(pf[0]["succeeded_power"]),
        "pvPfFailed": ex.tr(pf[0]["failed_power"]),
        "pvPfExcess": ex.tr(pf[0]["excess_power"]),
        "pvOkSucceeded": ex.tr(ok_[0]["succeeded_power"]),
        "pvOkExcess": ex.tr(ok_[0]["excess_power"]),
    }
    # ---- distribute_power: the water-filling loop
    dp = _find_method(cls, "distribute_power")
    req = dp.args.args[1].arg
    rem_names = [s.targets[0].id for s in dp.body if isinstance(s, ast.Assign) and isinstance(s.targets[0], ast.Name)
                 and _src(s.value) == f"{req}.power"]
    if len(rem_names) != 1:
        raise Unsupported("distribute_power: `remaining_power = request.power` expected")
    rem = rem_names[0]
    loops = [n for n in dp.body if isinstance(n, ast.For) and isinstance(n.iter, ast.Call) and _src(n.iter.func) == "enumerate"]
    if len(loops) != 1 or not isinstance(loops[0].target, ast.Tuple):
        raise Unsupported("distribute_power: `for idx, inv_id in enumerate(working_components)` expected")
    idx, inv = (_src(e) for e in loops[0].target.elts)
    comps = _src(loops[0].iter.args[0])
    nums = [s.targets[0].id for s in dp.body if isinstance(s, ast.Assign) and isinstance(s.targets[0], ast.Name)
            and _src(s.value) == f"len({comps})"]
    if len(nums) != 1:
        raise Unsupported("distribute_power: `num_components = len(working_components)` expected")
    num = nums[0]
    sorts = [s.value for s in dp.body if isinstance(s, ast.Expr) and isinstance(s.value, ast.Call)
             and _src(s.value.func) == f"{comps}.sort"]
    if len(sorts) != 1:
        raise Unsupported("distribute_power: one working_components.sort(...) expected")
    kws = {k.arg: k.value for k in sorts[0].keywords}
    if "key" not in kws or "active_power_inclusion_lower_bound" not in _src(kws["key"]) or sorts[0].args:
        raise Unsupported("distribute_power: sort key is not the inclusion lower bound")
    rev = kws.get("reverse")
    descending = isinstance(rev, ast.Constant) and rev.value is True
    if rev is not None and not isinstance(rev, ast.Constant):
        raise Unsupported("distribute_power: sort reverse flag")
    lb = _strip(loops[0].body)
    # 1. the skip test
    if not isinstance(lb[0], ast.If) or _strip(lb[0].orelse):
        raise Unsupported("distribute_power: loop must start with the `remaining >= 0` test")
    sk = _strip(lb[0].body)
    if [_src(s) for s in sk] != [f"allocations[{inv}] = Power.zero()", "continue"]:
        raise Unsupported("distribute_power: skip branch must allocate zero and continue")
    ex0 = Expr({rem: "remaining", f"{rem}.as_watts()": "remaining"})
    skip = ex0.prop(lb[0].test)
    # 2. share, bound, allocation
    body = [s for s in lb[1:] if not (isinstance(s, ast.If) and "has_value" in _src(s.test))]
    assigns = {s.targets[0].id: s.value for s in body if isinstance(s, ast.Assign) and isinstance(s.targets[0], ast.Name)}
    bound_names = [k for k, v in assigns.items() if "active_power_inclusion_lower_bound" in _src(v)]
    if len(bound_names) != 1:
        raise Unsupported("distribute_power: the inverter's lower bound must be read exactly once")
    bound = bound_names[0]
    subs = [s for s in body if isinstance(s, ast.AugAssign) and isinstance(s.op, ast.Sub) and _src(s.target) == rem]
    stores = [s for s in body if isinstance(s, ast.Assign) and _src(s.targets[0]) == f"allocations[{inv}]"]
    if len(subs) != 1 or len(stores) != 1 or _src(subs[0].value) != _src(stores[0].value):
        raise Unsupported("distribute_power: `allocations[inv_id] = a; remaining_power -= a` expected")
    if body.index(stores[0]) > body.index(subs[0]) and isinstance(stores[0].value, ast.Name) is False:
        raise Unsupported("distribute_power: allocation stored after the remaining power changed")
    roles = {rem: "remaining", bound: "bound", f"float({num} - {idx})": "(((num - idx : Nat) : Rat))",
             f"({num} - {idx})": "(((num - idx : Nat) : Rat))", f"{num} - {idx}": "(((num - idx : Nat) : Rat))"}
    inl = {k: v for k, v in assigns.items() if k != bound}
    share_names = [k for k, v in inl.items() if _contains(v, ast.Div)]
    if len(share_names) != 1:
        raise Unsupported("distribute_power: one share expression (a division) expected")
    share = share_names[0]
    share_expr = Expr(roles).tr(inl[share])
    roles2 = dict(roles)
    roles2[share] = "share"
    alloc_expr = Expr(roles2, {k: v for k, v in inl.items() if k != share}).tr(stores[0].value)
    known = len([s for s in body if isinstance(s, (ast.Assign, ast.AugAssign))])
    if known != len(body) or len(body) != 2 + len(assigns) - (1 if f"allocations[{inv}]" in assigns else 0):
        raise Unsupported("distribute_power: unexpected statements in the allocation loop")
    exprs.update({"pvSkip": skip, "pvShare": share_expr, "pvAlloc": alloc_expr,
                  "pvSortDescending": "true" if descending else "false"})
    return handling, exprs


def _tolerance(tree: ast.Module) -> str:
    for n in tree.body:
        if isinstance(n, ast.FunctionDef) and n.name == "is_close_to_zero":
            d = n.args.defaults
            if len(d) == 1 and isinstance(d[0], ast.Constant) and isinstance(d[0].value, float):
                ret = [s for s in n.body if isinstance(s, ast.Return)]
                zero = [s for s in n.body if isinstance(s, (ast.Assign, ast.AnnAssign)) and _src(s.value) == "0.0"]
                if len(ret) == 1 and zero and _src(ret[0].value).replace(" ", "") in (
                        "math.isclose(a=value,b=zero,abs_tol=abs_tol)", "math.isclose(value,zero,abs_tol=abs_tol)"):
                    fr = Fraction(repr(d[0].value))
                    return f"(({fr.numerator} : Rat) / {fr.denominator})"
    raise Unsupported("is_close_to_zero: unexpected definition")


def _table(name: str, t: dict[str, str]) -> str:
    rows = "\n".join(f"  | .{k} => .{v}" for k, v in t.items())
    return f"def {name} : Outcome → Handling\n{rows}\n"


def generate(repo: pathlib.Path) -> str:
    trees = [ast.parse((repo / s).read_text()) for s in SOURCES]
    pol = _policy(trees[0])
    bat_h, bat_e = _battery(trees[1])
    pv_h, pv_e = _pv(trees[2])
    tol = _tolerance(trees[3])
    pol_fields = ", ".join(f"{k} := {v}" for k, v in pol.items())
    bat_args = "(requestPower remaining failed : Rat)"
    pv_args = "(requestPower remaining failed target : Rat)"
    out = f"""import Frequenz.Model.Prelude

set_option linter.unusedVariables false

namespace Extracted.Distributor

/-! ## C14: decision table of `_run` / `_handle_task_completion` / `_process_request` -/

inductive ArriveAct | storePending | start | drop
deriving DecidableEq, Repr

inductive CompleteAct | startPopped | startKept | clear | nothing
deriving DecidableEq, Repr

structure Policy where
  arriveBusy : ArriveAct          -- `_run`, a task of the group is registered
  arriveIdle : ArriveAct          -- `_run`, no task of the group is registered
  excPropagates : Bool            -- an exception of the finished task escapes `_handle_task_completion`
  completePending : CompleteAct   -- callback, a pending request exists
  completeNoPending : CompleteAct -- callback, no pending request, a task is registered
  startRegisters : Bool           -- `_process_request` stores the task in `_processing_tasks`
deriving DecidableEq, Repr

def policy : Policy := {{ {pol_fields} }}

/-! ## C15: which `set_power` outcomes count as failed -/

inductive Outcome | ok | outOfRange | clientError | exception | timeout
deriving DecidableEq, Repr

inductive Handling | succeeded | failed | propagates
deriving DecidableEq, Repr

{_table("batHandling", bat_h)}
{_table("pvHandling", pv_h)}
def closeToZeroTol : Rat := {tol}

/-! ## C15: result fields of `BatteryManager._distribute_power` -/

def batPfSucceeded {bat_args} : Rat := {bat_e["batPfSucceeded"]}
def batPfFailed {bat_args} : Rat := {bat_e["batPfFailed"]}
def batPfExcess {bat_args} : Rat := {bat_e["batPfExcess"]}
def batOkSucceeded {bat_args} : Rat := {bat_e["batOkSucceeded"]}
def batOkExcess {bat_args} : Rat := {bat_e["batOkExcess"]}

/-! ## C15: PV water-filling loop and result fields of `PVManager._set_api_power` -/

def pvSortDescending : Bool := {pv_e["pvSortDescending"]}
def pvSkip (remaining : Rat) : Prop := {pv_e["pvSkip"]}
instance (remaining : Rat) : Decidable (pvSkip remaining) := by unfold pvSkip; exact inferInstance
def pvShare (remaining : Rat) (num idx : Nat) : Rat := {pv_e["pvShare"]}
def pvAlloc (remaining bound share : Rat) : Rat := {pv_e["pvAlloc"]}
def pvTargetInit : Rat := {pv_e["pvTargetInit"]}
def pvPfSucceeded {pv_args} : Rat := {pv_e["pvPfSucceeded"]}
def pvPfFailed {pv_args} : Rat := {pv_e["pvPfFailed"]}
def pvPfExcess {pv_args} : Rat := {pv_e["pvPfExcess"]}
def pvOkSucceeded {pv_args} : Rat := {pv_e["pvOkSucceeded"]}
def pvOkExcess {pv_args} : Rat := {pv_e["pvOkExcess"]}

end Extracted.Distributor
"""
    return out
