"""formula_engine -> Lean: the shunting-yard precedence table, the tokenizer's character classes and a
*translation of the body of every arithmetic step's `apply`* (`_formula_steps.py`) into the float
primitives of `Frequenz/Model/FormulaSteps.lean`.

What is checked while extracting (anything unexpected raises, which sends C05/C13 to the failing-input search):
  * `_operator_precedence` is a dict literal {str: int} over exactly the ten known operator strings;
  * each step class's `__repr__` returns the literal the table is indexed with (`repr(prev_step)`);
  * `FormulaBuilder.push_oper` ends with the if/elif chain  oper == "<s>" -> self._build_stack.append(<Class>())
    and that chain maps every operator string to the class with that repr (")" pushes nothing);
  * each arithmetic `apply` has the shape  pop [pop]; <assignments / if-else>; append(expr)  and uses only
    + - * / unary-, max/min, math.isnan, math.nan / float("nan"), comparisons, and/or/not, numeric literals.

  * `FormulaEvaluator.apply` ends with  res = eval_stack.pop(); if <test on res>: return Sample(ts, None);
    return Sample(ts, create(res));  the test (isnan / isinf / isfinite, and/or/not) becomes
    `Extracted.Formula.resultIsNone : FloatClass -> Bool`.

The translated bodies are `Extracted.Formula.bin<Class> : V -> V -> M V` (first argument = the value pushed
first = `val1`) and `Extracted.Formula.un<Class> : V -> M V`.
"""
from __future__ import annotations

import ast
import pathlib

NAME = "Formula"
SOURCES = [
    "src/frequenz/sdk/timeseries/formula_engine/_formula_engine.py",
    "src/frequenz/sdk/timeseries/formula_engine/_formula_steps.py",
    "src/frequenz/sdk/timeseries/formula_engine/_tokenizer.py",
    "src/frequenz/sdk/timeseries/formula_engine/_formula_evaluator.py",
]

OPS = {"max": "max", "min": "min", "consumption": "cons", "production": "prod", "(": "lp",
       "/": "div", "*": "mul", "-": "sub", "+": "add", ")": "rp"}
ORDER = ["max", "min", "consumption", "production", "(", "/", "*", "-", "+", ")"]
STEP_CLASS = {"+": "Adder", "-": "Subtractor", "*": "Multiplier", "/": "Divider", "(": "OpenParen",
              "max": "Maximizer", "min": "Minimizer", "consumption": "Consumption", "production": "Production"}
BINARY = ["Adder", "Subtractor", "Multiplier", "Divider", "Maximizer", "Minimizer"]
UNARY = ["Consumption", "Production"]


class Unsupported(Exception):
    pass


def _find(tree: ast.AST, kind, name: str):
    for n in ast.walk(tree):
        if isinstance(n, kind) and getattr(n, "name", None) == name:
            return n
    raise Unsupported(f"{kind.__name__} {name} not found")


def _method(cls: ast.ClassDef, name: str) -> ast.FunctionDef:
    for n in cls.body:
        if isinstance(n, ast.FunctionDef) and n.name == name:
            return n
    raise Unsupported(f"{cls.name}.{name} not found")


def _strip_doc(body: list[ast.stmt]) -> list[ast.stmt]:
    if body and isinstance(body[0], ast.Expr) and isinstance(body[0].value, ast.Constant) and isinstance(body[0].value.value, str):
        return body[1:]
    return body


# ---------------------------------------------------------------- precedence table, repr, push_oper
def precedence(engine_src: str) -> dict[str, int]:
    tree = ast.parse(engine_src)
    for n in tree.body:
        if isinstance(n, ast.Assign) and len(n.targets) == 1 and isinstance(n.targets[0], ast.Name) \
                and n.targets[0].id == "_operator_precedence":
            if not isinstance(n.value, ast.Dict):
                raise Unsupported("_operator_precedence is not a dict literal")
            tab = {}
            for k, v in zip(n.value.keys, n.value.values):
                if not (isinstance(k, ast.Constant) and isinstance(k.value, str)):
                    raise Unsupported("non-literal key in _operator_precedence")
                if not (isinstance(v, ast.Constant) and isinstance(v.value, int) and not isinstance(v.value, bool) and v.value >= 0):
                    raise Unsupported("non-literal / negative value in _operator_precedence")
                tab[k.value] = v.value
            if set(tab) != set(OPS):
                raise Unsupported(f"_operator_precedence keys changed: {sorted(tab)}")
            return tab
    raise Unsupported("_operator_precedence not found")


def check_reprs(steps_tree: ast.AST) -> None:
    for s, cname in STEP_CLASS.items():
        fn = _method(_find(steps_tree, ast.ClassDef, cname), "__repr__")
        body = _strip_doc(fn.body)
        if not (len(body) == 1 and isinstance(body[0], ast.Return) and isinstance(body[0].value, ast.Constant)
                and body[0].value.value == s):
            raise Unsupported(f"{cname}.__repr__ does not return {s!r}")


def check_push_oper(engine_tree: ast.AST) -> None:
    """`push_oper` = `if <guard>: <pop loop>` followed by the dispatch chain oper -> step class.  The chain is
    checked here; the pop loop is modelled by hand (`Shunting.popLoop`) and tied by the correspondence check."""
    fn = _method(_find(engine_tree, ast.ClassDef, "FormulaBuilder"), "push_oper")
    body = _strip_doc(fn.body)
    if len(body) != 2 or not all(isinstance(b, ast.If) for b in body):
        raise Unsupported("push_oper: expected `if <guard>: <loop>` followed by the dispatch chain")
    chain = body[1]
    seen = {}
    node: ast.stmt | None = chain
    while node is not None:
        if not isinstance(node, ast.If):
            raise Unsupported("push_oper: dispatch chain has a trailing else")
        t = node.test
        if not (isinstance(t, ast.Compare) and isinstance(t.left, ast.Name) and t.left.id == "oper" and len(t.ops) == 1
                and isinstance(t.ops[0], ast.Eq) and isinstance(t.comparators[0], ast.Constant)):
            raise Unsupported("push_oper: dispatch test is not `oper == <literal>`")
        s = t.comparators[0].value
        if len(node.body) != 1 or ast.unparse(node.body[0]) != f"self._build_stack.append({STEP_CLASS.get(s, '?')}())":
            raise Unsupported(f"push_oper: operator {s!r} does not push {STEP_CLASS.get(s)}")
        seen[s] = True
        if len(node.orelse) == 0:
            node = None
        elif len(node.orelse) == 1:
            node = node.orelse[0]
        else:
            raise Unsupported("push_oper: dispatch chain")
    if set(seen) != set(STEP_CLASS):
        raise Unsupported(f"push_oper: dispatch chain covers {sorted(seen)}")


# ---------------------------------------------------------------- step bodies
_CMP = {ast.Eq: "PyF.eq", ast.NotEq: "PyF.ne", ast.Lt: "PyF.lt", ast.LtE: "PyF.le", ast.Gt: "PyF.gt", ast.GtE: "PyF.ge"}


class Body:
    """Translates one `apply` body into the lines of a Lean `do` block of type `M V`."""

    def __init__(self) -> None:
        self.tmp = 0

    def fresh(self) -> str:
        self.tmp += 1
        return f"t{self.tmp}"

    # expressions: returns (binding lines, pure Lean term of type V)
    def expr(self, n: ast.expr, ind: str) -> tuple[list[str], str]:
        if isinstance(n, ast.Name):
            return [], n.id
        if isinstance(n, ast.Constant) and isinstance(n.value, (int, float)) and not isinstance(n.value, bool):
            v = n.value
            if v != v:
                return [], "PyF.nan"
            if v in (float("inf"), float("-inf")):
                raise Unsupported("infinite literal")
            from fractions import Fraction
            fr = Fraction(v)
            q = f"({fr.numerator} : Rat)" if fr.denominator == 1 else f"(({fr.numerator} : Rat) / {fr.denominator})"
            return [], f"(PyF.lit {q})"
        if isinstance(n, ast.Attribute) and ast.unparse(n) == "math.nan":
            return [], "PyF.nan"
        if isinstance(n, ast.Call) and ast.unparse(n) in ("float('nan')", 'float("nan")', "float('NaN')"):
            return [], "PyF.nan"
        if isinstance(n, ast.UnaryOp) and isinstance(n.op, ast.USub):
            ls, t = self.expr(n.operand, ind)
            return ls, f"(PyF.neg {t})"
        if isinstance(n, ast.BinOp):
            l1, a = self.expr(n.left, ind)
            l2, b = self.expr(n.right, ind)
            if isinstance(n.op, ast.Add):
                return l1 + l2, f"(PyF.add {a} {b})"
            if isinstance(n.op, ast.Sub):
                return l1 + l2, f"(PyF.sub {a} {b})"
            if isinstance(n.op, ast.Mult):
                return l1 + l2, f"(PyF.mul {a} {b})"
            if isinstance(n.op, ast.Div):
                t = self.fresh()
                return l1 + l2 + [f"{ind}let {t} ← PyF.div {a} {b}"], t
            raise Unsupported(f"operator {type(n.op).__name__}")
        if isinstance(n, ast.Call) and isinstance(n.func, ast.Name) and n.func.id in ("max", "min") \
                and len(n.args) == 2 and not n.keywords:
            l1, a = self.expr(n.args[0], ind)
            l2, b = self.expr(n.args[1], ind)
            return l1 + l2, f"(PyF.{n.func.id} {a} {b})"
        if isinstance(n, ast.IfExp):
            c = self.cond(n.test)
            t = self.fresh()
            la, a = self.expr(n.body, ind + "    ")
            lb, b = self.expr(n.orelse, ind + "    ")
            lines = [f"{ind}let {t} ← (if {c} then (do"] + la + [f"{ind}    pure {a})", f"{ind}  else (do"] + lb + \
                    [f"{ind}    pure {b}))"]
            return lines, t
        raise Unsupported(f"expression {ast.unparse(n)!r}")

    # conditions: pure Bool terms (no division inside a test)
    def cond(self, n: ast.expr) -> str:
        if isinstance(n, ast.BoolOp):
            op = " || " if isinstance(n.op, ast.Or) else " && "
            return "(" + op.join(self.cond(v) for v in n.values) + ")"
        if isinstance(n, ast.UnaryOp) and isinstance(n.op, ast.Not):
            return f"(!{self.cond(n.operand)})"
        if isinstance(n, ast.Call) and ast.unparse(n.func) in ("math.isnan", "isnan") and len(n.args) == 1:
            return f"(PyF.isnan {self.pure(n.args[0])})"
        if isinstance(n, ast.Compare) and len(n.ops) == 1 and type(n.ops[0]) in _CMP:
            return f"({_CMP[type(n.ops[0])]} {self.pure(n.left)} {self.pure(n.comparators[0])})"
        raise Unsupported(f"condition {ast.unparse(n)!r}")

    def pure(self, n: ast.expr) -> str:
        ls, t = self.expr(n, "")
        if ls:
            raise Unsupported(f"effectful expression inside a test: {ast.unparse(n)!r}")
        return t

    @staticmethod
    def assigned(stmts: list[ast.stmt]) -> list[str]:
        out: list[str] = []
        for s in stmts:
            if isinstance(s, ast.Assign) and len(s.targets) == 1 and isinstance(s.targets[0], ast.Name):
                if s.targets[0].id not in out:
                    out.append(s.targets[0].id)
            elif isinstance(s, ast.If):
                for v in Body.assigned(s.body) + Body.assigned(s.orelse):
                    if v not in out:
                        out.append(v)
            else:
                raise Unsupported(f"statement {ast.unparse(s)!r}")
        return out

    def stmts(self, stmts: list[ast.stmt], defined: set[str], ind: str) -> list[str]:
        lines: list[str] = []
        for s in stmts:
            if isinstance(s, ast.Assign):
                if not (len(s.targets) == 1 and isinstance(s.targets[0], ast.Name)):
                    raise Unsupported(f"assignment {ast.unparse(s)!r}")
                ls, t = self.expr(s.value, ind)
                lines += ls + [f"{ind}let {s.targets[0].id} := {t}"]
                defined.add(s.targets[0].id)
            elif isinstance(s, ast.If):
                c = self.cond(s.test)
                vs = self.assigned(s.body + s.orelse)
                d1, d2 = set(defined), set(defined)
                b1 = self.stmts(s.body, d1, ind + "    ")
                b2 = self.stmts(s.orelse, d2, ind + "    ")
                for v in vs:
                    if v not in d1 or v not in d2:
                        raise Unsupported(f"`{v}` is not assigned on every path")
                tup = vs[0] if len(vs) == 1 else "(" + ", ".join(vs) + ")"
                lines += [f"{ind}let {tup} ← (if {c} then (do"] + b1 + [f"{ind}    pure {tup})", f"{ind}  else (do"] + b2 + \
                         [f"{ind}    pure {tup}))"]
                defined |= set(vs)
            else:
                raise Unsupported(f"statement {ast.unparse(s)!r}")
        return lines


def translate_step(steps_tree: ast.AST, cname: str, arity: int) -> str:
    fn = _method(_find(steps_tree, ast.ClassDef, cname), "apply")
    args = [a.arg for a in fn.args.args]
    if len(args) != 2 or args[0] != "self":
        raise Unsupported(f"{cname}.apply signature")
    stack = args[1]
    body = _strip_doc(fn.body)
    pops: list[str] = []
    i = 0
    while i < len(body) and isinstance(body[i], ast.Assign) and ast.unparse(body[i].value) == f"{stack}.pop()":
        tgt = body[i].targets
        if len(tgt) != 1 or not isinstance(tgt[0], ast.Name):
            raise Unsupported(f"{cname}.apply: pop target")
        pops.append(tgt[0].id)
        i += 1
    if len(pops) != arity or len(set(pops)) != arity:
        raise Unsupported(f"{cname}.apply pops {len(pops)} values, expected {arity}")
    last = body[-1]
    if not (isinstance(last, ast.Expr) and isinstance(last.value, ast.Call)
            and ast.unparse(last.value.func) == f"{stack}.append" and len(last.value.args) == 1):
        raise Unsupported(f"{cname}.apply does not end with {stack}.append(...)")
    middle = body[i:-1]
    for n in middle:
        for sub in ast.walk(n):
            if isinstance(sub, ast.Name) and sub.id == stack:
                raise Unsupported(f"{cname}.apply touches the stack between pop and append")
    tr = Body()
    defined = set(pops)
    lines = tr.stmts(middle, defined, "  ")
    for sub in ast.walk(last.value.args[0]):
        if isinstance(sub, ast.Name) and sub.id not in defined and sub.id not in ("max", "min", "math", "float"):
            raise Unsupported(f"{cname}.apply: `{sub.id}` undefined")
    ls, t = tr.expr(last.value.args[0], "  ")
    lines += ls + [f"  pure {t}"]
    # the value popped first was pushed last: it is the SECOND operand
    params = list(reversed(pops))
    kind = "bin" if arity == 2 else "un"
    head = f"def Extracted.Formula.{kind}{cname} " + " ".join(f"({p} : V)" for p in params) + " : M V := do"
    return head + "\n" + "\n".join(lines) + "\n"


# ---------------------------------------------------------------- tokenizer character classes
def tokenizer_chars(tok_src: str) -> tuple[list[str], list[str], str]:
    tree = ast.parse(tok_src)
    fn = _method(_find(tree, ast.ClassDef, "Tokenizer"), "__next__")
    tuples = []
    hashes = []
    for n in ast.walk(fn):
        if isinstance(n, ast.Compare) and isinstance(n.left, ast.Name) and n.left.id == "char" and len(n.ops) == 1:
            c = n.comparators[0]
            if isinstance(n.ops[0], ast.In) and isinstance(c, ast.Tuple) and all(isinstance(e, ast.Constant) for e in c.elts):
                tuples.append([e.value for e in c.elts])
            elif isinstance(n.ops[0], ast.Eq) and isinstance(c, ast.Constant):
                hashes.append(c.value)
    if len(tuples) != 2 or len(hashes) != 1:
        raise Unsupported("Tokenizer.__next__: expected two `char in (...)` tests and one `char == ...` test")
    ws, ops = tuples
    if set(ops) != {"+", "-", "*", "/", "(", ")"}:
        raise Unsupported(f"Tokenizer operator characters changed: {ops}")
    for ch in ws + ops + hashes:
        if not (isinstance(ch, str) and len(ch) == 1):
            raise Unsupported("Tokenizer.__next__: non single-character literal")
    return ws, ops, hashes[0]


# ---------------------------------------------------------------- the final test of FormulaEvaluator.apply
def final_test(evaluator_src: str) -> str:
    tree = ast.parse(evaluator_src)
    fn = None
    for n in ast.walk(_find(tree, ast.ClassDef, "FormulaEvaluator")):
        if isinstance(n, ast.AsyncFunctionDef) and n.name == "apply":
            fn = n
    if fn is None:
        raise Unsupported("FormulaEvaluator.apply not found")
    body = _strip_doc(fn.body)
    if len(body) < 3:
        raise Unsupported("FormulaEvaluator.apply: too short")
    pop, test, ret = body[-3], body[-2], body[-1]
    if not (isinstance(pop, ast.Assign) and len(pop.targets) == 1 and isinstance(pop.targets[0], ast.Name)
            and ast.unparse(pop.value) == "eval_stack.pop()"):
        raise Unsupported("FormulaEvaluator.apply: expected `res = eval_stack.pop()` before the final test")
    res = pop.targets[0].id
    if not (isinstance(test, ast.If) and not test.orelse and len(test.body) == 1 and isinstance(test.body[0], ast.Return)
            and ast.unparse(test.body[0].value) == "Sample(metric_ts, None)"):
        raise Unsupported("FormulaEvaluator.apply: expected `if <test>: return Sample(metric_ts, None)`")
    if not (isinstance(ret, ast.Return) and ast.unparse(ret.value) == f"Sample(metric_ts, self._create_method({res}))"):
        raise Unsupported("FormulaEvaluator.apply: expected `return Sample(metric_ts, self._create_method(res))`")

    def cond(n: ast.expr) -> str:
        if isinstance(n, ast.BoolOp):
            op = " || " if isinstance(n.op, ast.Or) else " && "
            return "(" + op.join(cond(v) for v in n.values) + ")"
        if isinstance(n, ast.UnaryOp) and isinstance(n.op, ast.Not):
            return f"(!{cond(n.operand)})"
        if isinstance(n, ast.Call) and len(n.args) == 1 and isinstance(n.args[0], ast.Name) and n.args[0].id == res \
                and not n.keywords:
            f = ast.unparse(n.func)
            prim = {"isnan": "isnanC", "math.isnan": "isnanC", "isinf": "isinfC", "math.isinf": "isinfC",
                    "isfinite": "isfiniteC", "math.isfinite": "isfiniteC"}.get(f)
            if prim:
                return f"(PyF.{prim} res)"
        raise Unsupported(f"final test {ast.unparse(n)!r}")

    return ("/-- The final test of `FormulaEvaluator.apply`: is the result replaced by `None`? -/\n"
            f"def Extracted.Formula.resultIsNone (res : FloatClass) : Bool := {cond(test.test)}\n")


def _lean_char(c: str) -> str:
    return f"(Char.ofNat {ord(c)})"


def generate(repo: pathlib.Path) -> str:
    engine_src = (repo / SOURCES[0]).read_text()
    steps_src = (repo / SOURCES[1]).read_text()
    tok_src = (repo / SOURCES[2]).read_text()
    engine_tree = ast.parse(engine_src)
    steps_tree = ast.parse(steps_src)

    tab = precedence(engine_src)
    check_reprs(steps_tree)
    check_push_oper(engine_tree)
    ws, ops, hash_ = tokenizer_chars(tok_src)

    out = ["import Frequenz.Model.FormulaSteps", "", "open Formula", ""]
    out.append("/-- `_operator_precedence` (indexed by `repr` of the step on the build stack). -/")
    out.append("def Extracted.Formula.prec : Op → Nat")
    for s in ORDER:
        out.append(f"  | .{OPS[s]} => {tab[s]}")
    out.append("")
    out.append("/-- Tokenizer: characters skipped as whitespace, operator characters, the metric marker. -/")
    out.append("def Extracted.Formula.wsChars : List Char := [" + ", ".join(_lean_char(c) for c in ws) + "]")
    out.append("def Extracted.Formula.operChars : List Char := [" + ", ".join(_lean_char(c) for c in ops) + "]")
    out.append(f"def Extracted.Formula.metricChar : Char := {_lean_char(hash_)}")
    out.append("")
    for c in BINARY:
        out.append(translate_step(steps_tree, c, 2))
    for c in UNARY:
        out.append(translate_step(steps_tree, c, 1))
    out.append(final_test((repo / SOURCES[3]).read_text()))
    return "\n".join(out)
