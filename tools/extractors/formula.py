"""formula_engine -> Lean: the shunting-yard precedence table, the tokenizer's character classes and a
*translation of the body of every arithmetic step's `apply`* (`_formula_steps.py`) into the float
primitives of `Frequenz/Model/FormulaSteps.lean`.

What is checked while extracting (anything unexpected raises, which sends C05/C13 to the failing-input search):
  * `_operator_precedence` is a dict literal {str: int} over exactly the ten known operator strings;
  * each step class's `__repr__` returns the literal the table is indexed with (`repr(prev_step)`);
  * `FormulaBuilder.push_oper` contains a dispatch (if/elif chain or `match`, any order) operator literal ->
    self._build_stack.append(<Class>()) that maps every operator string to the class with that repr (")" pushes nothing);
  * each arithmetic `apply` has the shape  pop [pop]; <assignments / if-else>; append(expr)  and uses only
    + - * / unary-, max/min, math.isnan, math.nan / float("nan"), comparisons, and/or/not, numeric literals.

  * `FormulaEvaluator.apply`: after the last `<x> = <stack>.pop()` the sample's value is either create(<x>) or None;
    the decision (isnan / isinf / isfinite, and/or/not, if/else in either polarity, early return, local, conditional
    expression — recovered by symbolic execution) becomes `Extracted.Formula.resultIsNone : FloatClass -> Bool`.

The translated bodies are `Extracted.Formula.bin<Class> : V -> V -> M V` (first argument = the value pushed
first = `val1`) and `Extracted.Formula.un<Class> : V -> M V`.
"""
from __future__ import annotations

import ast
import pathlib
import re

NAME = "Formula"
SOURCES = [
    "src/frequenz/sdk/timeseries/formula_engine/_formula_engine.py",
    "src/frequenz/sdk/timeseries/formula_engine/_formula_steps.py",
    "src/frequenz/sdk/timeseries/formula_engine/_tokenizer.py",
    "src/frequenz/sdk/timeseries/formula_engine/_formula_evaluator.py",
]

OPS = {"max": "max", "min": "min", "consumption": "cons", "production": "prod", "(": "lp",
       "/": "div", "*": "mul", "-": "sub", "+": "add", ")": "rp"}
ORDER = ["max", "min", "consumption", "production", "(", "/", "*", "-", "+", ")"]
STEP_CLASS = {"+": "Adder", "-": "Subtractor", "*": "Multiplier", "/": "Divider", "(": "OpenParen",
              "max": "Maximizer", "min": "Minimizer", "consumption": "Consumption", "production": "Production"}
BINARY = ["Adder", "Subtractor", "Multiplier", "Divider", "Maximizer", "Minimizer"]
UNARY = ["Consumption", "Production"]


class Unsupported(Exception):
    pass


def _find(tree: ast.AST, kind, name: str):
    for n in ast.walk(tree):
        if isinstance(n, kind) and getattr(n, "name", None) == name:
            return n
    raise Unsupported(f"{kind.__name__} {name} not found")


def _method(cls: ast.ClassDef, name: str) -> ast.FunctionDef:
    for n in cls.body:
        if isinstance(n, ast.FunctionDef) and n.name == name:
            return n
    raise Unsupported(f"{cls.name}.{name} not found")


def _strip_doc(body: list[ast.stmt]) -> list[ast.stmt]:
    if body and isinstance(body[0], ast.Expr) and isinstance(body[0].value, ast.Constant) and isinstance(body[0].value.value, str):
        return body[1:]
    return body


# ---------------------------------------------------------------- precedence table, repr, push_oper
def precedence(engine_src: str) -> dict[str, int]:
    tree = ast.parse(engine_src)
    for n in tree.body:
        if isinstance(n, ast.Assign) and len(n.targets) == 1 and isinstance(n.targets[0], ast.Name) \
                and n.targets[0].id == "_operator_precedence":
            if not isinstance(n.value, ast.Dict):
                raise Unsupported("_operator_precedence is not a dict literal")
            tab = {}
            for k, v in zip(n.value.keys, n.value.values):
                if not (isinstance(k, ast.Constant) and isinstance(k.value, str)):
                    raise Unsupported("non-literal key in _operator_precedence")
                if not (isinstance(v, ast.Constant) and isinstance(v.value, int) and not isinstance(v.value, bool) and v.value >= 0):
                    raise Unsupported("non-literal / negative value in _operator_precedence")
                tab[k.value] = v.value
            if set(tab) != set(OPS):
                raise Unsupported(f"_operator_precedence keys changed: {sorted(tab)}")
            return tab
    raise Unsupported("_operator_precedence not found")


def check_reprs(steps_tree: ast.AST) -> None:
    for s, cname in STEP_CLASS.items():
        fn = _method(_find(steps_tree, ast.ClassDef, cname), "__repr__")
        body = _strip_doc(fn.body)
        if not (len(body) == 1 and isinstance(body[0], ast.Return) and isinstance(body[0].value, ast.Constant)
                and body[0].value.value == s):
            raise Unsupported(f"{cname}.__repr__ does not return {s!r}")


def _dispatch_pairs(stmt: ast.stmt, param: str) -> dict[str, str] | None:
    """oper literal -> source of the single statement executed for it, for an if/elif chain `param == "<s>"` or a
    `match param: case "<s>":` (cases in any order); None when `stmt` is not such a dispatch."""
    pairs: dict[str, str] = {}
    if isinstance(stmt, ast.Match):
        if not (isinstance(stmt.subject, ast.Name) and stmt.subject.id == param):
            return None
        for case in stmt.cases:
            pats = case.pattern.patterns if isinstance(case.pattern, ast.MatchOr) else [case.pattern]
            if case.guard is not None or len(case.body) != 1:
                return None
            for pat in pats:
                if not (isinstance(pat, ast.MatchValue) and isinstance(pat.value, ast.Constant)):
                    return None
                pairs[pat.value.value] = ast.unparse(case.body[0])
        return pairs
    node: ast.stmt | None = stmt
    while node is not None:
        if not isinstance(node, ast.If):
            return None
        t = node.test
        lits: list = []
        if isinstance(t, ast.Compare) and isinstance(t.left, ast.Name) and t.left.id == param and len(t.ops) == 1:
            c = t.comparators[0]
            if isinstance(t.ops[0], ast.Eq) and isinstance(c, ast.Constant):
                lits = [c.value]
            elif isinstance(t.ops[0], ast.In) and isinstance(c, (ast.Tuple, ast.List, ast.Set)) \
                    and all(isinstance(e, ast.Constant) for e in c.elts):
                lits = [e.value for e in c.elts]
        if not lits or len(node.body) != 1:
            return None
        for lit in lits:
            pairs[lit] = ast.unparse(node.body[0])
        if len(node.orelse) == 0:
            node = None
        elif len(node.orelse) == 1:
            node = node.orelse[0]
        else:
            return None
    return pairs


def check_push_oper(engine_tree: ast.AST) -> None:
    """`push_oper` = (pop loop, modelled by hand as `Shunting.popLoop` and tied by the correspondence check) followed
    by the dispatch operator string -> step class.  The dispatch is located by its role (the statement that tests the
    operator parameter against literals and pushes step objects), whatever its order or syntax (if/elif, match)."""
    fn = _method(_find(engine_tree, ast.ClassDef, "FormulaBuilder"), "push_oper")
    if len(fn.args.args) != 2:
        raise Unsupported("push_oper signature")
    param = fn.args.args[1].arg
    found = None
    for st in _strip_doc(fn.body):
        pairs = _dispatch_pairs(st, param)
        if pairs and any(re.fullmatch(r"self\._build_stack\.append\(\w+\(\)\)", v) for v in pairs.values()):
            if found is not None:
                raise Unsupported("push_oper: two dispatch statements")
            found = pairs
    if found is None:
        raise Unsupported("push_oper: no dispatch `operator literal -> self._build_stack.append(<Step>())` found")
    for lit, src in found.items():
        if src != f"self._build_stack.append({STEP_CLASS.get(lit, '?')}())":
            raise Unsupported(f"push_oper: operator {lit!r} does not push {STEP_CLASS.get(lit)} ({src})")
    if set(found) != set(STEP_CLASS):
        raise Unsupported(f"push_oper: dispatch covers {sorted(found)}")


# ---------------------------------------------------------------- step bodies
_CMP = {ast.Eq: "PyF.eq", ast.NotEq: "PyF.ne", ast.Lt: "PyF.lt", ast.LtE: "PyF.le", ast.Gt: "PyF.gt", ast.GtE: "PyF.ge"}


class Body:
    """Translates one `apply` body into the lines of a Lean `do` block of type `M V`."""

    def __init__(self) -> None:
        self.tmp = 0

    def fresh(self) -> str:
        self.tmp += 1
        return f"t{self.tmp}"

    # expressions: returns (binding lines, pure Lean term of type V)
    def expr(self, n: ast.expr, ind: str) -> tuple[list[str], str]:
        if isinstance(n, ast.Name):
            return [], n.id
        if isinstance(n, ast.Constant) and isinstance(n.value, (int, float)) and not isinstance(n.value, bool):
            v = n.value
            if v != v:
                return [], "PyF.nan"
            if v in (float("inf"), float("-inf")):
                raise Unsupported("infinite literal")
            from fractions import Fraction
            fr = Fraction(v)
            q = f"({fr.numerator} : Rat)" if fr.denominator == 1 else f"(({fr.numerator} : Rat) / {fr.denominator})"
            return [], f"(PyF.lit {q})"
        if isinstance(n, ast.Attribute) and ast.unparse(n) == "math.nan":
            return [], "PyF.nan"
        if isinstance(n, ast.Call) and ast.unparse(n) in ("float('nan')", 'float("nan")', "float('NaN')"):
            return [], "PyF.nan"
        if isinstance(n, ast.UnaryOp) and isinstance(n.op, ast.USub):
            ls, t = self.expr(n.operand, ind)
            return ls, f"(PyF.neg {t})"
        if isinstance(n, ast.BinOp):
            l1, a = self.expr(n.left, ind)
            l2, b = self.expr(n.right, ind)
            if isinstance(n.op, ast.Add):
                return l1 + l2, f"(PyF.add {a} {b})"
            if isinstance(n.op, ast.Sub):
                return l1 + l2, f"(PyF.sub {a} {b})"
            if isinstance(n.op, ast.Mult):
                return l1 + l2, f"(PyF.mul {a} {b})"
            if isinstance(n.op, ast.Div):
                t = self.fresh()
                return l1 + l2 + [f"{ind}let {t} ← PyF.div {a} {b}"], t
            raise Unsupported(f"operator {type(n.op).__name__}")
        if isinstance(n, ast.Call) and isinstance(n.func, ast.Name) and n.func.id in ("max", "min") \
                and len(n.args) == 2 and not n.keywords:
            l1, a = self.expr(n.args[0], ind)
            l2, b = self.expr(n.args[1], ind)
            return l1 + l2, f"(PyF.{n.func.id} {a} {b})"
        if isinstance(n, ast.IfExp):
            c = self.cond(n.test)
            t = self.fresh()
            la, a = self.expr(n.body, ind + "    ")
            lb, b = self.expr(n.orelse, ind + "    ")
            lines = [f"{ind}let {t} ← (if {c} then (do"] + la + [f"{ind}    pure {a})", f"{ind}  else (do"] + lb + \
                    [f"{ind}    pure {b}))"]
            return lines, t
        raise Unsupported(f"expression {ast.unparse(n)!r}")

    # conditions: pure Bool terms (no division inside a test)
    def cond(self, n: ast.expr) -> str:
        if isinstance(n, ast.BoolOp):
            op = " || " if isinstance(n.op, ast.Or) else " && "
            return "(" + op.join(self.cond(v) for v in n.values) + ")"
        if isinstance(n, ast.UnaryOp) and isinstance(n.op, ast.Not):
            return f"(!{self.cond(n.operand)})"
        if isinstance(n, ast.Call) and ast.unparse(n.func) in ("math.isnan", "isnan") and len(n.args) == 1:
            return f"(PyF.isnan {self.pure(n.args[0])})"
        if isinstance(n, ast.Compare) and len(n.ops) == 1 and type(n.ops[0]) in _CMP:
            return f"({_CMP[type(n.ops[0])]} {self.pure(n.left)} {self.pure(n.comparators[0])})"
        raise Unsupported(f"condition {ast.unparse(n)!r}")

    def pure(self, n: ast.expr) -> str:
        ls, t = self.expr(n, "")
        if ls:
            raise Unsupported(f"effectful expression inside a test: {ast.unparse(n)!r}")
        return t

    @staticmethod
    def assigned(stmts: list[ast.stmt]) -> list[str]:
        out: list[str] = []
        for s in stmts:
            if isinstance(s, ast.Assign) and len(s.targets) == 1 and isinstance(s.targets[0], ast.Name):
                if s.targets[0].id not in out:
                    out.append(s.targets[0].id)
            elif isinstance(s, ast.If):
                for v in Body.assigned(s.body) + Body.assigned(s.orelse):
                    if v not in out:
                        out.append(v)
            else:
                raise Unsupported(f"statement {ast.unparse(s)!r}")
        return out

    def stmts(self, stmts: list[ast.stmt], defined: set[str], ind: str) -> list[str]:
        lines: list[str] = []
        for s in stmts:
            if isinstance(s, ast.Assign):
                if not (len(s.targets) == 1 and isinstance(s.targets[0], ast.Name)):
                    raise Unsupported(f"assignment {ast.unparse(s)!r}")
                ls, t = self.expr(s.value, ind)
                lines += ls + [f"{ind}let {s.targets[0].id} := {t}"]
                defined.add(s.targets[0].id)
            elif isinstance(s, ast.If):
                c = self.cond(s.test)
                vs = self.assigned(s.body + s.orelse)
                d1, d2 = set(defined), set(defined)
                b1 = self.stmts(s.body, d1, ind + "    ")
                b2 = self.stmts(s.orelse, d2, ind + "    ")
                for v in vs:
                    if v not in d1 or v not in d2:
                        raise Unsupported(f"`{v}` is not assigned on every path")
                tup = vs[0] if len(vs) == 1 else "(" + ", ".join(vs) + ")"
                lines += [f"{ind}let {tup} ← (if {c} then (do"] + b1 + [f"{ind}    pure {tup})", f"{ind}  else (do"] + b2 + \
                         [f"{ind}    pure {tup}))"]
                defined |= set(vs)
            else:
                raise Unsupported(f"statement {ast.unparse(s)!r}")
        return lines


def translate_step(steps_tree: ast.AST, cname: str, arity: int) -> str:
    fn = _method(_find(steps_tree, ast.ClassDef, cname), "apply")
    args = [a.arg for a in fn.args.args]
    if len(args) != 2 or args[0] != "self":
        raise Unsupported(f"{cname}.apply signature")
    stack = args[1]
    body = _strip_doc(fn.body)
    pops: list[str] = []
    i = 0
    while i < len(body) and isinstance(body[i], ast.Assign) and ast.unparse(body[i].value) == f"{stack}.pop()":
        tgt = body[i].targets
        if len(tgt) != 1 or not isinstance(tgt[0], ast.Name):
            raise Unsupported(f"{cname}.apply: pop target")
        pops.append(tgt[0].id)
        i += 1
    if len(pops) != arity or len(set(pops)) != arity:
        raise Unsupported(f"{cname}.apply pops {len(pops)} values, expected {arity}")
    last = body[-1]
    if not (isinstance(last, ast.Expr) and isinstance(last.value, ast.Call)
            and ast.unparse(last.value.func) == f"{stack}.append" and len(last.value.args) == 1):
        raise Unsupported(f"{cname}.apply does not end with {stack}.append(...)")
    middle = body[i:-1]
    for n in middle:
        for sub in ast.walk(n):
            if isinstance(sub, ast.Name) and sub.id == stack:
                raise Unsupported(f"{cname}.apply touches the stack between pop and append")
    tr = Body()
    defined = set(pops)
    lines = tr.stmts(middle, defined, "  ")
    for sub in ast.walk(last.value.args[0]):
        if isinstance(sub, ast.Name) and sub.id not in defined and sub.id not in ("max", "min", "math", "float"):
            raise Unsupported(f"{cname}.apply: `{sub.id}` undefined")
    ls, t = tr.expr(last.value.args[0], "  ")
    lines += ls + [f"  pure {t}"]
    # the value popped first was pushed last: it is the SECOND operand
    params = list(reversed(pops))
    kind = "bin" if arity == 2 else "un"
    head = f"def Extracted.Formula.{kind}{cname} " + " ".join(f"({p} : V)" for p in params) + " : M V := do"
    return head + "\n" + "\n".join(lines) + "\n"


# ---------------------------------------------------------------- tokenizer character classes
def tokenizer_chars(tok_src: str) -> tuple[list[str], list[str], str]:
    """The character classes of `Tokenizer.__next__`, by role: the test whose branch skips the character (`continue`)
    = whitespace, the one that returns an OPER token = operators, the one that returns a COMPONENT_METRIC token = marker."""
    tree = ast.parse(tok_src)
    fn = _method(_find(tree, ast.ClassDef, "Tokenizer"), "__next__")
    roles: dict[str, list[str]] = {}

    def chars_of(test: ast.expr) -> list[str] | None:
        if isinstance(test, ast.Compare) and isinstance(test.left, ast.Name) and len(test.ops) == 1:
            c = test.comparators[0]
            if isinstance(test.ops[0], ast.In) and isinstance(c, (ast.Tuple, ast.List, ast.Set)) \
                    and all(isinstance(e, ast.Constant) for e in c.elts):
                return [e.value for e in c.elts]
            if isinstance(test.ops[0], ast.In) and isinstance(c, ast.Constant) and isinstance(c.value, str):
                return list(c.value)
            if isinstance(test.ops[0], ast.Eq) and isinstance(c, ast.Constant):
                return [c.value]
        return None

    for n in ast.walk(fn):
        if not isinstance(n, ast.If):
            continue
        chars = chars_of(n.test)
        if chars is None:
            continue
        body = ast.unparse(ast.Module(body=n.body, type_ignores=[]))
        if len(n.body) == 1 and isinstance(n.body[0], ast.Continue):
            role = "ws"
        elif "TokenType.OPER" in body and any(isinstance(x, ast.Return) for x in n.body):
            role = "oper"
        elif "TokenType.COMPONENT_METRIC" in body and any(isinstance(x, ast.Return) for x in n.body):
            role = "metric"
        else:
            raise Unsupported(f"Tokenizer.__next__: character test with an unknown role: {ast.unparse(n.test)}")
        if role in roles:
            raise Unsupported(f"Tokenizer.__next__: two tests with role {role}")
        roles[role] = chars
    if set(roles) != {"ws", "oper", "metric"} or len(roles["metric"]) != 1:
        raise Unsupported(f"Tokenizer.__next__: character classes found: {sorted(roles)}")
    ws, ops, hash_ = roles["ws"], roles["oper"], roles["metric"][0]
    for ch in ws + ops + [hash_]:
        if not (isinstance(ch, str) and len(ch) == 1):
            raise Unsupported("Tokenizer.__next__: non single-character literal")
    if set(ops) != {"+", "-", "*", "/", "(", ")"}:
        raise Unsupported(f"Tokenizer operator characters changed: {ops}")
    return ws, sorted(ops, key="+-*/()".index), hash_


# ---------------------------------------------------------------- the final test of FormulaEvaluator.apply
def final_test(evaluator_src: str) -> str:
    """`FormulaEvaluator.apply`: the value popped last from the evaluation stack either becomes the sample's value or
    is replaced by None.  The decision is recovered by symbolic execution of the statements after the pop (if/else in
    either polarity, early return, a local holding the value, conditional expression) — names do not matter."""
    tree = ast.parse(evaluator_src)
    fn = None
    for n in ast.walk(_find(tree, ast.ClassDef, "FormulaEvaluator")):
        if isinstance(n, ast.AsyncFunctionDef) and n.name == "apply":
            fn = n
    if fn is None:
        raise Unsupported("FormulaEvaluator.apply not found")
    body = _strip_doc(fn.body)
    idx = None
    for k, st in enumerate(body):
        if isinstance(st, (ast.Assign, ast.AnnAssign)) and st.value is not None and isinstance(st.value, ast.Call) \
                and isinstance(st.value.func, ast.Attribute) and st.value.func.attr == "pop" and not st.value.args:
            tgt = st.targets[0] if isinstance(st, ast.Assign) else st.target
            if isinstance(tgt, ast.Name):
                idx, res = k, tgt.id
    if idx is None:
        raise Unsupported("FormulaEvaluator.apply: no `<result> = <stack>.pop()`")

    def uses_res(e: ast.expr) -> bool:
        return any(isinstance(x, ast.Name) and x.id == res for x in ast.walk(e))

    def cond(n: ast.expr) -> str:
        if isinstance(n, ast.BoolOp):
            op = " || " if isinstance(n.op, ast.Or) else " && "
            return "(" + op.join(cond(v) for v in n.values) + ")"
        if isinstance(n, ast.UnaryOp) and isinstance(n.op, ast.Not):
            return f"(!{cond(n.operand)})"
        if isinstance(n, ast.Call) and len(n.args) == 1 and isinstance(n.args[0], ast.Name) and n.args[0].id == res \
                and not n.keywords:
            prim = {"isnan": "isnanC", "math.isnan": "isnanC", "isinf": "isinfC", "math.isinf": "isinfC",
                    "isfinite": "isfiniteC", "math.isfinite": "isfiniteC"}.get(ast.unparse(n.func))
            if prim:
                return f"(PyF.{prim} res)"
        raise Unsupported(f"final test {ast.unparse(n)!r}")

    # symbolic values: "true" (replaced by None), "false" (the value is emitted), or a Lean Bool term
    def value(e: ast.expr, env: dict[str, str]) -> str:
        if isinstance(e, ast.Constant) and e.value is None:
            return "true"
        if isinstance(e, ast.Name) and e.id in env:
            return env[e.id]
        if isinstance(e, ast.IfExp):
            return f"(if {cond(e.test)} then {value(e.body, env)} else {value(e.orelse, env)})"
        if isinstance(e, ast.Call) and len(e.args) == 1 and isinstance(e.args[0], ast.Name) and e.args[0].id == res:
            return "false"   # create_method(res)
        raise Unsupported(f"FormulaEvaluator.apply: sample value {ast.unparse(e)!r}")

    def run(stmts: list[ast.stmt], env: dict[str, str]) -> str | None:
        """Bool term for `the returned sample has value None`, or None when the statements fall through."""
        for k, st in enumerate(stmts):
            if isinstance(st, ast.Return):
                v = st.value
                if not (isinstance(v, ast.Call) and ast.unparse(v.func) == "Sample" and len(v.args) == 2):
                    raise Unsupported(f"FormulaEvaluator.apply: {ast.unparse(st)!r}")
                return value(v.args[1], env)
            if isinstance(st, (ast.Assign, ast.AnnAssign)):
                tgt = st.targets[0] if isinstance(st, ast.Assign) else st.target
                if not isinstance(tgt, ast.Name) or st.value is None:
                    raise Unsupported(f"FormulaEvaluator.apply: {ast.unparse(st)!r}")
                env = dict(env)
                env[tgt.id] = value(st.value, env)
                continue
            if isinstance(st, ast.If):
                rest = stmts[k + 1:]
                c = cond(st.test)
                a = run(st.body + rest, env)
                b = run(st.orelse + rest, env)
                if a is None or b is None:
                    raise Unsupported("FormulaEvaluator.apply: a path without return")
                return f"(if {c} then {a} else {b})"
            raise Unsupported(f"FormulaEvaluator.apply: {ast.unparse(st)!r}")
        return None

    term = run(body[idx + 1:], {})
    if term is None:
        raise Unsupported("FormulaEvaluator.apply: no return after the pop")
    return ("/-- The final test of `FormulaEvaluator.apply`: is the result replaced by `None`? -/\n"
            f"def Extracted.Formula.resultIsNone (res : FloatClass) : Bool := {term}\n")


def _lean_char(c: str) -> str:
    return f"(Char.ofNat {ord(c)})"


def generate(repo: pathlib.Path) -> str:
    engine_src = (repo / SOURCES[0]).read_text()
    steps_src = (repo / SOURCES[1]).read_text()
    tok_src = (repo / SOURCES[2]).read_text()
    engine_tree = ast.parse(engine_src)
    steps_tree = ast.parse(steps_src)

    tab = precedence(engine_src)
    check_reprs(steps_tree)
    check_push_oper(engine_tree)
    ws, ops, hash_ = tokenizer_chars(tok_src)

    out = ["import Frequenz.Model.FormulaSteps", "", "open Formula", ""]
    out.append("/-- `_operator_precedence` (indexed by `repr` of the step on the build stack). -/")
    out.append("def Extracted.Formula.prec : Op → Nat")
    for s in ORDER:
        out.append(f"  | .{OPS[s]} => {tab[s]}")
    out.append("")
    out.append("/-- Tokenizer: characters skipped as whitespace, operator characters, the metric marker. -/")
    out.append("def Extracted.Formula.wsChars : List Char := [" + ", ".join(_lean_char(c) for c in ws) + "]")
    out.append("def Extracted.Formula.operChars : List Char := [" + ", ".join(_lean_char(c) for c in ops) + "]")
    out.append(f"def Extracted.Formula.metricChar : Char := {_lean_char(hash_)}")
    out.append("")
    for c in BINARY:
        out.append(translate_step(steps_tree, c, 2))
    for c in UNARY:
        out.append(translate_step(steps_tree, c, 1))
    out.append(final_test((repo / SOURCES[3]).read_text()))
    return "\n".join(out)
