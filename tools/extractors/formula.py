"""formula_engine -> Lean: the shunting-yard precedence table, the tokenizer's character classes, a *translation of
every arithmetic step's `apply`* (`_formula_steps.py`) into the float primitives of `Frequenz/Model/FormulaSteps.lean`
and the final test of `FormulaEvaluator.apply`.

Code is found by ROLE / DATAFLOW, not by statement position or local names, and the generated text is a CANONICAL form
(a behaviour-preserving refactor of the source gives byte-identical Lean; a behaviour-changing edit gives a different
term, or raises).  Two small interpreters over the `ast` do the work:

  * `Sx` — symbolic execution (continuation-passing, path by path) of loop-free float code.  Used for
      - each arithmetic step: `apply` (looked up through the base classes of the module) is run on a symbolic stack;
        private helpers (methods of the class / its bases, module-level functions, lambdas, `operator.*`) are inlined;
        guard clauses / early returns / conditional expressions / either polarity of a test / and-or-not / locals /
        tuple assignments all end up as ONE decision tree over atomic tests (`isnan x`, `x == y`, `x < y`, `x <= y`)
        whose leaves are the pushed value; `/` is kept as an effect (`let t <- PyF.div a b`) at the place of the path
        where Python evaluates it (a zero divisor raises there).  On every path the step must pop exactly its arity and
        push exactly one value.  Operands are named by position (`val1` = pushed first).
      - `Clipper`: `__init__` is run to find the instance attributes holding the two Optional[float] bounds (by
        constructor position: lo, hi); `apply` is then translated like a unary step with the atoms `lo.isSome` /
        `hi.isSome` for `<attr> is [not] None`; a bound is a float only where it is known not to be None
        (`Extracted.Formula.unClipper lo hi val`, which IS the model's `clipVal`).
      - `FormulaEvaluator.apply`: after the loop that applies the steps, `len(<stack>)` is only compared with 1, every
        other size raises, `<stack>.pop()` (anywhere: a local, an argument of a helper) is the result `x`; the
        returned `Sample`'s value (positional or keyword) is either
        `<create>(x)` or None; the decision over `isnan / isinf / isfinite (x)`, tabulated for the three classes
        nan | inf | finite, is `resultIsNone`.
  * `Pe` — partial evaluation with concrete values and `Unknown`, forking on unknown tests.  Used for
      - `FormulaBuilder.push_oper`: run once per operator string; whatever the dispatch syntax (if/elif in any order,
        `match`, dict of classes, helper method, walrus, early return), on EVERY path exactly the step class with that
        `repr` must be appended to `self._build_stack` (")" pushes nothing).  (The pop loop is modelled by hand as
        `Shunting.popLoop` and tied by the correspondence check.)
      - `Tokenizer.__next__`: the whole method is run on concrete inputs ([], [c], [w, x], [w, w', x] for every character
        literal it mentions plus a fresh one): running into StopIteration after consuming c = whitespace,
        `return Token(TokenType.OPER, c)` (positional or keyword) = operator character, `return
        Token(TokenType.COMPONENT_METRIC, ...)` = metric marker, `raise ValueError` = anything else; the loop may be a
        for / for-else / break-and-dispatch-after-the-loop / `next(it)`.

`hoBuilderKeepsOnlyTokens` (see `ho_builder_keeps_only_tokens`): the higher-order builder classes write no instance
attribute besides the token deque outside `__init__` and `build` mutates nothing it does not own — what
`C05_history_free` rests on.

Also checked: `_operator_precedence` is a dict literal {str: int} over exactly the ten operator strings; each step class's
`__repr__` returns the literal the table is indexed with (`repr(prev_step)`).

Anything the interpreters cannot establish raises `Unsupported`, which sends C05/C13 to the failing-input search.
"""
from __future__ import annotations

import ast
import pathlib
from fractions import Fraction

NAME = "Formula"
SOURCES = [
    "src/frequenz/sdk/timeseries/formula_engine/_formula_engine.py",
    "src/frequenz/sdk/timeseries/formula_engine/_formula_steps.py",
    "src/frequenz/sdk/timeseries/formula_engine/_tokenizer.py",
    "src/frequenz/sdk/timeseries/formula_engine/_formula_evaluator.py",
]

OPS = {"max": "max", "min": "min", "consumption": "cons", "production": "prod", "(": "lp",
       "/": "div", "*": "mul", "-": "sub", "+": "add", ")": "rp"}
ORDER = ["max", "min", "consumption", "production", "(", "/", "*", "-", "+", ")"]
STEP_CLASS = {"+": "Adder", "-": "Subtractor", "*": "Multiplier", "/": "Divider", "(": "OpenParen",
              "max": "Maximizer", "min": "Minimizer", "consumption": "Consumption", "production": "Production"}
BINARY = ["Adder", "Subtractor", "Multiplier", "Divider", "Maximizer", "Minimizer"]
UNARY = ["Consumption", "Production"]


class Unsupported(Exception):
    pass


# ---------------------------------------------------------------- module / class lookup
def _find(tree: ast.AST, kind, name: str):
    for n in ast.walk(tree):
        if isinstance(n, kind) and getattr(n, "name", None) == name:
            return n
    raise Unsupported(f"{kind.__name__} {name} not found")


def _strip_doc(body: list[ast.stmt]) -> list[ast.stmt]:
    if body and isinstance(body[0], ast.Expr) and isinstance(body[0].value, ast.Constant) and isinstance(body[0].value.value, str):
        return body[1:]
    return body


_FUNC = (ast.FunctionDef, ast.AsyncFunctionDef)


class Module:
    """Name resolution inside one source file: classes, single-inheritance method lookup, module-level functions,
    module-/class-level constant assignments, `import` aliases."""

    def __init__(self, src: str) -> None:
        self.tree = ast.parse(src)
        self.classes = {n.name: n for n in self.tree.body if isinstance(n, ast.ClassDef)}
        self.functions = {n.name: n for n in self.tree.body if isinstance(n, _FUNC)}
        self.consts: dict[str, ast.expr] = {}
        for n in self.tree.body:
            self._const(n, self.consts)
        # local name -> dotted origin ("isnan" -> "math.isnan", "m" -> "math")
        self.imports: dict[str, str] = {}
        for n in self.tree.body:
            if isinstance(n, ast.Import):
                for a in n.names:
                    self.imports[a.asname or a.name.split(".")[0]] = a.name if a.asname else a.name.split(".")[0]
            elif isinstance(n, ast.ImportFrom):
                for a in n.names:
                    self.imports[a.asname or a.name] = f"{'.' * n.level}{n.module or ''}.{a.name}"

    @staticmethod
    def _const(n: ast.stmt, out: dict[str, ast.expr]) -> None:
        if isinstance(n, ast.Assign) and len(n.targets) == 1 and isinstance(n.targets[0], ast.Name):
            out[n.targets[0].id] = n.value
        elif isinstance(n, ast.AnnAssign) and isinstance(n.target, ast.Name) and n.value is not None:
            out[n.target.id] = n.value

    def cls(self, name: str) -> ast.ClassDef:
        if name not in self.classes:
            raise Unsupported(f"class {name} not found")
        return self.classes[name]

    def mro(self, cname: str) -> list[ast.ClassDef]:
        out, seen = [], set()
        todo = [cname]
        while todo:
            c = todo.pop(0)
            if c in seen or c not in self.classes:
                continue
            seen.add(c)
            out.append(self.classes[c])
            for b in self.classes[c].bases:
                b = b.value if isinstance(b, ast.Subscript) else b
                if isinstance(b, ast.Name):
                    todo.append(b.id)
        return out

    def method(self, cname: str, name: str):
        """(function, defining class) of `name` for instances of `cname`; abstract stubs (docstring only) are skipped."""
        for c in self.mro(cname):
            for n in c.body:
                if isinstance(n, _FUNC) and n.name == name and _strip_doc(n.body):
                    return n, c
        return None

    def class_const(self, cname: str, name: str) -> ast.expr | None:
        for c in self.mro(cname):
            d: dict[str, ast.expr] = {}
            for n in c.body:
                self._const(n, d)
            if name in d:
                return d[name]
        return None

    def dotted(self, e: ast.expr) -> str | None:
        """`math.isnan` / `isnan` (imported from math) / `m.isnan` (import math as m) -> "math.isnan"."""
        parts: list[str] = []
        while isinstance(e, ast.Attribute):
            parts.append(e.attr)
            e = e.value
        if not isinstance(e, ast.Name):
            return None
        head = self.imports.get(e.id, e.id)
        return ".".join([head] + parts[::-1])


def _is_static(fn) -> bool:
    return any(isinstance(d, ast.Name) and d.id == "staticmethod" for d in fn.decorator_list)


def _is_classmethod(fn) -> bool:
    return any(isinstance(d, ast.Name) and d.id == "classmethod" for d in fn.decorator_list)


def _bind_params(fn, args: list, kwargs: dict, what: str) -> dict:
    a = fn.args
    if a.vararg or a.kwarg or a.kwonlyargs:
        raise Unsupported(f"{what}: signature with * / ** / keyword-only parameters")
    names = [p.arg for p in a.posonlyargs + a.args]
    if len(args) > len(names):
        raise Unsupported(f"{what}: too many arguments")
    env = dict(zip(names, args))
    for k, v in kwargs.items():
        if k not in names or k in env:
            raise Unsupported(f"{what}: keyword argument {k}")
        env[k] = v
    missing = [n for n in names if n not in env]
    defaults = dict(zip(names[len(names) - len(a.defaults):], a.defaults))
    for n in missing:
        if n not in defaults:
            raise Unsupported(f"{what}: missing argument {n}")
        env[n] = ("default", defaults[n])
    return env


# ================================================================ Sx: symbolic execution of loop-free float code
# values:  ("f", lean term) float | ("b", bool) | ("none",) | ("stack",) | ("tuple", [values]) | ("self",)
#          ("fn", node, closure env, self class | None) | ("prim", dotted name) | ("sample", value) | ("created",)
#          ("opt", lean name of an `Option Rat`) an Optional[float] instance attribute
# nodes:   ("ret", leaf) | ("let", t, a, b, node) | ("if", atom, node, node)
class St:
    """Immutable-by-convention path state."""
    __slots__ = ("env", "pushed", "npop", "tmp", "facts", "depth")

    def __init__(self, env, pushed=(), npop=0, tmp=0, facts=(), depth=0):
        self.env, self.pushed, self.npop, self.tmp, self.facts, self.depth = env, pushed, npop, tmp, facts, depth

    def but(self, **kw) -> "St":
        s = St(self.env, self.pushed, self.npop, self.tmp, self.facts, self.depth)
        for k, v in kw.items():
            setattr(s, k, v)
        return s

    def bind(self, name: str, v) -> "St":
        env = dict(self.env)
        env[name] = v
        return self.but(env=env)


_OPERATOR = {"operator.add": ast.Add, "operator.sub": ast.Sub, "operator.mul": ast.Mult, "operator.truediv": ast.Div}


class Sx:
    PRIMS = {"math.isnan": "PyF.isnan"}
    MAX_DEPTH = 12
    init_mode = False          # True while `__init__` is run: stores to `self.<attr>` are recorded

    def __init__(self, mod: Module, cname: str | None, what: str, operand_names: list[str] | None = None) -> None:
        self.mod, self.cname, self.what = mod, cname, what
        self.operand_names = operand_names or []      # by pop order
        self.inst_attrs: dict = {}                    # instance attributes set by __init__ (name -> value)

    # ------------------------------------------------------------ helpers
    def bad(self, msg: str):
        raise Unsupported(f"{self.what}: {msg}")

    @staticmethod
    def lit(v) -> str:
        if v != v:
            return "PyF.nan"
        if v in (float("inf"), float("-inf")):
            raise Unsupported("infinite literal")
        fr = Fraction(v)
        q = f"({fr.numerator} : Rat)" if fr.denominator == 1 else f"(({fr.numerator} : Rat) / {fr.denominator})"
        return f"(PyF.lit {q})"

    def flt(self, v, src: ast.AST, st: "St | None" = None) -> str:
        if v[0] == "opt":
            # an Optional[float] instance attribute: a float only on a path where `is not None` was established
            if st is not None and (f"({v[1]}.isSome)", True) in st.facts:
                return f"(PyF.lit ({v[1]}.getD 0))"
            self.bad(f"{ast.unparse(src)!r}: the optional attribute may be None here")
        if v[0] != "f":
            self.bad(f"a float is needed in {ast.unparse(src)!r}")
        return v[1]

    def mk_if(self, atom: str, st: St, kt, kf):
        for a, val in st.facts:
            if a == atom:
                return kt(st) if val else kf(st)
        a_ = kt(st.but(facts=st.facts + ((atom, True),)))
        b_ = kf(st.but(facts=st.facts + ((atom, False),)))
        return a_ if a_ == b_ else ("if", atom, a_, b_)

    # ------------------------------------------------------------ expressions
    def eval(self, e: ast.expr, st: St, k):
        """k(value, state) -> node"""
        if isinstance(e, ast.Constant):
            v = e.value
            if v is None:
                return k(("none",), st)
            if isinstance(v, bool):
                return k(("b", v), st)
            if isinstance(v, (int, float)):
                return k(("f", self.lit(v)), st)
            self.bad(f"constant {v!r}")
        if isinstance(e, ast.Name):
            if e.id in st.env:
                v = st.env[e.id]
                if v[0] == "default":
                    return self.eval(v[1], st.but(env={}), lambda w, _s: k(w, st))
                return k(v, st)
            if e.id in self.mod.functions:
                return k(("fn", self.mod.functions[e.id], {}, None), st)
            if e.id in self.mod.consts and e.id not in self.mod.imports:
                return self.eval(self.mod.consts[e.id], st.but(env={}), lambda w, _s: k(w, st))
            return k(self.global_name(self.mod.imports.get(e.id, e.id), e), st)
        if isinstance(e, ast.Attribute):
            if isinstance(e.value, ast.Name) and st.env.get(e.value.id, (None,))[0] == "self" or \
                    isinstance(e.value, ast.Name) and e.value.id == self.cname and e.value.id not in st.env:
                return self.self_attr(e.attr, st, k, e)
            d = self.mod.dotted(e)
            if d is not None and isinstance(e.value, ast.Name) and e.value.id not in st.env:
                return k(self.global_name(d, e), st)
            self.bad(f"attribute {ast.unparse(e)!r}")
        if isinstance(e, ast.UnaryOp):
            if isinstance(e.op, ast.Not):
                return self.cond(e, st, lambda s: k(("b", True), s), lambda s: k(("b", False), s))
            if isinstance(e.op, ast.USub):
                return self.eval(e.operand, st, lambda v, s: k(("f", f"(PyF.neg {self.flt(v, e, s)})"), s))
            if isinstance(e.op, ast.UAdd):
                return self.eval(e.operand, st, lambda v, s: k(("f", self.flt(v, e, s)), s))
            self.bad(f"operator {type(e.op).__name__}")
        if isinstance(e, ast.BinOp):
            return self.eval(e.left, st, lambda a, s1: self.eval(e.right, s1, lambda b, s2: self.binop(type(e.op), a, b, s2, k, e)))
        if isinstance(e, (ast.BoolOp, ast.Compare)):
            return self.cond(e, st, lambda s: k(("b", True), s), lambda s: k(("b", False), s))
        if isinstance(e, ast.IfExp):
            return self.cond(e.test, st, lambda s: self.eval(e.body, s, k), lambda s: self.eval(e.orelse, s, k))
        if isinstance(e, ast.Tuple) or isinstance(e, ast.List):
            return self.eval_list(list(e.elts), st, lambda vs, s: k(("tuple", vs), s))
        if isinstance(e, ast.Lambda):
            return k(("fn", e, dict(st.env), None), st)
        if isinstance(e, ast.NamedExpr) and isinstance(e.target, ast.Name):
            return self.eval(e.value, st, lambda v, s: k(v, s.bind(e.target.id, v)))
        if isinstance(e, ast.Call):
            return self.call(e, st, k)
        self.bad(f"expression {ast.unparse(e)!r}")

    def eval_list(self, es: list[ast.expr], st: St, k, acc=()):
        if not es:
            return k(list(acc), st)
        if isinstance(es[0], ast.Starred):
            self.bad("starred expression")
        return self.eval(es[0], st, lambda v, s: self.eval_list(es[1:], s, k, acc + (v,)))

    def global_name(self, dotted: str, src: ast.AST):
        if dotted in ("math.nan",):
            return ("f", "PyF.nan")
        if dotted in ("math.inf",):
            raise Unsupported("infinite literal")
        if dotted in ("max", "min", "float", "math.isnan", "math.isinf", "math.isfinite", "operator.neg") or dotted in _OPERATOR:
            return ("prim", dotted)
        self.bad(f"name {ast.unparse(src)!r}")

    def self_attr(self, attr: str, st: St, k, src: ast.AST):
        if self.cname is None:
            self.bad(f"attribute {ast.unparse(src)!r}")
        if attr in self.inst_attrs:
            return k(self.inst_attrs[attr], st)
        m = self.mod.method(self.cname, attr)
        if m is not None:
            return k(("fn", m[0], {}, self.cname), st)
        c = self.mod.class_const(self.cname, attr)
        if c is not None:
            return self.eval(c, st.but(env={}), lambda w, _s: k(w, st))
        return self.unknown_self_attr(attr, st, k, src)

    def unknown_self_attr(self, attr: str, st: St, k, src: ast.AST):
        self.bad(f"attribute {ast.unparse(src)!r}")

    def binop(self, op, a, b, st: St, k, src: ast.AST):
        x, y = self.flt(a, src, st), self.flt(b, src, st)
        if op in (ast.Add, ast.Mult):      # commutative (IEEE and model): operands in a fixed order
            x, y = sorted((x, y))
        if op is ast.Add:
            return k(("f", f"(PyF.add {x} {y})"), st)
        if op is ast.Sub:
            return k(("f", f"(PyF.sub {x} {y})"), st)
        if op is ast.Mult:
            return k(("f", f"(PyF.mul {x} {y})"), st)
        if op is ast.Div:
            t = f"t{st.tmp + 1}"
            return ("let", t, x, y, k(("f", t), st.but(tmp=st.tmp + 1)))
        self.bad(f"operator {op.__name__}")

    # ------------------------------------------------------------ calls
    def call(self, e: ast.Call, st: St, k):
        f = e.func
        # stack methods: <stack>.pop() / <stack>.append(v)
        if isinstance(f, ast.Attribute) and isinstance(f.value, ast.Name) and st.env.get(f.value.id, (None,))[0] == "stack":
            if f.attr == "pop" and not e.keywords and (not e.args or ast.unparse(e.args[0]) == "-1"):
                if st.pushed:
                    return k(("f", st.pushed[-1]), st.but(pushed=st.pushed[:-1]))
                if st.npop >= len(self.operand_names):
                    self.bad(f"pops more than {len(self.operand_names)} values")
                return k(("f", self.operand_names[st.npop]), st.but(npop=st.npop + 1))
            if f.attr == "append" and len(e.args) == 1 and not e.keywords:
                return self.eval(e.args[0], st, lambda v, s: k(("none",), s.but(pushed=s.pushed + (self.flt(v, e, s),))))
            self.bad(f"stack operation {ast.unparse(e)!r}")
        if any(kw.arg is None for kw in e.keywords):
            self.bad("** arguments")
        if isinstance(f, ast.Name) and f.id == "float" and f.id not in st.env and len(e.args) == 1 and not e.keywords \
                and isinstance(e.args[0], ast.Constant) and isinstance(e.args[0].value, str):
            txt = e.args[0].value.strip().lower()
            if txt in ("nan", "+nan", "-nan"):
                return k(("f", "PyF.nan"), st)
            try:
                return k(("f", self.lit(float(txt))), st)
            except ValueError:
                self.bad(f"call {ast.unparse(e)!r}")
        return self.eval(f, st, lambda fv, s1: self.eval_list(
            list(e.args) + [kw.value for kw in e.keywords], s1,
            lambda vs, s2: self.apply(fv, vs[:len(e.args)], dict(zip([kw.arg for kw in e.keywords], vs[len(e.args):])), s2, k, e)))

    def apply(self, fv, args: list, kwargs: dict, st: St, k, src: ast.AST):
        if fv[0] == "prim":
            return self.prim(fv[1], args, kwargs, st, k, src)
        if fv[0] != "fn":
            self.bad(f"call {ast.unparse(src)!r}")
        _, fn, closure, owner = fv
        if st.depth >= self.MAX_DEPTH:
            self.bad("helper calls nested too deeply (recursion?)")
        what = f"helper {getattr(fn, 'name', '<lambda>')}"
        if isinstance(fn, ast.Lambda):
            env = dict(closure)
            env.update(_bind_params(fn, args, kwargs, what))
            return self.eval(fn.body, st.but(env=env, depth=st.depth + 1), lambda v, s: k(v, s.but(env=st.env, depth=st.depth)))
        if isinstance(fn, ast.AsyncFunctionDef):
            self.bad(f"{what} is async")
        if owner is not None and not _is_static(fn):
            args = [("self",)] + args
        env = _bind_params(fn, args, kwargs, what)
        back = lambda v, s: k(v, s.but(env=st.env, depth=st.depth))  # noqa: E731
        return self.exec(_strip_doc(fn.body), st.but(env=env, depth=st.depth + 1), lambda s: back(("none",), s), back)

    def prim(self, name: str, args: list, kwargs: dict, st: St, k, src: ast.AST):
        if kwargs:
            self.bad(f"keyword arguments in {ast.unparse(src)!r}")
        if name in ("max", "min") and len(args) == 2:
            return k(("f", f"(PyF.{name} {self.flt(args[0], src, st)} {self.flt(args[1], src, st)})"), st)
        if name == "float" and len(args) == 1 and args[0][0] == "f":
            return k(args[0], st)
        if name == "operator.neg" and len(args) == 1:
            return k(("f", f"(PyF.neg {self.flt(args[0], src, st)})"), st)
        if name in _OPERATOR and len(args) == 2:
            return self.binop(_OPERATOR[name], args[0], args[1], st, k, src)
        if name in self.PRIMS and len(args) == 1:
            atom = f"({self.PRIMS[name]} {self.flt(args[0], src, st)})"
            return self.mk_if(atom, st, lambda s: k(("b", True), s), lambda s: k(("b", False), s))
        self.bad(f"call {ast.unparse(src)!r}")

    # ------------------------------------------------------------ conditions
    def cond(self, e: ast.expr, st: St, kt, kf):
        """kt(state) / kf(state) -> node"""
        if isinstance(e, ast.BoolOp):
            vs = list(e.values)
            if len(vs) == 1:
                return self.cond(vs[0], st, kt, kf)
            rest = ast.BoolOp(op=e.op, values=vs[1:])
            if isinstance(e.op, ast.And):
                return self.cond(vs[0], st, lambda s: self.cond(rest, s, kt, kf), kf)
            return self.cond(vs[0], st, kt, lambda s: self.cond(rest, s, kt, kf))
        if isinstance(e, ast.UnaryOp) and isinstance(e.op, ast.Not):
            return self.cond(e.operand, st, kf, kt)
        if isinstance(e, ast.Compare):
            if len(e.ops) != 1:
                first = ast.Compare(left=e.left, ops=e.ops[:1], comparators=e.comparators[:1])
                if any(not isinstance(c, (ast.Name, ast.Constant)) for c in e.comparators[:-1]):
                    self.bad(f"chained comparison {ast.unparse(e)!r}")
                rest = ast.Compare(left=e.comparators[0], ops=e.ops[1:], comparators=e.comparators[1:])
                return self.cond(first, st, lambda s: self.cond(rest, s, kt, kf), kf)
            op = type(e.ops[0])
            return self.eval(e.left, st, lambda a, s1: self.eval(e.comparators[0], s1, lambda b, s2: self.compare(op, a, b, s2, kt, kf, e)))
        return self.eval(e, st, lambda v, s: self.truth(v, s, kt, kf, e))

    def compare(self, op, a, b, st: St, kt, kf, src: ast.AST):
        if op in (ast.Is, ast.IsNot):
            if "none" not in (a[0], b[0]) or not {a[0], b[0]} <= {"none", "f", "opt"}:
                self.bad(f"comparison {ast.unparse(src)!r}")
            if "opt" in (a[0], b[0]):
                o = a if a[0] == "opt" else b
                return self.mk_if(f"({o[1]}.isSome)", st, *((kf, kt) if op is ast.Is else (kt, kf)))
            same = a[0] == b[0]
            return (kt if same == (op is ast.Is) else kf)(st)
        x, y = self.flt(a, src, st), self.flt(b, src, st)
        if op is ast.Eq:
            return self.mk_if(f"(PyF.eq {x} {y})", st, kt, kf)
        if op is ast.NotEq:
            return self.mk_if(f"(PyF.eq {x} {y})", st, kf, kt)
        if op is ast.Lt:
            return self.mk_if(f"(PyF.lt {x} {y})", st, kt, kf)
        if op is ast.Gt:
            return self.mk_if(f"(PyF.lt {y} {x})", st, kt, kf)
        if op is ast.LtE:
            return self.mk_if(f"(PyF.le {x} {y})", st, kt, kf)
        if op is ast.GtE:
            return self.mk_if(f"(PyF.le {y} {x})", st, kt, kf)
        self.bad(f"comparison {ast.unparse(src)!r}")

    def truth(self, v, st: St, kt, kf, src: ast.AST):
        if v[0] == "b":
            return (kt if v[1] else kf)(st)
        if v[0] == "none":
            return kf(st)
        if v[0] == "f":       # a float is falsy exactly when it == 0 (NaN is truthy)
            return self.mk_if(f"(PyF.eq {v[1]} {self.lit(0)})", st, kf, kt)
        self.bad(f"truth value of {ast.unparse(src)!r}")

    # ------------------------------------------------------------ statements
    def exec(self, stmts: list[ast.stmt], st: St, k_next, k_ret):
        """k_next(state) when the statements fall through, k_ret(value, state) on `return`."""
        if not stmts:
            return k_next(st)
        s, rest = stmts[0], stmts[1:]
        go = lambda s2: self.exec(rest, s2, k_next, k_ret)  # noqa: E731
        if isinstance(s, ast.Pass):
            return go(st)
        if isinstance(s, ast.Expr):
            if isinstance(s.value, ast.Constant) and isinstance(s.value.value, str):
                return go(st)
            return self.eval(s.value, st, lambda _v, s2: go(s2))
        if isinstance(s, ast.Assign):
            if len(s.targets) != 1:
                self.bad(f"assignment {ast.unparse(s)!r}")
            return self.eval(s.value, st, lambda v, s2: go(self.assign(s.targets[0], v, s2)))
        if isinstance(s, ast.AnnAssign):
            if s.value is None:
                return go(st)
            return self.eval(s.value, st, lambda v, s2: go(self.assign(s.target, v, s2)))
        if isinstance(s, ast.AugAssign):
            if not isinstance(s.target, ast.Name):
                self.bad(f"assignment {ast.unparse(s)!r}")
            load = ast.Name(id=s.target.id, ctx=ast.Load())
            return self.eval(load, st, lambda a, s1: self.eval(s.value, s1, lambda b, s2: self.binop(
                type(s.op), a, b, s2, lambda v, s3: go(s3.bind(s.target.id, v)), s)))
        if isinstance(s, ast.If):
            return self.cond(s.test, st,
                             lambda s2: self.exec(s.body, s2, go, k_ret),
                             lambda s2: self.exec(s.orelse, s2, go, k_ret))
        if isinstance(s, ast.Return):
            if s.value is None:
                return k_ret(("none",), st)
            return self.eval(s.value, st, k_ret)
        self.bad(f"statement {ast.unparse(s)!r}")

    def assign(self, tgt: ast.expr, v, st: St) -> St:
        if isinstance(tgt, ast.Name):
            return st.bind(tgt.id, v)
        if self.init_mode and isinstance(tgt, ast.Attribute) and isinstance(tgt.value, ast.Name) \
                and st.env.get(tgt.value.id, (None,))[0] == "self":
            return st.bind("self." + tgt.attr, v)
        if isinstance(tgt, (ast.Tuple, ast.List)) and v[0] == "tuple" and len(tgt.elts) == len(v[1]):
            for t, w in zip(tgt.elts, v[1]):
                st = self.assign(t, w, st)
            return st
        self.bad(f"assignment target {ast.unparse(tgt)!r}")


def _atoms(node, bound: frozenset = frozenset()) -> set[str]:
    """Atoms of the tests in `node` that do not mention a temporary bound inside `node`."""
    if node[0] == "ret":
        return set()
    if node[0] == "let":
        return _atoms(node[4], bound | {node[1]})
    out = _atoms(node[2], bound) | _atoms(node[3], bound)
    if not any(t in node[1].replace("(", " ").replace(")", " ").split() for t in bound):
        out.add(node[1])
    return out


def _restrict(node, atom: str, val: bool):
    if node[0] == "ret":
        return node
    if node[0] == "let":
        return ("let", node[1], node[2], node[3], _restrict(node[4], atom, val))
    if node[1] == atom:
        return _restrict(node[2] if val else node[3], atom, val)
    a, b = _restrict(node[2], atom, val), _restrict(node[3], atom, val)
    return a if a == b else ("if", node[1], a, b)


def _subst_nan(node, ident: str):
    """On a path where `isnan <ident>` holds, <ident> IS NaN (`V = Option Rat`: `isnan x` iff `x = none = PyF.nan`; in
    Python every NaN behaves alike): `return rhs` and `return math.nan` are the same leaf."""
    import re
    pat = re.compile(rf"(?<![\w.]){re.escape(ident)}(?![\w.])")
    if node[0] == "ret":
        return ("ret", pat.sub("PyF.nan", node[1]))
    if node[0] == "let":
        return ("let", node[1], pat.sub("PyF.nan", node[2]), pat.sub("PyF.nan", node[3]), _subst_nan(node[4], ident))
    atom = pat.sub("PyF.nan", node[1])
    if atom == "(PyF.isnan PyF.nan)":
        return _subst_nan(node[2], ident)
    a, b = _subst_nan(node[2], ident), _subst_nan(node[3], ident)
    return a if a == b else ("if", atom, a, b)


def canon(node):
    """Reduced ORDERED decision tree: tests in a fixed (textual) order, equal branches merged.  Tests are pure, so
    moving them does not move the `let t <- PyF.div ..` effects: for every input the same divisions are executed in the
    same order as on the path Python takes.  `a or b` / `b or a` / `not (not a and not b)` / guard clauses all meet."""
    if node[0] == "ret":
        return node
    if node[0] == "let":
        return ("let", node[1], node[2], node[3], canon(node[4]))
    atom = min(_atoms(node))
    a, b = _restrict(node, atom, True), _restrict(node, atom, False)
    if atom.startswith("(PyF.isnan ") and atom[len("(PyF.isnan "):-1].isidentifier():
        a = _subst_nan(a, atom[len("(PyF.isnan "):-1])
    a, b = canon(a), canon(b)
    return a if a == b else ("if", atom, a, b)


def _emit_m(node, ind: str) -> list[str]:
    """A decision tree as the lines of a Lean `do` block of type `M V`."""
    if node[0] == "ret":
        return [f"{ind}pure {node[1]}"]
    if node[0] == "let":
        return [f"{ind}let {node[1]} ← PyF.div {node[2]} {node[3]}"] + _emit_m(node[4], ind)
    _, atom, a, b = node
    la, lb = _emit_m(a, ind + "    "), _emit_m(b, ind + "    ")
    la[-1] += ")"
    lb[-1] += ")"
    return [f"{ind}if {atom} then (do"] + la + [f"{ind}else (do"] + lb


def translate_step(mod: Module, cname: str, arity: int) -> str:
    what = f"{cname}.apply"
    m = mod.method(cname, "apply")
    if m is None:
        raise Unsupported(f"{what} not found")
    fn = m[0]
    if isinstance(fn, ast.AsyncFunctionDef) or _is_static(fn) or _is_classmethod(fn):
        raise Unsupported(f"{what}: not a plain method")
    # the value popped first was pushed last: it is the SECOND operand
    params = ["val1", "val2"] if arity == 2 else ["val"]
    sx = Sx(mod, cname, what, operand_names=list(reversed(params)))
    env = _bind_params(fn, [("self",), ("stack",)], {}, what)

    def finish(st: St):
        if st.npop != arity:
            sx.bad(f"pops {st.npop} values on some path, expected {arity}")
        if len(st.pushed) != 1:
            sx.bad(f"pushes {len(st.pushed)} values on some path, expected 1")
        return ("ret", st.pushed[0])

    tree = sx.exec(_strip_doc(fn.body), St(env), finish, lambda _v, st: finish(st))
    kind = "bin" if arity == 2 else "un"
    head = f"def Extracted.Formula.{kind}{cname} " + " ".join(f"({p} : V)" for p in params) + " : M V := do"
    return head + "\n" + "\n".join(_emit_m(canon(tree), "  ")) + "\n"


def translate_clipper(mod: Module) -> str:
    """`Clipper`: `__init__(self, <lo>, <hi>)` (two Optional[float] bounds, by position) is run to see which instance
    attributes hold them; then `apply` is translated like the other unary steps, with tests `<attr> is [not] None`
    as atoms `lo.isSome` / `hi.isSome` (a bound can only be used as a float where it is known not to be None)."""
    cname = "Clipper"
    mod.cls(cname)
    init = mod.method(cname, "__init__")
    if init is None or isinstance(init[0], ast.AsyncFunctionDef):
        raise Unsupported("Clipper.__init__ not found")
    sx = Sx(mod, cname, "Clipper.__init__")
    sx.init_mode = True
    env = _bind_params(init[0], [("self",), ("opt", "lo"), ("opt", "hi")], {}, "Clipper.__init__")
    finals: list[St] = []

    def done(st: St):
        finals.append(st)
        return ("ret", str(sorted((k, v) for k, v in st.env.items() if k.startswith("self."))))

    tree = sx.exec(_strip_doc(init[0].body), St(env), done, lambda _v, st: done(st))
    if tree[0] != "ret" or not finals:
        raise Unsupported("Clipper.__init__: the attributes depend on a test")
    attrs = {k[5:]: v for k, v in finals[0].env.items() if k.startswith("self.")}
    if sorted(v for v in attrs.values() if v[0] == "opt") != [("opt", "hi"), ("opt", "lo")] or \
            any(v[0] not in ("opt", "f", "none", "b") for v in attrs.values()):
        raise Unsupported(f"Clipper.__init__: attributes {attrs}")

    what = "Clipper.apply"
    m = mod.method(cname, "apply")
    if m is None or isinstance(m[0], ast.AsyncFunctionDef) or _is_static(m[0]) or _is_classmethod(m[0]):
        raise Unsupported(f"{what} not found")
    sx = Sx(mod, cname, what, operand_names=["val"])
    sx.inst_attrs = attrs
    env = _bind_params(m[0], [("self",), ("stack",)], {}, what)

    def finish(st: St):
        if st.npop != 1 or len(st.pushed) != 1:
            sx.bad(f"pops {st.npop} / pushes {len(st.pushed)} values on some path, expected 1 / 1")
        return ("ret", st.pushed[0])

    tree = sx.exec(_strip_doc(m[0].body), St(env), finish, lambda _v, st: finish(st))
    head = "def Extracted.Formula.unClipper (lo hi : Option Rat) (val : V) : M V := do"
    return head + "\n" + "\n".join(_emit_m(canon(tree), "  ")) + "\n"


# ---------------------------------------------------------------- the final test of FormulaEvaluator.apply
class FinalSx(Sx):
    """The part of `FormulaEvaluator.apply` after the result was popped: `res` is a float of class finite | nan | inf,
    only classified (no arithmetic); `Sample(ts, v)` is the answer, `self.<attribute>(res)` the created quantity."""
    PRIMS = {"math.isnan": "PyF.isnanC", "math.isinf": "PyF.isinfC", "math.isfinite": "PyF.isfiniteC"}

    def global_name(self, dotted: str, src: ast.AST):
        if dotted in self.PRIMS:
            return ("prim", dotted)
        if dotted.split(".")[-1] == "Sample":
            return ("prim", "Sample")
        self.bad(f"name {ast.unparse(src)!r}")

    def unknown_self_attr(self, attr: str, st: St, k, src: ast.AST):
        return k(("prim", "self." + attr), st)      # an instance attribute (the create method)

    def prim(self, name: str, args: list, kwargs: dict, st: St, k, src: ast.AST):
        if name == "Sample":
            vs = args + [kwargs[x] for x in ("timestamp", "value") if x in kwargs]
            if len(vs) != 2 or set(kwargs) - {"timestamp", "value"} or vs[1][0] not in ("none", "created"):
                self.bad(f"sample {ast.unparse(src)!r}")
            return k(("sample", vs[1]), st)
        if name.startswith("self.") and not kwargs and len(args) == 1 and args[0] == ("f", "res"):
            return k(("created",), st)
        if name in self.PRIMS and not kwargs and len(args) == 1 and args[0] == ("f", "res"):
            return super().prim(name, args, kwargs, st, k, src)
        self.bad(f"call {ast.unparse(src)!r}")

    def binop(self, op, a, b, st, k, src):
        self.bad(f"arithmetic on the result: {ast.unparse(src)!r}")

    def call(self, e: ast.Call, st: St, k):
        f = e.func
        if isinstance(f, ast.Attribute) and isinstance(f.value, ast.Name) and st.env.get(f.value.id, (None,))[0] == "resstack":
            if f.attr == "pop" and not e.keywords and (not e.args or ast.unparse(e.args[0]) in ("-1", "0")):
                if ("LEN1", True) not in st.facts:
                    self.bad("the result is popped where the stack size is not known to be 1")
                if st.npop:
                    self.bad("the stack is popped twice")
                return k(("f", "res"), st.but(npop=1))
            self.bad(f"stack operation {ast.unparse(e)!r}")
        if isinstance(f, ast.Name) and f.id == "len" and "len" not in st.env and len(e.args) == 1 and not e.keywords \
                and isinstance(e.args[0], ast.Name) and st.env.get(e.args[0].id, (None,))[0] == "resstack":
            if st.npop:
                self.bad("the stack size is read after the pop")
            return k(("len",), st)
        return super().call(e, st, k)

    def exec(self, stmts, st, k_next, k_ret):
        if stmts and isinstance(stmts[0], ast.Raise):
            return ("ret", "raise")
        return super().exec(stmts, st, k_next, k_ret)

    def compare(self, op, a, b, st, kt, kf, src):
        if op in (ast.Is, ast.IsNot):
            return super().compare(op, a, b, st, kt, kf, src)
        one = ("f", self.lit(1))
        if op in (ast.Eq, ast.NotEq) and sorted([a, b]) == sorted([("len",), one]):
            return self.mk_if("LEN1", st, *((kt, kf) if op is ast.Eq else (kf, kt)))
        self.bad(f"comparison {ast.unparse(src)!r}")

    def truth(self, v, st, kt, kf, src):
        if v[0] == "f":
            self.bad(f"truth value of {ast.unparse(src)!r}")
        return super().truth(v, st, kt, kf, src)

    def eval(self, e: ast.expr, st: St, k):
        if isinstance(e, ast.Name) and e.id not in st.env and e.id not in self.mod.functions \
                and e.id not in self.mod.imports and e.id not in self.mod.consts:
            return k(("opaque",), st)      # a local computed before the pop (the timestamp)
        if isinstance(e, ast.Subscript):
            return self.eval(e.value, st, k)     # Sample[QuantityT](...)
        return super().eval(e, st, k)


_CLASSES = {"nan": {"(PyF.isnanC res)": True, "(PyF.isinfC res)": False, "(PyF.isfiniteC res)": False},
            "inf": {"(PyF.isnanC res)": False, "(PyF.isinfC res)": True, "(PyF.isfiniteC res)": False},
            "finite": {"(PyF.isnanC res)": False, "(PyF.isinfC res)": False, "(PyF.isfiniteC res)": True}}


def _at_class(node, cls: str) -> str:
    while node[0] != "ret":
        if node[0] != "if" or node[1] not in _CLASSES[cls]:
            raise Unsupported(f"final test: unexpected node {node[:2]}")
        node = node[2] if _CLASSES[cls][node[1]] else node[3]
    return node[1]


def final_test(evaluator_src: str) -> str:
    """What `FormulaEvaluator.apply` does once the steps have run (`for <step> in ...: <step>.apply(<stack>)`): the
    statements after that loop are executed symbolically (helpers inlined) with the evaluation stack as an abstract
    value: `len(<stack>)` may only be compared with 1 (atom LEN1), `<stack>.pop()` is the result `res` and is allowed
    once, on a path where the length is known to be 1.  Every path with length != 1 must raise (that, and the loop, are
    modelled by hand in `Shunting.run`); for length 1 the answer is a `Sample` whose value is None or `<create>(res)`."""
    mod = Module(evaluator_src)
    m = mod.method("FormulaEvaluator", "apply")
    if m is None or not isinstance(m[0], ast.AsyncFunctionDef):
        raise Unsupported("FormulaEvaluator.apply not found")
    body = _strip_doc(m[0].body)

    def apply_calls(node) -> set[str]:
        return {ast.unparse(n.args[0]) for n in ast.walk(node) if isinstance(n, ast.Call) and isinstance(n.func, ast.Attribute)
                and n.func.attr == "apply" and len(n.args) == 1 and not n.keywords and isinstance(n.args[0], ast.Name)}

    stacks = apply_calls(m[0])
    if len(stacks) != 1:
        raise Unsupported("FormulaEvaluator.apply: no unique evaluation stack (`<step>.apply(<stack>)`)")
    stack = stacks.pop()
    loops = [k for k, st in enumerate(body) if isinstance(st, ast.For) and apply_calls(st)]
    if len(loops) != 1 or any(apply_calls(st) for k, st in enumerate(body) if k != loops[0]):
        raise Unsupported("FormulaEvaluator.apply: the loop applying the steps is not a top-level `for`")
    idx = loops[0]
    sx = FinalSx(mod, "FormulaEvaluator", "FormulaEvaluator.apply")

    def ret(v, _st):
        if v[0] != "sample":
            sx.bad("returns something that is not a Sample")
        return ("ret", "true" if v[1][0] == "none" else "false")

    def fall(_st):
        sx.bad("a path without return")

    tree = sx.exec(body[idx + 1:], St({m[0].args.args[0].arg: ("self",), stack: ("resstack",)}), fall, ret)
    if "LEN1" not in _atoms(tree):
        raise Unsupported("FormulaEvaluator.apply: the size of the evaluation stack is not tested against 1")
    if _restrict(tree, "LEN1", False) != ("ret", "raise"):
        raise Unsupported("FormulaEvaluator.apply: a stack of size != 1 does not always raise")
    tree = _restrict(tree, "LEN1", True)
    vals = {c: _at_class(tree, c) for c in _CLASSES}
    if any(v not in ("true", "false") for v in vals.values()):
        raise Unsupported(f"FormulaEvaluator.apply: outcomes {vals}")
    return ("/-- The final test of `FormulaEvaluator.apply`: is the result replaced by `None`? -/\n"
            f"def Extracted.Formula.resultIsNone (res : FloatClass) : Bool := (if (PyF.isnanC res) then {vals['nan']} "
            f"else (if (PyF.isinfC res) then {vals['inf']} else {vals['finite']}))\n")


# ================================================================ Pe: partial evaluation with Unknown
class _U:
    def __repr__(self) -> str:
        return "Unknown"


U = _U()


class Sym:
    """An opaque but identifiable value: `TokenType.OPER`, a class, an instance of a class, a call."""

    def __init__(self, kind: str, name: str, args: tuple = ()) -> None:
        self.kind, self.name, self.args = kind, name, args

    def key(self):
        return (self.kind, self.name, tuple(a.key() if isinstance(a, Sym) else repr(a) for a in self.args))

    def __eq__(self, o) -> bool:
        return isinstance(o, Sym) and self.key() == o.key()

    def __hash__(self) -> int:
        return hash(self.key())

    def __repr__(self) -> str:
        return f"{self.kind}:{self.name}{list(self.args) if self.args else ''}"


class Fn:
    def __init__(self, node, owner: str | None) -> None:
        self.node, self.owner = node, owner


_CONCRETE = (str, int, float, bool, type(None), tuple, frozenset)


def _known(v) -> bool:
    return isinstance(v, _CONCRETE) or isinstance(v, (dict, Sym, Fn))


class Pe:
    """Outcomes of `run`: list of (kind, value, env, effects) with kind in next | return | break | continue | raise."""
    MAX_DEPTH = 8

    def __init__(self, mod: Module, cname: str, what: str, classes: set[str], inline_self: bool) -> None:
        self.mod, self.cname, self.what, self.classes, self.inline_self = mod, cname, what, classes, inline_self
        self.depth = 0

    def bad(self, msg: str):
        raise Unsupported(f"{self.what}: {msg}")

    def effect(self, call: ast.Call, func_src: str, args: list):  # overridden: record interesting calls
        return None

    def field_order(self, cname: str) -> list[str] | None:
        """Parameter names of `cname(...)` for a class of this module: `__init__`'s, else the dataclass fields."""
        if cname not in self.mod.classes:
            return None
        init = self.mod.method(cname, "__init__")
        if init is not None:
            a = init[0].args
            return None if (a.vararg or a.kwarg) else [x.arg for x in a.posonlyargs + a.args][1:] + [x.arg for x in a.kwonlyargs]
        c = self.mod.classes[cname]
        if not any("dataclass" in ast.unparse(d) for d in c.decorator_list):
            return None
        return [n.target.id for n in c.body if isinstance(n, ast.AnnAssign) and isinstance(n.target, ast.Name)]

    def opaque(self, src: ast.expr):  # overridden: value of a call / subscript this interpreter knows nothing about
        return U

    def store_effect(self, tgt: ast.expr):  # overridden: record interesting stores
        return None

    def stored(self, tgts: list, eff: tuple) -> tuple:
        for t in tgts:
            new = self.store_effect(t)
            if new is not None:
                eff = eff + (new,)
        return eff

    # ------------------------------------------------------------ expressions: list of (value, env, effects)
    def eval(self, e: ast.expr, env: dict, eff: tuple) -> list:
        if isinstance(e, ast.Constant):
            return [(e.value, env, eff)]
        if isinstance(e, ast.Name):
            if e.id in env:
                return [(env[e.id], env, eff)]
            if e.id in self.classes:
                return [(Sym("class", e.id), env, eff)]
            if e.id in self.mod.consts and e.id not in self.mod.functions:
                return [(v, env, eff) for v, _e, _f in self.eval(self.mod.consts[e.id], {}, eff)]
            if e.id in self.mod.functions:
                return [(Fn(self.mod.functions[e.id], None), env, eff)]
            return [(Sym("name", self.mod.imports.get(e.id, e.id)), env, eff)]
        if isinstance(e, ast.Attribute):
            if isinstance(e.value, ast.Name) and (env.get(e.value.id) is SELF or e.value.id == self.cname and e.value.id not in env):
                m = self.mod.method(self.cname, e.attr)
                if m is not None:
                    return [(Fn(m[0], self.cname) if self.inline_self else U, env, eff)]
                c = self.mod.class_const(self.cname, e.attr)
                if c is not None:
                    return [(v, env, eff) for v, _e, _f in self.eval(c, {}, eff)]
                return [(U, env, eff)]
            d = self.mod.dotted(e)
            if d is not None and isinstance(e.value, ast.Name) and e.value.id not in env:
                return [(Sym("name", d), env, eff)]
            return [(U, e2, f2) for _v, e2, f2 in self.eval(e.value, env, eff)]
        if isinstance(e, (ast.Tuple, ast.List, ast.Set)):
            out = []
            for vs, e2, f2 in self.eval_list(list(e.elts), env, eff):
                if all(isinstance(v, _CONCRETE) for v in vs):
                    out.append((frozenset(vs) if isinstance(e, ast.Set) else tuple(vs), e2, f2))
                else:
                    out.append((tuple(vs) if all(_known(v) for v in vs) and not isinstance(e, ast.Set) else U, e2, f2))
            return out
        if isinstance(e, ast.Dict):
            if any(k is None for k in e.keys):
                return [(U, env, eff)]
            out = []
            for vs, e2, f2 in self.eval_list(list(e.keys) + list(e.values), env, eff):
                ks, ws = vs[:len(e.keys)], vs[len(e.keys):]
                out.append((dict(zip(ks, ws)) if all(isinstance(k, (str, int)) for k in ks) else U, e2, f2))
            return out
        if isinstance(e, ast.NamedExpr) and isinstance(e.target, ast.Name):
            return [(v, {**e2, e.target.id: v}, f2) for v, e2, f2 in self.eval(e.value, env, eff)]
        if isinstance(e, ast.UnaryOp) and isinstance(e.op, ast.Not):
            return [(U if (t := self.truth(v)) is U else (not t), e2, f2) for v, e2, f2 in self.eval(e.operand, env, eff)]
        if isinstance(e, ast.BoolOp):
            return self.boolop(e, env, eff)
        if isinstance(e, ast.Compare):
            return self.compare(e, env, eff)
        if isinstance(e, ast.IfExp):
            out = []
            for t, e2, f2 in self.eval(e.test, env, eff):
                tv = self.truth(t)
                if tv is U or tv:
                    out += self.eval(e.body, e2, f2)
                if tv is U or not tv:
                    out += self.eval(e.orelse, e2, f2)
            return out
        if isinstance(e, ast.Subscript):
            out = []
            for vs, e2, f2 in self.eval_list([e.value, e.slice], env, eff):
                c, i = vs
                if isinstance(c, dict) and isinstance(i, (str, int)):
                    out.append((c[i], e2, f2) if i in c else ("__raise__", "KeyError", e2, f2))
                else:
                    out.append((self.opaque(e), e2, f2))
            return self.split_raises(out)
        if isinstance(e, ast.Call):
            return self.call(e, env, eff)
        if isinstance(e, ast.Lambda):
            return [(Fn(e, None), env, eff)]
        if isinstance(e, ast.Await):
            return [(U, e2, f2) for _v, e2, f2 in self.eval(e.value, env, eff)]
        if isinstance(e, (ast.JoinedStr, ast.BinOp, ast.UnaryOp, ast.ListComp, ast.GeneratorExp, ast.SetComp, ast.DictComp, ast.Starred)):
            return [(U, env, eff)]
        self.bad(f"expression {ast.unparse(e)!r}")

    class Raised(Exception):
        def __init__(self, outcomes):
            self.outcomes = outcomes

    def split_raises(self, out: list) -> list:
        """Expression-level raises are turned into statement-level outcomes by `run` (via the exception)."""
        bad = [o for o in out if o[0] == "__raise__"]
        if bad:
            raise Pe.Raised((bad, [o for o in out if o[0] != "__raise__"]))
        return out

    def eval_list(self, es: list[ast.expr], env: dict, eff: tuple) -> list:
        outs = [((), env, eff)]
        for x in es:
            nxt = []
            for vs, e2, f2 in outs:
                for v, e3, f3 in self.eval(x, e2, f2):
                    nxt.append((vs + (v,), e3, f3))
            outs = nxt
        return [(list(vs), e2, f2) for vs, e2, f2 in outs]

    @staticmethod
    def truth(v):
        if v is U:
            return U
        if isinstance(v, (Sym, Fn)):
            return True if not isinstance(v, Sym) or v.kind in ("class", "inst") else U
        if isinstance(v, dict):
            return bool(v)
        return bool(v)

    def boolop(self, e: ast.BoolOp, env: dict, eff: tuple) -> list:
        """Three-valued short-circuit evaluation.  The exact value is returned while every operand so far had a known
        truth value; after an operand of unknown truth only the truth value of the whole is tracked."""
        is_and = isinstance(e.op, ast.And)
        outs = []

        def go(i: int, env: dict, eff: tuple, unk: bool) -> None:
            for v, e2, f2 in self.eval(e.values[i], env, eff):
                t = self.truth(v)
                if t is not U and t != is_and:      # a false operand of `and` / a true one of `or` decides the whole
                    outs.append((v if not unk else (not is_and), e2, f2))
                elif i == len(e.values) - 1:
                    outs.append((U if (unk or t is U) else v, e2, f2))
                else:
                    go(i + 1, e2, f2, unk or t is U)

        go(0, env, eff, False)
        return outs

    def compare(self, e: ast.Compare, env: dict, eff: tuple) -> list:
        if len(e.ops) != 1:
            return [(U, env, eff)]
        out = []
        for vs, e2, f2 in self.eval_list([e.left, e.comparators[0]], env, eff):
            a, b = vs
            op = e.ops[0]
            r = U
            if isinstance(op, (ast.Is, ast.IsNot)):
                if a is not U and b is not U and (a is None or b is None):
                    r = (a is None and b is None) == isinstance(op, ast.Is)
            elif a is U or b is U or isinstance(a, Fn) or isinstance(b, Fn):
                r = U
            elif isinstance(op, (ast.Eq, ast.NotEq)):
                if isinstance(a, Sym) and a.kind in ("call",) or isinstance(b, Sym) and b.kind in ("call",):
                    r = U
                else:
                    r = (a == b) == isinstance(op, ast.Eq)
            elif isinstance(op, (ast.In, ast.NotIn)):
                if isinstance(b, (tuple, frozenset, str, dict)) and isinstance(a, _CONCRETE) and \
                        not (isinstance(b, str) and not isinstance(a, str)):
                    r = (a in b) == isinstance(op, ast.In)
            out.append((r, e2, f2))
        return out

    # ------------------------------------------------------------ calls
    def call(self, e: ast.Call, env: dict, eff: tuple) -> list:
        if any(kw.arg is None for kw in e.keywords) or any(isinstance(a, ast.Starred) for a in e.args):
            return [(U, env, eff)]
        out = []
        f = e.func
        recv_outs = [(None, env, eff)]
        if isinstance(f, ast.Attribute) and not (isinstance(f.value, ast.Name) and f.value.id not in env):
            recv_outs = self.eval(f.value, env, eff)
        elif isinstance(f, ast.Attribute) and isinstance(f.value, ast.Name) and f.value.id in self.mod.consts:
            recv_outs = self.eval(f.value, env, eff)
        for recv, e1, f1 in recv_outs:
            if isinstance(f, ast.Attribute) and recv is SELF:
                fouts = self.eval(f, e1, f1)
            elif isinstance(f, ast.Attribute) and recv is not None:
                fouts = [(("method", recv, f.attr), e1, f1)]
            else:
                fouts = self.eval(f, e1, f1)
            for fv, e2, f2 in fouts:
                for vs, e3, f3 in self.eval_list(list(e.args) + [kw.value for kw in e.keywords], e2, f2):
                    args, kwargs = vs[:len(e.args)], dict(zip([kw.arg for kw in e.keywords], vs[len(e.args):]))
                    out += self.apply(fv, args, kwargs, e3, f3, e)
        return self.split_raises(out)

    def apply(self, fv, args: list, kwargs: dict, env: dict, eff: tuple, src: ast.Call) -> list:
        if isinstance(fv, tuple) and fv and fv[0] == "method":
            _, recv, attr = fv
            if isinstance(recv, dict):
                if attr == "get" and not kwargs and 1 <= len(args) <= 2 and isinstance(args[0], (str, int)):
                    return [(recv.get(args[0], args[1] if len(args) == 2 else None), env, eff)]
                return [(U, env, eff)]
            if isinstance(recv, str) and not kwargs and all(isinstance(a, _CONCRETE) for a in args) and \
                    attr in ("isspace", "isdigit", "isalpha", "isalnum", "isdecimal", "isnumeric", "strip", "lower", "upper"):
                return [(getattr(recv, attr)(*args), env, eff)]
            new = self.effect(src, ast.unparse(src.func), args)
            return [(self.opaque(src), env, eff + ((new,) if new is not None else ()))]
        if isinstance(fv, Sym) and fv.kind == "class" and not args and not kwargs:
            return [(Sym("inst", fv.name), env, eff)]
        if isinstance(fv, Sym) and fv.kind == "name" and fv.name == "repr":
            return [(U, env, eff)]
        if isinstance(fv, Sym) and fv.kind in ("name", "class") and kwargs:
            order = self.field_order(fv.name)
            if order is None or set(kwargs) - set(order) or set(order[:len(args)]) & set(kwargs) \
                    or sorted(order[len(args):][:len(kwargs)]) != sorted(kwargs):
                return [(U, env, eff)]
            args, kwargs = list(args) + [kwargs[k] for k in order[len(args):len(args) + len(kwargs)]], {}
        if isinstance(fv, Sym) and fv.kind in ("name", "class"):
            if all(_known(a) for a in args) and not kwargs:
                return [(Sym("call", fv.name, tuple(a if not isinstance(a, (dict, Fn)) else U for a in args)), env, eff)]
            return [(Sym("call", fv.name, tuple(a if isinstance(a, (Sym,) + _CONCRETE) else U for a in args)), env, eff)]
        if isinstance(fv, Fn):
            fn = fv.node
            if self.depth >= self.MAX_DEPTH:
                self.bad("helper calls nested too deeply (recursion?)")
            what = f"{self.what}: helper {getattr(fn, 'name', '<lambda>')}"
            if isinstance(fn, ast.Lambda):
                penv = _bind_params(fn, args, kwargs, what)
                penv = {k: (self.eval(v[1], {}, ())[0][0] if isinstance(v, tuple) and v and v[0] == "default" else v) for k, v in penv.items()}
                return [(v, env, f2) for v, _e, f2 in self.eval(fn.body, penv, eff)]
            if fv.owner is not None and not _is_static(fn):
                args = [SELF] + args
            penv = _bind_params(fn, args, kwargs, what)
            penv = {k: (self.eval(v[1], {}, ())[0][0] if isinstance(v, tuple) and v and v[0] == "default" else v) for k, v in penv.items()}
            self.depth += 1
            try:
                outs = self.run(_strip_doc(fn.body), penv, eff)
            finally:
                self.depth -= 1
            res = []
            for kind, v, _e, f2 in outs:
                if kind in ("next", "return"):
                    res.append((v if kind == "return" else None, env, f2))
                elif kind == "raise":
                    res.append(("__raise__", v, env, f2))
                else:
                    self.bad("break/continue outside a loop")
            return res
        return [(U, env, eff)]

    # ------------------------------------------------------------ statements
    def run(self, stmts: list[ast.stmt], env: dict, eff: tuple) -> list:
        if not stmts:
            return [("next", None, env, eff)]
        s, rest = stmts[0], stmts[1:]
        try:
            outs = self.step(s, env, eff)
        except Pe.Raised as r:
            bad, _good = r.outcomes
            # an expression of this statement raises on some path: those paths end here (the others are re-run is
            # not possible without re-evaluating, so a statement that both raises and continues is refused)
            if _good:
                self.bad(f"{ast.unparse(s)[:60]!r} raises on some paths only")
            return [("raise", b[1], b[2], b[3]) for b in bad]
        res = []
        for kind, v, e2, f2 in outs:
            if kind == "next":
                res += self.run(rest, e2, f2)
            else:
                res.append((kind, v, e2, f2))
        return res

    @staticmethod
    def assigned_names(stmts: list[ast.stmt]) -> set[str]:
        out = set()
        for s in stmts:
            for n in ast.walk(s):
                if isinstance(n, ast.Name) and isinstance(n.ctx, ast.Store):
                    out.add(n.id)
        return out

    def bind(self, tgt: ast.expr, v, env: dict) -> dict:
        if isinstance(tgt, ast.Name):
            return {**env, tgt.id: v}
        if isinstance(tgt, (ast.Tuple, ast.List)):
            if isinstance(v, tuple) and len(v) == len(tgt.elts):
                for t, w in zip(tgt.elts, v):
                    env = self.bind(t, w, env)
                return env
            for t in tgt.elts:
                env = self.bind(t, U, env)
            return env
        return env      # attribute / subscript stores: not tracked (reads of self attributes are Unknown anyway)

    def raised(self, exc: ast.expr, env: dict, eff: tuple) -> list:
        """Class name of the exception `raise <exc>` raises: `X(...)`, `X`, or what a helper of the class / module
        (inlined here even where self-methods are otherwise opaque) returns — `raise self._make_error(...)`."""
        outs = []
        if isinstance(exc, ast.Call) and isinstance(exc.func, ast.Attribute) and isinstance(exc.func.value, ast.Name) \
                and env.get(exc.func.value.id) is SELF and self.mod.method(self.cname, exc.func.attr) is not None \
                and not any(kw.arg is None for kw in exc.keywords) and not any(isinstance(a, ast.Starred) for a in exc.args):
            fn = Fn(self.mod.method(self.cname, exc.func.attr)[0], self.cname)
            for vs, e2, f2 in self.eval_list(list(exc.args) + [kw.value for kw in exc.keywords], env, eff):
                args, kwargs = vs[:len(exc.args)], dict(zip([kw.arg for kw in exc.keywords], vs[len(exc.args):]))
                outs += self.apply(fn, args, kwargs, e2, f2, exc)
        else:
            outs = self.eval(exc, env, eff)
        res = []
        for o in outs:
            if o[0] == "__raise__":
                res.append((o[1], o[2], o[3]))
                continue
            v, e2, f2 = o
            if isinstance(v, Sym) and v.kind in ("call", "name", "class", "inst"):
                res.append((v.name, e2, f2))
            else:
                res.append((ast.unparse(exc.func if isinstance(exc, ast.Call) else exc), e2, f2))
        return res

    def step(self, s: ast.stmt, env: dict, eff: tuple) -> list:
        if isinstance(s, (ast.Pass, ast.Global, ast.Nonlocal)):
            return [("next", None, env, eff)]
        if isinstance(s, ast.Expr):
            return [("next", None, e2, f2) for _v, e2, f2 in self.eval(s.value, env, eff)]
        if isinstance(s, ast.Assign):
            out = []
            for v, e2, f2 in self.eval(s.value, env, eff):
                for t in s.targets:
                    e2 = self.bind(t, v, e2)
                out.append(("next", None, e2, self.stored(s.targets, f2)))
            return out
        if isinstance(s, ast.AnnAssign):
            if s.value is None:
                return [("next", None, env, eff)]
            return [("next", None, self.bind(s.target, v, e2), self.stored([s.target], f2))
                    for v, e2, f2 in self.eval(s.value, env, eff)]
        if isinstance(s, ast.AugAssign):
            return [("next", None, self.bind(s.target, U, e2), self.stored([s.target], f2))
                    for _v, e2, f2 in self.eval(s.value, env, eff)]
        if isinstance(s, ast.Assert):
            return [("next", None, env, eff)]
        if isinstance(s, ast.Return):
            if s.value is None:
                return [("return", None, env, eff)]
            return [("return", v, e2, f2) for v, e2, f2 in self.eval(s.value, env, eff)]
        if isinstance(s, ast.Raise):
            if s.exc is None:
                return [("raise", "?", env, eff)]
            return [("raise", name, e2, f2) for name, e2, f2 in self.raised(s.exc, env, eff)]
        if isinstance(s, ast.Break):
            return [("break", None, env, eff)]
        if isinstance(s, ast.Continue):
            return [("continue", None, env, eff)]
        if isinstance(s, ast.If):
            out = []
            for t, e2, f2 in self.eval(s.test, env, eff):
                tv = self.truth(t)
                if tv is U or tv:
                    out += self.run(s.body, e2, f2)
                if tv is U or not tv:
                    out += self.run(s.orelse, e2, f2)
            return out
        if isinstance(s, ast.Match):
            return self.match(s, env, eff)
        if isinstance(s, (ast.While, ast.For, ast.AsyncFor)):
            # zero iterations, or one iteration with everything the loop assigns unknown (enough to see what a loop
            # body can push / return; nothing here depends on how often it runs)
            havoc = {n: U for n in self.assigned_names([s])}
            out = []
            if isinstance(s, ast.While):
                tests = self.eval(s.test, env, eff)
            else:
                tests = [(U, e2, f2) for _v, e2, f2 in self.eval(s.iter, env, eff)]
            for t, e2, f2 in tests:
                tv = self.truth(t)
                if tv is U or not tv:
                    out += self.run(s.orelse, e2, f2)
                if tv is U or tv:
                    for kind, v, e3, f3 in self.run(s.body, {**e2, **havoc}, f2):
                        if kind in ("next", "continue", "break"):
                            out.append(("next", None, {**e3, **havoc}, f3))
                        else:
                            out.append((kind, v, e3, f3))
            return out
        self.bad(f"statement {ast.unparse(s)[:60]!r}")

    def match(self, s: ast.Match, env: dict, eff: tuple) -> list:
        out = []
        for subj, e2, f2 in self.eval(s.subject, env, eff):
            pending = [(e2, f2)]
            for case in s.cases:
                nxt = []
                for e3, f3 in pending:
                    m, e4 = self.pattern(case.pattern, subj, e3)
                    if m is False:
                        nxt.append((e3, f3))
                        continue
                    guards = [(True, e4, f3)] if case.guard is None else \
                        [(self.truth(g), e5, f5) for g, e5, f5 in self.eval(case.guard, e4, f3)]
                    for g, e5, f5 in guards:
                        if m is U or g is U:
                            out += self.run(case.body, e5, f5)
                            nxt.append((e3, f5))
                        elif g:
                            out += self.run(case.body, e5, f5)
                        else:
                            nxt.append((e3, f5))
                pending = nxt
            out += [("next", None, e3, f3) for e3, f3 in pending]
        return out

    def pattern(self, p: ast.pattern, subj, env: dict):
        """(True | False | U, env with captures)"""
        if isinstance(p, ast.MatchAs):
            if p.pattern is None:
                return True, ({**env, p.name: subj} if p.name else env)
            m, e2 = self.pattern(p.pattern, subj, env)
            return m, ({**e2, p.name: subj} if p.name else e2)
        if isinstance(p, ast.MatchOr):
            res = False
            for q in p.patterns:
                m, _ = self.pattern(q, subj, env)
                if m is True:
                    return True, env
                if m is U:
                    res = U
            return res, env
        if isinstance(p, (ast.MatchValue, ast.MatchSingleton)):
            v = p.value if isinstance(p, ast.MatchSingleton) else self.eval(p.value, {}, ())[0][0]
            if subj is U or v is U or isinstance(subj, Sym) and subj.kind == "call":
                return U, env
            return subj == v, env
        return U, env


SELF = Sym("self", "self")


# ---------------------------------------------------------------- precedence table, repr, push_oper
def precedence(engine: Module) -> dict[str, int]:
    """The module-level dict literal over exactly the ten operator strings that `FormulaBuilder` indexes."""
    found = []
    for name, v in engine.consts.items():
        if isinstance(v, ast.Dict) and v.keys and all(isinstance(k, ast.Constant) and isinstance(k.value, str) for k in v.keys) \
                and {k.value for k in v.keys} == set(OPS) and len(v.keys) == len(OPS) \
                and all(isinstance(x, ast.Constant) for x in v.values):
            found.append((name, v))
    if len(found) != 1:
        raise Unsupported(f"operator precedence table: {len(found)} dict literals over the ten operator strings")
    name, v = found[0]
    builder = engine.cls("FormulaBuilder")
    if not any(isinstance(n, ast.Subscript) and isinstance(n.value, ast.Name) and n.value.id == name for n in ast.walk(builder)):
        raise Unsupported(f"{name} is not indexed by FormulaBuilder")
    tab = {}
    for k, x in zip(v.keys, v.values):
        if not (isinstance(x.value, int) and not isinstance(x.value, bool) and x.value >= 0):
            raise Unsupported(f"non-literal / negative value in {name}")
        tab[k.value] = x.value
    return tab


def check_reprs(steps: Module) -> None:
    for s, cname in STEP_CLASS.items():
        steps.cls(cname)
        m = steps.method(cname, "__repr__")
        if m is None:
            raise Unsupported(f"{cname}.__repr__ not found")
        pe = Pe(steps, cname, f"{cname}.__repr__", set(), inline_self=True)
        outs = pe.run(_strip_doc(m[0].body), {m[0].args.args[0].arg: SELF}, ())
        if not outs or any(kind != "return" or v != s for kind, v, _e, _f in outs):
            raise Unsupported(f"{cname}.__repr__ does not return {s!r}")


class PushPe(Pe):
    """Records what is put on `self._build_stack`.  A step that was taken from the build stack itself (`.pop()`,
    `[-1]`) and is put back is not a dispatch: that is the pop loop, tied by the correspondence check."""
    OLD = Sym("old", "a step taken from the build stack")

    def opaque(self, src: ast.expr):
        txt = ast.unparse(src)
        if txt.endswith("._build_stack.pop()") or txt.endswith("._build_stack[-1]"):
            return self.OLD
        return U

    def store_effect(self, tgt: ast.expr):
        return ("store", ast.unparse(tgt)) if "_build_stack" in ast.unparse(tgt) else None

    def effect(self, call: ast.Call, func_src: str, args: list):
        if func_src.endswith("._build_stack.append") and len(args) == 1 and args[0] == self.OLD:
            return None
        if func_src.endswith("._build_stack.append") or func_src.endswith("._build_stack.insert") \
                or func_src.endswith("._build_stack.extend") or func_src.endswith("._build_stack.__setitem__"):
            return ("push", func_src.rsplit(".", 1)[1], tuple(args))
        return None


def check_push_oper(engine: Module) -> None:
    """Run `push_oper` once per operator string (the operator is concrete, everything else unknown): on every path,
    exactly the step class whose `repr` is that string is appended to `self._build_stack` (")": nothing)."""
    m = engine.method("FormulaBuilder", "push_oper")
    if m is None or isinstance(m[0], ast.AsyncFunctionDef):
        raise Unsupported("FormulaBuilder.push_oper not found")
    fn = m[0]
    for s in ORDER:
        pe = PushPe(engine, "FormulaBuilder", f"push_oper({s!r})", set(STEP_CLASS.values()), inline_self=True)
        env = _bind_params(fn, [SELF, s], {}, "push_oper")
        outs = pe.run(_strip_doc(fn.body), env, ())
        want = (("push", "append", (Sym("inst", STEP_CLASS[s]),)),) if s in STEP_CLASS else ()
        if not outs:
            raise Unsupported(f"push_oper({s!r}): no path")
        for kind, _v, _e, eff in outs:
            if kind not in ("next", "return"):
                raise Unsupported(f"push_oper({s!r}): a path ends with {kind} {_v}")
            if eff != want:
                raise Unsupported(f"push_oper({s!r}): pushes {list(eff)} on some path, expected {list(want)}")


# ---------------------------------------------------------------- tokenizer character classes
ITER = Sym("iter", "the tokenizer's character iterator")


class TokPe(Pe):
    """`Tokenizer.__next__` on a CONCRETE sequence of characters: `self.<iterator attribute>` is an iterator over the
    characters in `env["__rem__"]`; a `for` over it runs concretely (break / continue / else as in Python, the
    loop variable stays bound afterwards), `next(<it>)` / `next(<it>, default)` consume one character."""

    def __init__(self, mod: Module, attr: str) -> None:
        super().__init__(mod, "Tokenizer", "Tokenizer.__next__", {"Token"}, inline_self=False)
        self.attr = attr

    def eval(self, e: ast.expr, env: dict, eff: tuple) -> list:
        if isinstance(e, ast.Attribute) and e.attr == self.attr and isinstance(e.value, ast.Name) and env.get(e.value.id) is SELF:
            return [(ITER, env, eff)]
        if isinstance(e, ast.Call) and isinstance(e.func, ast.Name) and e.func.id in ("next", "iter") and e.func.id not in env \
                and 1 <= len(e.args) <= 2 and not e.keywords:
            out = []
            for vs, e2, f2 in self.eval_list(list(e.args), env, eff):
                if vs[0] is not ITER:
                    out.append((U, e2, f2))
                elif e.func.id == "iter":
                    out.append((ITER, e2, f2))
                elif e2["__rem__"]:
                    out.append((e2["__rem__"][0], {**e2, "__rem__": e2["__rem__"][1:]}, f2))
                elif len(vs) == 2:
                    out.append((vs[1], e2, f2))
                else:
                    out.append(("__raise__", "StopIteration", e2, f2))
            return self.split_raises(out)
        return super().eval(e, env, eff)

    def step(self, s: ast.stmt, env: dict, eff: tuple) -> list:
        if isinstance(s, ast.For):
            its = self.eval(s.iter, env, eff)
            if len(its) == 1 and its[0][0] is ITER:
                return self.loop(s, its[0][1], its[0][2], 0)
        return super().step(s, env, eff)

    def loop(self, s: ast.For, env: dict, eff: tuple, depth: int) -> list:
        if depth > 8:
            self.bad("character loop does not terminate on a finite input")
        if not env["__rem__"]:
            return self.run(s.orelse, env, eff)
        env = self.bind(s.target, env["__rem__"][0], {**env, "__rem__": env["__rem__"][1:]})
        out = []
        for kind, v, e2, f2 in self.run(s.body, env, eff):
            if kind in ("next", "continue"):
                out += self.loop(s, e2, f2, depth + 1)
            elif kind == "break":
                out.append(("next", None, e2, f2))
            else:
                out.append((kind, v, e2, f2))
        return out


def tokenizer_chars(tok: Module) -> tuple[list[str], list[str], str]:
    """The character classes of `Tokenizer.__next__`, by what the method does on concrete inputs: on the one-character
    input [c] it returns `Token(TokenType.OPER, c)` (operator character), returns `Token(TokenType.COMPONENT_METRIC,
    <digits read by the helper>)` (metric marker), raises ValueError (anything else) or runs into StopIteration (c was
    skipped: whitespace); on the empty input it raises StopIteration; and skipping really continues: [w, x] behaves
    like [x] (and [w, w', x] like [x]) for every whitespace w, w' and a representative x of every class.  Every test on
    a character must be a comparison with literals, so all unmentioned characters behave like one fresh character."""
    m = tok.method("Tokenizer", "__next__")
    if m is None or isinstance(m[0], ast.AsyncFunctionDef):
        raise Unsupported("Tokenizer.__next__ not found")
    fn = m[0]
    self_name = fn.args.args[0].arg
    body = _strip_doc(fn.body)
    body_mod = ast.Module(body=body, type_ignores=[])
    attrs = {n.iter.attr for n in ast.walk(body_mod) if isinstance(n, ast.For) and isinstance(n.iter, ast.Attribute)
             and isinstance(n.iter.value, ast.Name) and n.iter.value.id == self_name}
    attrs |= {n.args[0].attr for n in ast.walk(body_mod) if isinstance(n, ast.Call) and isinstance(n.func, ast.Name)
              and n.func.id == "next" and n.args and isinstance(n.args[0], ast.Attribute)
              and isinstance(n.args[0].value, ast.Name) and n.args[0].value.id == self_name}
    if len(attrs) != 1:
        raise Unsupported(f"Tokenizer.__next__: no unique character iterator (`for <char> in self.<attr>`): {sorted(attrs)}")
    attr = attrs.pop()
    # names that hold a character: loop targets / names assigned from next(<it>)
    char_vars = {n.target.id for n in ast.walk(body_mod) if isinstance(n, ast.For) and isinstance(n.target, ast.Name)}
    char_vars |= {t.id for n in ast.walk(body_mod) if isinstance(n, (ast.Assign, ast.NamedExpr))
                  for t in ([n.target] if isinstance(n, ast.NamedExpr) else n.targets) if isinstance(t, ast.Name)}
    lits: set[str] = set()
    in_fstring = {id(c) for n in ast.walk(body_mod) if isinstance(n, ast.JoinedStr) for c in ast.walk(n)}
    for n in ast.walk(body_mod):
        if isinstance(n, ast.Constant) and isinstance(n.value, str) and id(n) not in in_fstring:
            lits.update(n.value)
        if isinstance(n, ast.Name) and n.id in tok.consts:
            for c in ast.walk(tok.consts[n.id]):
                if isinstance(c, ast.Constant) and isinstance(c.value, str):
                    lits.update(c.value)
        if isinstance(n, ast.Attribute) and isinstance(n.value, ast.Name) and n.value.id in char_vars and id(n) not in in_fstring:
            raise Unsupported(f"Tokenizer.__next__: test `{ast.unparse(n)}` on the character is not a comparison with literals")
        if isinstance(n, ast.Attribute) and isinstance(n.value, ast.Name) and n.value.id == self_name \
                and tok.class_const("Tokenizer", n.attr) is not None:
            for c in ast.walk(tok.class_const("Tokenizer", n.attr)):
                if isinstance(c, ast.Constant) and isinstance(c.value, str):
                    lits.update(c.value)
    fresh = next(chr(x) for x in range(0xE000, 0xF8FF) if chr(x) not in lits)
    pe = TokPe(tok, attr)

    def outcome(seq: tuple[str, ...]):
        """(role, character the token was made of) of `__next__` on the input `seq`."""
        outs = pe.run(body, {self_name: SELF, "__rem__": tuple(seq)}, ())
        res = set()
        for kind, v, env, _f in outs:
            if kind == "raise" and v == "StopIteration":
                res.add(("end", None))
            elif kind == "raise" and v == "ValueError":
                res.add(("error", None))
            elif kind == "return" and isinstance(v, Sym) and v.kind == "call" and v.name == "Token" and len(v.args) == 2 \
                    and v.args[0] == Sym("name", "TokenType.OPER") and isinstance(v.args[1], str):
                res.add(("oper", v.args[1], len(seq) - len(env["__rem__"])))
            elif kind == "return" and isinstance(v, Sym) and v.kind == "call" and v.name == "Token" and len(v.args) == 2 \
                    and v.args[0] == Sym("name", "TokenType.COMPONENT_METRIC") and v.args[1] is U:
                res.add(("metric", None, len(seq) - len(env["__rem__"])))
            else:
                raise Unsupported(f"Tokenizer.__next__ on {list(seq)!r}: unknown outcome {kind} {v}")
        if len(res) != 1:
            raise Unsupported(f"Tokenizer.__next__ on {list(seq)!r}: outcomes {sorted(map(str, res))}")
        return res.pop()

    if outcome(()) != ("end", None):
        raise Unsupported("Tokenizer.__next__: the empty input does not raise StopIteration")
    classes: dict[str, list[str]] = {"ws": [], "oper": [], "metric": [], "error": []}
    for c in sorted(lits | {fresh}):
        o = outcome((c,))
        if o == ("end", None):
            classes["ws"].append(c)
        elif o == ("oper", c, 1):
            classes["oper"].append(c)
        elif o == ("metric", None, 1):
            classes["metric"].append(c)
        elif o == ("error", None):
            classes["error"].append(c)
        else:
            raise Unsupported(f"Tokenizer.__next__: character {c!r}: outcome {o}")
    if fresh not in classes["error"]:
        raise Unsupported("Tokenizer.__next__: an unmentioned character is not rejected with ValueError")
    ws, ops, metric = classes["ws"], classes["oper"], classes["metric"]
    if len(metric) != 1 or not ws:
        raise Unsupported(f"Tokenizer.__next__: character classes found: ws={ws} oper={ops} metric={metric}")
    if set(ops) != {"+", "-", "*", "/", "(", ")"}:
        raise Unsupported(f"Tokenizer operator characters changed: {ops}")
    # skipping continues with the next character, and consumes exactly the skipped ones
    for x in (ops[0], metric[0], fresh, ws[0]):
        want = outcome((x,))
        for w in ws:
            for seq in ((w, x), (w, ws[-1], x)):
                got = outcome(seq)
                if got[:2] != want[:2] or (len(got) == 3 and got[2] != len(seq)):
                    raise Unsupported(f"Tokenizer.__next__: {list(seq)!r} gives {got}, {[x]!r} gives {want}")
    return sorted(ws, key=ord), sorted(ops, key="+-*/()".index), metric[0]


def _lean_char(c: str) -> str:
    return f"(Char.ofNat {ord(c)})"


# ---------------------------------------------------------------- builder objects keep no state besides their tokens
_MUTATORS = {"append", "appendleft", "add", "update", "setdefault", "insert", "extend", "extendleft", "pop", "popleft",
             "popitem", "clear", "remove", "discard", "__setitem__", "__delitem__", "sort", "reverse", "rotate"}
_OK_DECORATORS = {"abstractmethod", "staticmethod", "classmethod", "property", "overload", "override"}


def ho_builder_keeps_only_tokens(engine: Module) -> tuple[bool, str]:
    """Is `build` a function of the builder's own token deque?  Established from the source of `_BaseHOFormulaBuilder`
    and every class deriving from it:
      * the token deque = the attribute `build` iterates over; it is the only instance attribute written outside
        `__init__`; every other instance attribute is written in `__init__` only, from a plain parameter (configuration
        such as the create method — not something a later call could fill in);
      * no `setattr` / `__dict__` / `vars` / `global` / `nonlocal` / subscript stores / `del` / class-level variables /
        caching decorators in these classes;
      * `build` mutates no container reachable from `self` or the module (mutating methods only on its own locals);
        the other methods mutate only the token deque.
    Then `copy.copy(self)` in `_copy` duplicates token state + configuration only, and nothing a `build` did can be seen
    by a later `build` of the same or of a derived builder.  Returns (flag, reason when False)."""
    base = "_BaseHOFormulaBuilder"
    if base not in engine.classes:
        raise Unsupported(f"class {base} not found")
    classes = [c for c in engine.classes.values() if base in [k.name for k in engine.mro(c.name)]]
    builds = [(c, n) for c in classes for n in c.body if isinstance(n, _FUNC) and n.name == "build"]
    if not builds:
        raise Unsupported("no build() method in the higher-order builder classes")
    tokens = set()
    for _c, fn in builds:
        for n in ast.walk(fn):
            if isinstance(n, ast.For) and isinstance(n.iter, ast.Attribute) and isinstance(n.iter.value, ast.Name) \
                    and n.iter.value.id == fn.args.args[0].arg:
                tokens.add(n.iter.attr)
    if len(tokens) != 1:
        raise Unsupported(f"build(): no unique token deque (`for ... in self.<attr>`): {sorted(tokens)}")
    tok = tokens.pop()
    for c in classes:
        for item in c.body:
            if isinstance(item, ast.Assign) or (isinstance(item, ast.AnnAssign) and item.value is not None):
                return False, f"{c.name}: class-level variable {ast.unparse(item)[:40]!r}"
            if not isinstance(item, _FUNC):
                continue
            for d in item.decorator_list:
                name = ast.unparse(d).split("(")[0].split(".")[-1]
                if name not in _OK_DECORATORS:
                    return False, f"{c.name}.{item.name}: decorator {ast.unparse(d)!r}"
            params = {a.arg for a in item.args.posonlyargs + item.args.args + item.args.kwonlyargs}
            self_name = item.args.args[0].arg if item.args.args else None
            local_names = {n.id for n in ast.walk(item) if isinstance(n, ast.Name) and isinstance(n.ctx, ast.Store)} - {self_name}
            for n in ast.walk(item):
                where = f"{c.name}.{item.name}"
                if isinstance(n, (ast.Global, ast.Nonlocal, ast.Delete)):
                    return False, f"{where}: {ast.unparse(n)!r}"
                if isinstance(n, ast.Name) and n.id in ("setattr", "vars", "delattr"):
                    return False, f"{where}: uses {n.id}"
                if isinstance(n, ast.Attribute) and n.attr in ("__dict__", "__setattr__", "__slots__"):
                    return False, f"{where}: uses {n.attr}"
                if isinstance(n, ast.Subscript) and isinstance(n.ctx, ast.Store):
                    return False, f"{where}: subscript store {ast.unparse(n)!r}"
                if isinstance(n, ast.Attribute) and isinstance(n.ctx, ast.Store) and n.attr != tok:
                    if item.name != "__init__":
                        return False, f"{where}: writes attribute {n.attr}"
                if isinstance(n, (ast.Assign, ast.AnnAssign)) and item.name == "__init__":
                    tgts = n.targets if isinstance(n, ast.Assign) else [n.target]
                    for t in tgts:
                        if isinstance(t, ast.Attribute) and t.attr != tok and not (
                                isinstance(n.value, ast.Name) and n.value.id in params and n.value.id != self_name):
                            return False, f"{where}: attribute {t.attr} is not initialised from a parameter"
                if isinstance(n, ast.Attribute) and isinstance(n.ctx, ast.Store) and n.attr == tok and item.name == "build":
                    return False, f"{where}: writes the token deque"
                if isinstance(n, ast.Call) and isinstance(n.func, ast.Attribute) and n.func.attr in _MUTATORS:
                    root = n.func.value
                    chain = []
                    while isinstance(root, (ast.Attribute, ast.Subscript, ast.Call)):
                        if isinstance(root, ast.Attribute):
                            chain.append(root.attr)
                        root = root.func if isinstance(root, ast.Call) else root.value
                    if not isinstance(root, ast.Name):
                        return False, f"{where}: mutation {ast.unparse(n)[:50]!r}"
                    if item.name == "build":
                        if root.id == self_name or root.id not in local_names:
                            return False, f"{where}: mutates {ast.unparse(n.func.value)!r}"
                    elif chain[-1:] != [tok] and not (not chain and root.id in local_names):
                        return False, f"{where}: mutates {ast.unparse(n.func.value)!r}"
    return True, ""


def generate(repo: pathlib.Path) -> str:
    engine = Module((repo / SOURCES[0]).read_text())
    steps = Module((repo / SOURCES[1]).read_text())
    tok = Module((repo / SOURCES[2]).read_text())

    tab = precedence(engine)
    check_reprs(steps)
    check_push_oper(engine)
    ws, ops, hash_ = tokenizer_chars(tok)

    out = ["import Frequenz.Model.FormulaSteps", "", "open Formula", ""]
    out.append("/-- `_operator_precedence` (indexed by `repr` of the step on the build stack). -/")
    out.append("def Extracted.Formula.prec : Op → Nat")
    for s in ORDER:
        out.append(f"  | .{OPS[s]} => {tab[s]}")
    out.append("")
    out.append("/-- Tokenizer: characters skipped as whitespace, operator characters, the metric marker. -/")
    out.append("def Extracted.Formula.wsChars : List Char := [" + ", ".join(_lean_char(c) for c in ws) + "]")
    out.append("def Extracted.Formula.operChars : List Char := [" + ", ".join(_lean_char(c) for c in ops) + "]")
    out.append(f"def Extracted.Formula.metricChar : Char := {_lean_char(hash_)}")
    out.append("")
    for c in BINARY:
        out.append(translate_step(steps, c, 2))
    for c in UNARY:
        out.append(translate_step(steps, c, 1))
    out.append(translate_clipper(steps))
    out.append(final_test((repo / SOURCES[3]).read_text()))
    flag, why = ho_builder_keeps_only_tokens(engine)
    out.append("/-- The higher-order builder classes keep no state besides the token deque (and the create method): `build` is a\n"
               "function of the builder's own tokens" + ("" if flag else f" — NOT established: {why}") + ". -/")
    out.append(f"def Extracted.Formula.hoBuilderKeepsOnlyTokens : Bool := {'true' if flag else 'false'}\n")
    return "\n".join(out)
