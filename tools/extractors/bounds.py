"""`_power_managing/_bounds.py` -> Lean definitions (full translation of the three pure functions)."""
import pathlib

import py2lean

NAME = "Bounds"
SOURCES = ["src/frequenz/sdk/microgrid/_power_managing/_bounds.py"]


def generate(repo: pathlib.Path) -> str:
    src = (repo / SOURCES[0]).read_text()
    wanted = {
        "check_exclusion_bounds_overlap": "Extracted.checkExclusionBoundsOverlap",
        "adjust_exclusion_bounds": "Extracted.adjustExclusionBounds",
        "clamp_to_bounds": "Extracted.clampToBounds",
    }
    callees = {k: v for k, v in wanted.items()}
    fns = py2lean.translate_module(src, wanted, callees)
    body = "\n".join(fns[k] for k in wanted)
    return "import Frequenz.Model.Prelude\n\n" + body
