"""`FormulaEvaluator.apply` and `_synchronize_metric_timestamps` -> Lean (`Extracted/EvaluatorPull.lean`), statement by
statement, from the *current* source text (pure `ast`, the repo is never imported).

Every method reached from `apply` through `self.<method>(…)` becomes a total Lean function

    <method> (f : List (Option Rat) → Option Rat) (<value parameters>) (s0 : EvSt Sample) : EOut Sample <ret>

over the state of `lean/Frequenz/Model/Pull.lean` (n receiver queues, the fetchers' last samples, the first-run
flag; `.block` = the call waits for data that has not been delivered).  `f` is the formula (the steps of
`self._steps` applied to the fetchers' current values, NaN/inf collapsed to `none` — C05's subject).

Translation scheme (continuation passing for statements and expressions, like `fallback_pull.py`):

  * the statements after an `if` are copied into every path that falls through; a method falling off its end returns None;
  * loops are separate functions in direct style returning `Flow`: `.next <carried locals>` when the loop ends normally,
    `.ret v` when its body executed `return v`; exceptions and blocking propagate.  `for x in <list>` is recursion on the
    list (`for k, v in d.items()`: on the association list, dict insertion order; `for t in <set of tasks>`: on the
    oracle order the `gather` primitive listed them in), `while` is recursion on fuel
    (`Pull.totalLen s + 1` = one more than the number of samples still queued; only loops that fetch are accepted;
    sufficiency is part of the tie proof).  Carried = assigned in the loop and bound before it; parameters = read in
    the loop, bound before it, not carried; locals first bound inside a loop are local to one iteration;
  * locals hold immutable values; the mutations of the dict of lists re-bind the local:
    `d.setdefault(k, v)` = `Dict.setdefault`, `….setdefault(k, v).append(x)` = `setdefault` then `Dict.appendAt`,
    `d[k] = v` = `Dict.set`, `d[k].append(x)` = `Dict.appendAt` (KeyError = `EExc.fault`), `k in d` = `Dict.has`,
    `max(d)` = `Dict.maxKey` (ValueError = fault); any other aliasing of a list is unsupported;
  * `await asyncio.wait([asyncio.create_task(F.fetch_next(), name=N) for N, F in self.<fetchers>.items()],
    return_when=asyncio.ALL_COMPLETED)` (exactly this shape) = `Pull.gather`; `self.<fetchers>[name]` = that fetcher
    (KeyError when `name` is not a key), `await <fetcher>.fetch_next()` = `Pull.fetchNext`; `<task>.result()` /
    `.get_name()` = the components of the task pair; `next(iter(xs))` = the head (StopIteration = fault);
    `any(<pure test> for x in xs)` = `List.any`; `assert c` = fault unless `c`; `raise RuntimeError(…)` = `EExc.runtime`;
  * the evaluation of the formula is abstracted where it stands: `for step in self.<steps>: step.apply(stack)` binds
    `stack` to the fetchers' current values (`runSteps`), `len(stack) != 1` guards with a single `raise` are the
    formula's business (skipped), `stack.pop()` is `f stack`, `isnan(r) or isinf(r)` is `r = none`,
    `Sample(t, None)` / `Sample(t, self.<create>(r))` are `⟨t, none⟩` / `⟨t, r⟩`;
  * fields are resolved by dataflow from `__init__`: the fetcher dict / the steps / the create method are the fields
    assigned from the constructor parameters `metric_fetchers` / `steps` / `create_method`, the first-run flag is the
    field initialised to `True`.

Anything outside this subset raises `py2lean.Unsupported`.
"""
import ast
import pathlib
import re
from dataclasses import dataclass, replace
from typing import Callable

from py2lean import Unsupported

NAME = "EvaluatorPull"
SOURCES = ["src/frequenz/sdk/timeseries/formula_engine/_formula_evaluator.py"]
CLASS = "FormulaEvaluator"
ENTRY = "apply"
REQUIRED = ["apply", "_synchronize_metric_timestamps"]

LEAN_TY = {"Int": "Int", "Name": "Nat", "Fetcher": "Nat", "Names": "(List Nat)", "Dict": "Dict",
           "Task": "(ATask Sample)", "Tasks": "(List (ATask Sample))", "OptSample": "(Option Sample)",
           "Sample": "Sample", "Bool": "Bool", "Stack": "(List (Option Rat))", "Res": "(Option Rat)", "Unit": "Unit"}
WIDEN = {"Sample": "OptSample"}
ELEM = {"Tasks": "Task", "Names": "Name"}
RESERVED = {"fun", "match", "with", "let", "if", "then", "else", "do", "at", "from", "have", "show", "end", "def",
            "open", "in", "fuel", "some", "none", "true", "false", "Type", "by", "where", "instance", "structure",
            "f", "rest_", "xs_"}


@dataclass(frozen=True)
class Val:
    term: str
    ty: str


NONE = Val("none", "None")
TRUE = Val("true", "Bool")
FALSE = Val("false", "Bool")
EMPTY = Val("[]", "EmptyList")


def atom(s: str) -> str:
    return s if (re.fullmatch(r"[\w.']+", s) or (s.startswith("(") and s.endswith(")")) or s == "[]") else f"({s})"


def pty(ty: str) -> str:
    t = LEAN_TY[ty]
    return t[1:-1] if t.startswith("(") else t


# ------------------------------------------------------------------------------------------------ code trees
@dataclass
class Leaf:
    s: str


@dataclass
class Let:
    name: str
    val: str
    body: object


@dataclass
class If:
    p: str
    a: object
    b: object


@dataclass
class Match:
    scrut: str
    arms: list


def render(t, ind: str) -> str:
    if isinstance(t, Leaf):
        return ind + t.s
    if isinstance(t, Let):
        return f"{ind}let {t.name} := {t.val}\n" + render(t.body, ind)
    if isinstance(t, If):
        return f"{ind}if {t.p} then\n{render(t.a, ind + '  ')}\n{ind}else\n{render(t.b, ind + '  ')}"
    if isinstance(t, Match):
        arms = "".join(f"\n{ind}| {p} =>\n{render(c, ind + '  ')}" for p, c in t.arms)
        return f"{ind}(match {t.scrut} with{arms})"
    raise AssertionError(t)


# ------------------------------------------------------------------------------------------------ environment
@dataclass(frozen=True)
class Env:
    vars: tuple
    st: str
    narrowed: tuple = ()

    def has(self, name: str) -> bool:
        return any(k == name for k, _ in self.vars)

    def get(self, name: str) -> Val:
        for k, v in self.vars:
            if k == name:
                return v
        raise Unsupported(f"local {name!r} may be unbound here")

    def set(self, name: str, v: Val) -> "Env":
        if self.has(name):
            return replace(self, vars=tuple((k, v if k == name else x) for k, x in self.vars))
        return replace(self, vars=self.vars + ((name, v),))

    def state(self, st: str) -> "Env":
        return replace(self, st=st)

    def narrow(self, term: str, v: Val) -> "Env":
        return replace(self, narrowed=self.narrowed + ((term, v),))

    def narrowing(self, term: str):
        for k, v in self.narrowed:
            if k == term:
                return v
        return None


@dataclass(frozen=True)
class Ctx:
    ret: Callable
    exc: Callable
    brk: Callable | None = None
    cont: Callable | None = None
    retty: Callable | None = None  # () -> type of what `return` returns here (a method, or a helper being inlined)
    chain: tuple = ()  # helpers being inlined around this code (lexically)


@dataclass
class Method:
    fn: object
    lean: str
    params: list
    retty: str


def lean_ident(py: str) -> str:
    if py in RESERVED or re.fullmatch(r"[svxec]\d+", py):
        return py + "_"
    if not re.fullmatch(r"[A-Za-z_][A-Za-z0-9_]*", py):
        raise Unsupported(f"identifier {py!r}")
    return py


def method_lean_name(py: str) -> str:
    return ("priv_" + py.lstrip("_")) if py.startswith("_") else py


def ann_type(node, what: str) -> str:
    if node is None:
        raise Unsupported(f"{what}: missing annotation")
    src = ast.unparse(node)
    if re.fullmatch(r"set\[asyncio\.Task\[Sample\[\w+\] \| None\]\]", src):
        return "Tasks"
    if src == "datetime":
        return "Int"
    if re.fullmatch(r"Sample\[\w+\]", src):
        return "Sample"
    if re.fullmatch(r"Sample\[\w+\] \| None", src):
        return "OptSample"
    if src == "bool":
        return "Bool"
    if re.fullmatch(r"dict\[datetime, list\[str\]\]", src):
        return "Dict"
    if src == "list[float]":
        return "Stack"
    if src == "list[str]":
        return "Names"
    raise Unsupported(f"{what}: type {src!r}")


def assigned_names(nodes) -> list[str]:
    out: list[str] = []

    def tgt(t):
        if isinstance(t, ast.Name):
            if t.id not in out:
                out.append(t.id)
        elif isinstance(t, (ast.Tuple, ast.List)):
            for e in t.elts:
                tgt(e)

    for root in nodes:
        for n in ast.walk(root):
            if isinstance(n, ast.Assign):
                for t in n.targets:
                    tgt(t)
            elif isinstance(n, (ast.AnnAssign, ast.AugAssign)):
                tgt(n.target)
            elif isinstance(n, (ast.For, ast.AsyncFor)):
                tgt(n.target)
            elif isinstance(n, ast.NamedExpr):
                tgt(n.target)
            elif isinstance(n, ast.Expr) and isinstance(n.value, ast.Call) and isinstance(n.value.func, ast.Attribute):
                # mutations that re-bind a local: d.setdefault(..)[.append(..)], d[k].append(..), step.apply(stack)
                c = n.value
                base = c.func.value
                while isinstance(base, (ast.Call, ast.Attribute, ast.Subscript)):
                    base = base.func if isinstance(base, ast.Call) else base.value
                if isinstance(base, ast.Name) and base.id not in out and base.id != "self":
                    out.append(base.id)
                for a in c.args:
                    if isinstance(a, ast.Name) and c.func.attr == "apply" and a.id not in out:
                        out.append(a.id)
            elif isinstance(n, ast.Subscript) and isinstance(n.ctx, ast.Store) and isinstance(n.value, ast.Name):
                if n.value.id not in out:
                    out.append(n.value.id)
    return out


def loaded_names(nodes) -> set[str]:
    return {n.id for root in nodes for n in ast.walk(root) if isinstance(n, ast.Name)}


# ------------------------------------------------------------------------------------------------ the class
class ClassInfo:
    def __init__(self, tree: ast.Module):
        self.cls = next((n for n in tree.body if isinstance(n, ast.ClassDef) and n.name == CLASS), None)
        if self.cls is None:
            raise Unsupported(f"class {CLASS} not found")
        fns = [n for n in self.cls.body if isinstance(n, (ast.FunctionDef, ast.AsyncFunctionDef))]
        self.methods = {n.name: n for n in fns}
        if len(fns) != len(self.methods):
            raise Unsupported("a method is defined twice")
        for m in REQUIRED:
            if m not in self.methods:
                raise Unsupported(f"{CLASS}.{m} not found")
        if not any(isinstance(n, ast.Import) and any(a.name == "asyncio" and a.asname is None for a in n.names)
                   for n in tree.body):
            raise Unsupported("asyncio is not imported as a module")
        for fn_name in ("isnan", "isinf"):
            if not any(isinstance(n, ast.ImportFrom) and n.module == "math"
                       and any(a.name == fn_name and a.asname is None for a in n.names) for n in tree.body):
                raise Unsupported(f"{fn_name} is not imported from math")
        init = self.methods.get("__init__")
        if init is None:
            raise Unsupported("no __init__")
        self.fields: dict[str, str] = {}  # field -> role: fetchers | steps | create | first
        roles = {"metric_fetchers": "fetchers", "steps": "steps", "create_method": "create"}
        for st in init.body:
            if isinstance(st, ast.Assign) and len(st.targets) == 1:
                tgt, val = st.targets[0], st.value
            elif isinstance(st, ast.AnnAssign) and st.value is not None:
                tgt, val = st.target, st.value
            else:
                continue
            if not (isinstance(tgt, ast.Attribute) and isinstance(tgt.value, ast.Name) and tgt.value.id == "self"):
                continue
            if isinstance(val, ast.Name) and val.id in roles:
                self.fields[tgt.attr] = roles[val.id]
            elif isinstance(val, ast.Constant) and val.value is True:
                self.fields[tgt.attr] = "first"
        if sorted(self.fields.values()) != ["create", "fetchers", "first", "steps"]:
            raise Unsupported(f"__init__: expected one field each for fetchers/steps/create_method/True flag, "
                              f"found {self.fields}")
        for name, fn in self.methods.items():
            if name == "__init__":
                continue
            for n in ast.walk(fn):
                if (isinstance(n, ast.Attribute) and isinstance(n.ctx, (ast.Store, ast.Del))
                        and self.fields.get(n.attr) in ("fetchers", "steps", "create")):
                    raise Unsupported(f"{name} rebinds self.{n.attr}")

    def role(self, attr: str):
        return self.fields.get(attr)


# ------------------------------------------------------------------------------------------------ translator
class EvalTranslator:
    def __init__(self, info: ClassInfo):
        self.info = info
        self.defs: list[str] = []
        self.done: dict[str, Method] = {}
        self.in_progress: list[str] = []
        self.counter = 0
        self.loops = 0
        self.cur: Method | None = None
        self.loop_defs: dict[str, str] = {}

    def fresh(self, p: str) -> str:
        self.counter += 1
        return f"{p}{self.counter}"

    # ------------------------------------------------------------ coercions
    def coerce(self, v: Val, ty: str) -> str:
        if v.ty == ty:
            return v.term
        if v.ty == "None" and ty in ("OptSample", "Res"):
            return "none"
        if v.ty == "EmptyList" and ty in ("Names", "Tasks", "Stack", "Dict"):
            return "[]"
        if WIDEN.get(v.ty) == ty:
            return f"(some {v.term})"
        if {v.ty, ty} == {"Name", "Fetcher"}:
            return v.term
        raise Unsupported(f"cannot use a {v.ty} as {ty}")

    def narrowed(self, v: Val, env: Env) -> Val:
        if v.ty == "OptSample":
            n = env.narrowing(v.term)
            if n is not None:
                return n
        return v

    # ------------------------------------------------------------ methods
    def params_of(self, name: str) -> list:
        fn = self.info.methods[name]
        a = fn.args
        decos = [ast.unparse(d) for d in fn.decorator_list]
        if a.vararg or a.kwarg or a.kwonlyargs or a.posonlyargs or a.defaults or decos not in ([], ["staticmethod"]):
            raise Unsupported(f"{name}: unsupported signature")
        if decos:
            return list(a.args)
        if not a.args or a.args[0].arg != "self":
            raise Unsupported(f"{name}: not an instance method")
        return list(a.args[1:])

    def method(self, name: str) -> Method:
        if name in self.done:
            return self.done[name]
        if name in self.in_progress:
            raise Unsupported(f"recursive method {name}")
        fn = self.info.methods[name]
        # canonical Lean names: the text does not depend on how the Python parameters are called
        params = [(p.arg, f"p{i + 1}", ann_type(p.annotation, f"{name}({p.arg})"))
                  for i, p in enumerate(self.params_of(name))]
        m = Method(fn, method_lean_name(name), params, ann_type(fn.returns, f"{name} result"))
        saved = (self.cur, self.counter, self.loops)
        self.in_progress.append(name)
        self.cur, self.counter, self.loops = m, 0, 0
        env = Env(vars=tuple((py, Val(ln, ty)) for py, ln, ty in params), st="s0")
        ctx = Ctx(ret=lambda v, e: Leaf(f".ok {atom(self.coerce(self.narrowed(v, e), m.retty))} {e.st}"),
                  exc=lambda k, e: Leaf(f".exc {k} {e.st}"), retty=lambda: m.retty)
        body = self.stmts(fn.body, env, ctx, lambda e: ctx.ret(NONE, e))
        sig = "".join(f" ({ln} : {pty(ty)})" for _, ln, ty in params)
        self.defs.append(f"/-- `{CLASS}.{name}`. -/\ndef {m.lean} (f : List (Option Rat) → Option Rat){sig} "
                         f"(s0 : EvSt Sample) : EOut Sample {LEAN_TY[m.retty]} :=\n{render(body, '  ')}\n")
        self.in_progress.pop()
        self.cur, self.counter, self.loops = saved
        self.done[name] = m
        return m

    def inline(self, name: str, bound: list, env: Env, ctx: Ctx, k: Callable):
        """A call of a helper method: its body in place of the call (arguments bound to the parameters, `return v`
        continues the caller with `v`, falling off the end with None, raises propagate to the caller).  Its loops are
        functions of their own as everywhere else."""
        if name in ctx.chain or name in self.in_progress:
            raise Unsupported(f"recursive method {name}")
        fn = self.info.methods[name]
        back = lambda e: replace(env, st=e.st, narrowed=e.narrowed)  # noqa: E731
        callee_ctx = Ctx(ret=lambda v, e: k(v, back(e)), exc=lambda kind, e: ctx.exc(kind, back(e)),
                         retty=lambda: ann_type(fn.returns, f"{name} result"), chain=ctx.chain + (name,))
        callee_env = Env(vars=tuple(bound), st=env.st, narrowed=env.narrowed)
        return self.stmts(fn.body, callee_env, callee_ctx, lambda e: k(NONE, back(e)))

    # ------------------------------------------------------------ statements
    def stmts(self, stmts: list, env: Env, ctx: Ctx, k: Callable):
        if not stmts:
            return k(env)
        s, rest = stmts[0], stmts[1:]
        nxt = lambda e: self.stmts(rest, e, ctx, k)  # noqa: E731
        if isinstance(s, ast.Pass):
            return nxt(env)
        if isinstance(s, ast.Expr):
            v = s.value
            if isinstance(v, ast.Constant) and isinstance(v.value, str):
                return nxt(env)
            mut = self.mutation(v, env, ctx, nxt)
            if mut is not None:
                return mut
            return self.ev(v, env, ctx, lambda _v, e: nxt(e))
        if isinstance(s, ast.Return):
            if s.value is None:
                return ctx.ret(NONE, env)
            return self.ev(s.value, env, ctx, lambda v, e: ctx.ret(v, e))
        if isinstance(s, ast.Assign) and len(s.targets) == 1:
            return self.assign(s.targets[0], s.value, None, env, ctx, nxt)
        if isinstance(s, ast.AnnAssign) and s.value is not None:
            return self.assign(s.target, s.value, s.annotation, env, ctx, nxt)
        if isinstance(s, ast.If):
            return self.cond(s.test, env, ctx,
                             lambda e: self.stmts(s.body, e, ctx, nxt),
                             lambda e: self.stmts(s.orelse, e, ctx, nxt))
        if isinstance(s, ast.Assert):
            return self.cond(s.test, env, ctx, nxt, lambda e: ctx.exc(".fault", e))
        if isinstance(s, ast.Raise):
            if (s.cause is None and isinstance(s.exc, ast.Call) and isinstance(s.exc.func, ast.Name)
                    and s.exc.func.id == "RuntimeError"):
                return ctx.exc(".runtime", env)
            if (s.cause is None and isinstance(s.exc, ast.Call) and isinstance(s.exc.func, ast.Name)
                    and s.exc.func.id in ("AssertionError", "StopIteration", "KeyError", "ValueError")):
                return ctx.exc(".fault", env)  # "anything else than RuntimeError"
            raise Unsupported(f"raise {ast.unparse(s.exc) if s.exc else ''}")
        if isinstance(s, ast.For):
            return self.for_(s, env, ctx, nxt)
        if isinstance(s, ast.While):
            return self.while_(s, env, ctx, nxt)
        if isinstance(s, ast.Break):
            if ctx.brk is None:
                raise Unsupported("break outside a loop")
            return ctx.brk(env)
        if isinstance(s, ast.Continue):
            if ctx.cont is None:
                raise Unsupported("continue outside a loop")
            return ctx.cont(env)
        raise Unsupported(f"statement {type(s).__name__} (line {getattr(s, 'lineno', '?')})")

    def stack_len_test(self, t: ast.expr, env: Env):
        """`len(<stack>) == 1` / `!= 1` -> "eq" / "ne": whether the formula left exactly one value is the formula's
        business (C05); the translation follows the path where it did, after checking that the other path does nothing
        but `raise RuntimeError(…)`."""
        if not (isinstance(t, ast.Compare) and len(t.ops) == 1 and isinstance(t.ops[0], (ast.NotEq, ast.Eq))):
            return None
        a, b = t.left, t.comparators[0]
        if isinstance(a, ast.Constant):
            a, b = b, a
        if not (isinstance(a, ast.Call) and isinstance(a.func, ast.Name) and a.func.id == "len" and len(a.args) == 1
                and not a.keywords and isinstance(a.args[0], ast.Name) and isinstance(b, ast.Constant) and b.value == 1
                and type(b.value) is int):
            return None
        if not (env.has(a.args[0].id) and env.get(a.args[0].id).ty == "Stack"):
            return None
        return "eq" if isinstance(t.ops[0], ast.Eq) else "ne"

    def assign(self, tgt, value, ann, env: Env, ctx: Ctx, nxt: Callable):
        if isinstance(tgt, ast.Name):
            if tgt.id == "self":
                raise Unsupported("assignment to self")

            def bind(v: Val, e: Env):
                if ann is not None:
                    v = Val(self.coerce(v, ann_type(ann, tgt.id)), ann_type(ann, tgt.id))
                if isinstance(value, ast.Dict) and v.ty == "EmptyList":
                    v = Val("[]", "Dict")
                if v.ty == "EmptyList":
                    raise Unsupported(f"{tgt.id} = []: annotate the element type")
                return nxt(e.set(tgt.id, v))
            if isinstance(value, ast.Dict):
                if value.keys:
                    raise Unsupported("non-empty dict literal")
                return bind(EMPTY, env)
            return self.ev(value, env, ctx, bind)
        if isinstance(tgt, ast.Tuple) and all(isinstance(e, ast.Name) for e in tgt.elts):
            def bind_t(v, e: Env):
                if not (isinstance(v, tuple) and len(v) == len(tgt.elts)):
                    raise Unsupported("tuple assignment from a non-tuple")
                for t, x in zip(tgt.elts, v):
                    e = e.set(t.id, x)
                return nxt(e)
            return self.ev(value, env, ctx, bind_t)
        if (isinstance(tgt, ast.Attribute) and isinstance(tgt.value, ast.Name) and tgt.value.id == "self"
                and self.info.role(tgt.attr) == "first"):
            def store(v: Val, e: Env):
                s2 = self.fresh("s")
                return Let(s2, f"{{ {e.st} with firstRun := {self.coerce(v, 'Bool')} }}", nxt(e.state(s2)))
            return self.ev(value, env, ctx, store)
        if isinstance(tgt, ast.Subscript) and isinstance(tgt.value, ast.Name):
            d = tgt.value.id
            if env.get(d).ty != "Dict":
                raise Unsupported(f"item assignment on a {env.get(d).ty}")

            def setk(kv: Val, e: Env):
                def setv(vv: Val, e2: Env):
                    x = self.fresh("x")
                    return Let(x, f"Dict.set {atom(e2.get(d).term)} {atom(self.coerce(kv, 'Int'))} "
                                  f"{atom(self.coerce(vv, 'Names'))}", nxt(e2.set(d, Val(x, "Dict"))))
                return self.ev(value, e, ctx, setv)
            return self.ev(tgt.slice, env, ctx, setk)
        raise Unsupported(f"assignment target {ast.unparse(tgt)}")

    def mutation(self, v: ast.expr, env: Env, ctx: Ctx, nxt: Callable):
        """Expression statements that mutate a local container."""
        if not (isinstance(v, ast.Call) and isinstance(v.func, ast.Attribute) and not v.keywords):
            return None
        f = v.func

        def dict_local(n):
            return isinstance(n, ast.Name) and env.has(n.id) and env.get(n.id).ty == "Dict"

        # d.setdefault(k, v)
        def setdefault(call: ast.Call, then: Callable):
            d = call.func.value.id
            if len(call.args) != 2 or call.keywords:
                raise Unsupported("setdefault arity")
            return self.ev(call.args[0], env, ctx, lambda kv, e: self.ev(call.args[1], e, ctx, lambda dv, e2: (
                lambda x: Let(x, f"Dict.setdefault {atom(e2.get(d).term)} {atom(self.coerce(kv, 'Int'))} "
                                 f"{atom(self.coerce(dv, 'Names'))}", then(d, kv, e2.set(d, Val(x, 'Dict')))))(
                self.fresh("x"))))

        def append_at(d: str, kv: Val, xv: Val, e: Env):
            x = self.fresh("x")
            return Match(f"Dict.appendAt {atom(e.get(d).term)} {atom(self.coerce(kv, 'Int'))} "
                         f"{atom(self.coerce(xv, 'Name'))}",
                         [("none", ctx.exc(".fault", e)), (f"some {x}", nxt(e.set(d, Val(x, "Dict"))))])

        if f.attr == "setdefault" and dict_local(f.value):
            return setdefault(v, lambda d, kv, e: nxt(e))
        if f.attr == "append" and len(v.args) == 1:
            base = f.value
            if (isinstance(base, ast.Call) and isinstance(base.func, ast.Attribute) and base.func.attr == "setdefault"
                    and dict_local(base.func.value)):
                return setdefault(base, lambda d, kv, e: self.ev(v.args[0], e, ctx,
                                                                 lambda xv, e2: append_at(d, kv, xv, e2)))
            if isinstance(base, ast.Subscript) and dict_local(base.value):
                d = base.value.id
                return self.ev(base.slice, env, ctx, lambda kv, e: self.ev(v.args[0], e, ctx,
                                                                           lambda xv, e2: append_at(d, kv, xv, e2)))
            raise Unsupported(f"append on {ast.unparse(base)}")
        return None

    # ------------------------------------------------------------ loops
    def loop_common(self, s, env: Env, extra_assigned: list[str]):
        assert self.cur is not None
        self.loops += 1
        name = f"{self.cur.lean}_loop{self.loops}"
        body_nodes = list(s.body) + ([s.test] if isinstance(s, ast.While) else [])
        assigned = assigned_names(s.body) + [x for x in extra_assigned]
        carried = [(py, v) for py, v in env.vars if py in assigned]
        cparams = [(py, f"k{i + 1}", WIDEN.get(v.ty, v.ty)) for i, (py, v) in enumerate(carried)]
        for py, _, ty in cparams:
            if ty in ("None", "EmptyList"):
                raise Unsupported(f"loop-carried local {py} has no definite type")
        read = loaded_names(body_nodes)
        params = [(py, v.ty) for py, v in env.vars
                  if py in read and py not in assigned and v.ty not in ("None", "EmptyList", "FetchTasks")]
        params = [(py, f"a{i + 1}", ty) for i, (py, ty) in enumerate(params)]
        return name, carried, cparams, params

    def flow_ty(self, cparams, ctx: Ctx) -> str:
        c = " × ".join(pty(ty) if " " not in pty(ty) else f"({pty(ty)})" for _, _, ty in cparams) if cparams else "Unit"
        return f"(Flow {LEAN_TY[ctx.retty()]} ({c}))"

    @staticmethod
    def tuple_of(terms: list[str]) -> str:
        return "()" if not terms else (terms[0] if len(terms) == 1 else "(" + ", ".join(terms) + ")")

    def finish_loop(self, s, name, head: str, body_text: str, env: Env, ctx: Ctx, nxt: Callable, call: str,
                    cparams, what: str):
        assert self.cur is not None
        text = (f"/-- a `{what}` loop of `{self.cur.fn.name}`. -/\n{head}\n{body_text}\n")
        key = text.replace(name, "<loop>")
        if key in self.loop_defs:
            call = call.replace(name, self.loop_defs[key])
            self.loops -= 1
        else:
            self.loop_defs[key] = name
            self.defs.append(text)
        ek, s1, rv = self.fresh("e"), self.fresh("s"), self.fresh("v")
        news = [self.fresh("c") for _ in cparams]
        e_after = env.state(s1)
        # locals first bound inside the loop are dropped; carried ones are re-bound
        for (py, _, ty), c in zip(cparams, news):
            e_after = e_after.set(py, Val(c, ty))
        return Match(call, [
            (".block", Leaf(".block")),
            (f".exc {ek} {s1}", ctx.exc(ek, env.state(s1))),
            (f".ok (.ret {rv}) {s1}", ctx.ret(Val(rv, ctx.retty()), env.state(s1))),
            (f".ok (.next {self.tuple_of(news)}) {s1}", nxt(e_after)),
        ])

    def loop_ctx(self, ctx: Ctx, cparams, again: Callable) -> Ctx:
        retty = ctx.retty()

        def carried_terms(e: Env) -> list[str]:
            return [atom(self.coerce(self.narrowed(e.get(py), e), ty)) for py, _, ty in cparams]

        def done(e: Env):
            return Leaf(f".ok (.next {self.tuple_of(carried_terms(e))}) {e.st}")
        return Ctx(ret=lambda v, e: Leaf(f".ok (.ret {atom(self.coerce(self.narrowed(v, e), retty))}) {e.st}"),
                   exc=lambda k, e: Leaf(f".exc {k} {e.st}"), brk=done, cont=again, retty=ctx.retty,
                   chain=ctx.chain), done, carried_terms

    def for_(self, s: ast.For, env: Env, ctx: Ctx, nxt: Callable):
        if s.orelse:
            raise Unsupported("for/else")
        # the formula steps: `for step in self.<steps>: step.apply(<stack>)`
        it = s.iter
        if (isinstance(it, ast.Attribute) and isinstance(it.value, ast.Name) and it.value.id == "self"
                and self.info.role(it.attr) == "steps"):
            b = s.body
            if not (isinstance(s.target, ast.Name) and len(b) == 1 and isinstance(b[0], ast.Expr)
                    and isinstance(b[0].value, ast.Call) and isinstance(b[0].value.func, ast.Attribute)
                    and b[0].value.func.attr == "apply" and isinstance(b[0].value.func.value, ast.Name)
                    and b[0].value.func.value.id == s.target.id and len(b[0].value.args) == 1
                    and isinstance(b[0].value.args[0], ast.Name) and not b[0].value.keywords):
                raise Unsupported("loop over the steps that is not `step.apply(stack)`")
            st = b[0].value.args[0].id
            if not (env.get(st).ty == "Stack" and env.get(st).term == "[]"):
                raise Unsupported("the steps are applied to a stack that is not the fresh empty list")
            x = self.fresh("x")
            return Let(x, f"runSteps {env.st}", nxt(env.set(st, Val(x, "Stack"))))

        def with_iter(itv: Val, env: Env):
            if itv.ty not in ("Tasks", "Names", "Dict"):
                raise Unsupported(f"iteration over a {itv.ty}")
            tnames = ([s.target.id] if isinstance(s.target, ast.Name)
                      else [e.id for e in s.target.elts] if isinstance(s.target, ast.Tuple)
                      and all(isinstance(e, ast.Name) for e in s.target.elts) else None)
            if tnames is None:
                raise Unsupported("loop target")
            if itv.ty == "Dict":
                if len(tnames) != 2:
                    raise Unsupported("dict items need two targets")
                ttys = ["Int", "Names"]
            else:
                if len(tnames) != 1:
                    raise Unsupported("tuple target over a flat list")
                ttys = [ELEM[itv.ty]]
            # the iterated container must not be re-bound in the body
            name, carried, cparams, params = self.loop_common(s, env, [])
            if any(py in tnames for py, _, _ in cparams):
                # a loop target that was bound before: it is carried (Python keeps the last value)
                pass
            saved = self.counter
            self.counter = 0
            tl = [f"t{i + 1}" for i in range(len(tnames))]
            inner = Env(vars=tuple((py, Val(ln, ty)) for py, ln, ty in params)
                        + tuple((py, Val(ln, ty)) for py, ln, ty in cparams), st="s0")
            for t, l_, ty in zip(tnames, tl, ttys):
                inner = inner.set(t, Val(l_, ty))
            psig = "".join(f" ({ln} : {pty(ty)})" for _, ln, ty in params)
            csig = "".join(f" ({ln} : {pty(ty)})" for _, ln, ty in cparams)
            pargs = "".join(f" {ln}" for _, ln, _ in params)

            def again(e: Env):
                return Leaf(f"{name} f{pargs} rest_{''.join(' ' + t for t in terms(e))} {e.st}")
            lctx, done, terms = self.loop_ctx(ctx, cparams, again)
            body = self.stmts(s.body, inner, lctx, again)
            pat = tl[0] if len(tl) == 1 else "(" + ", ".join(tl) + ")"
            elem = {"Tasks": "ATask Sample", "Names": "Nat", "Dict": "Int × List Nat"}[itv.ty]
            head = (f"def {name} (f : List (Option Rat) → Option Rat){psig} (xs_ : List ({elem})){csig} "
                    f"(s0 : EvSt Sample) : EOut Sample {self.flow_ty(cparams, ctx)} :=")
            nil_env = Env(vars=tuple((py, Val(ln, ty)) for py, ln, ty in cparams), st="s0")
            body_text = (f"  match xs_ with\n  | [] =>\n{render(done(nil_env), '    ')}\n"
                         f"  | {pat} :: rest_ =>\n{render(body, '    ')}")
            self.counter = saved
            cargs = "".join(" " + atom(self.coerce(self.narrowed(v, env), ty)) for (_, v), (_, _, ty) in zip(carried, cparams))
            call_p = "".join(" " + atom(env.get(py).term) for py, _, _ in params)
            call = f"{name} f{call_p} {atom(itv.term)}{cargs} {env.st}"
            return self.finish_loop(s, name, head, body_text, env, ctx, nxt, call, cparams, "for")
        return self.ev(s.iter, env, ctx, with_iter)

    def while_(self, s: ast.While, env: Env, ctx: Ctx, nxt: Callable):
        if s.orelse:
            raise Unsupported("while/else")
        if not any(isinstance(n, ast.Await) and isinstance(n.value, ast.Call) and isinstance(n.value.func, ast.Attribute)
                   and n.value.func.attr == "fetch_next" for n in ast.walk(s)):
            raise Unsupported("a while loop that fetches nothing (no fuel bound)")
        name, carried, cparams, params = self.loop_common(s, env, [])
        saved = self.counter
        self.counter = 0
        inner = Env(vars=tuple((py, Val(ln, ty)) for py, ln, ty in params)
                    + tuple((py, Val(ln, ty)) for py, ln, ty in cparams), st="s0")
        psig = "".join(f" ({ln} : {pty(ty)})" for _, ln, ty in params)
        csig = "".join(f" ({ln} : {pty(ty)})" for _, ln, ty in cparams)
        pargs = "".join(f" {ln}" for _, ln, _ in params)

        def again(e: Env):
            return Leaf(f"{name} f{pargs} fuel{''.join(' ' + t for t in terms(e))} {e.st}")
        lctx, done, terms = self.loop_ctx(ctx, cparams, again)
        body = self.cond(s.test, inner, lctx, lambda e: self.stmts(s.body, e, lctx, again), done)
        head = (f"def {name} (f : List (Option Rat) → Option Rat){psig} (fuel_ : Nat){csig} "
                f"(s0 : EvSt Sample) : EOut Sample {self.flow_ty(cparams, ctx)} :=")
        body_text = f"  match fuel_ with\n  | 0 => .block\n  | fuel + 1 =>\n{render(body, '    ')}"
        self.counter = saved
        cargs = "".join(" " + atom(self.coerce(self.narrowed(v, env), ty)) for (_, v), (_, _, ty) in zip(carried, cparams))
        call_p = "".join(" " + atom(env.get(py).term) for py, _, _ in params)
        call = f"{name} f{call_p} (Pull.totalLen {env.st} + 1){cargs} {env.st}"
        return self.finish_loop(s, name, head, body_text, env, ctx, nxt, call, cparams, "while")

    # ------------------------------------------------------------ expressions
    def self_field(self, n: ast.expr):
        if isinstance(n, ast.Attribute) and isinstance(n.value, ast.Name) and n.value.id == "self":
            return self.info.role(n.attr) or "?"
        return None

    def ev(self, n: ast.expr, env: Env, ctx: Ctx, k: Callable):
        if isinstance(n, ast.Constant):
            if n.value is None:
                return k(NONE, env)
            if n.value is True:
                return k(TRUE, env)
            if n.value is False:
                return k(FALSE, env)
            raise Unsupported(f"constant {n.value!r}")
        if isinstance(n, ast.ListComp):
            if self.is_fetch_tasks(n):
                # creating the tasks has no effect of its own here: they run (and are awaited) in `asyncio.wait`
                return k(Val("<the fetch tasks>", "FetchTasks"), env)
            raise Unsupported(f"comprehension {ast.unparse(n)[:60]}")
        if isinstance(n, ast.IfExp):
            return self.cond(n.test, env, ctx, lambda e: self.ev(n.body, e, ctx, k), lambda e: self.ev(n.orelse, e, ctx, k))
        if isinstance(n, ast.List) and not n.elts:
            return k(EMPTY, env)
        if isinstance(n, ast.List) and len(n.elts) == 1:
            return self.ev(n.elts[0], env, ctx, lambda v, e: k(Val(f"[{self.coerce(v, 'Name')}]", "Names"), e))
        if isinstance(n, ast.Name):
            if n.id == "self":
                raise Unsupported("bare self")
            return k(env.get(n.id), env)
        if isinstance(n, ast.Attribute):
            role = self.self_field(n)
            if role == "first":
                return k(Val(f"{env.st}.firstRun", "Bool"), env)
            if role is not None:
                raise Unsupported(f"field self.{n.attr} used as a value")
            if n.attr == "timestamp":
                return self.ev(n.value, env, ctx, lambda v, e: self.timestamp(v, e, ctx, k))
            raise Unsupported(f"attribute .{n.attr}")
        if isinstance(n, ast.Subscript):
            if self.self_field(n.value) == "fetchers":
                def fetcher(v: Val, e: Env):
                    t = self.coerce(v, "Name")
                    return If(f"{e.st}.names.contains {atom(t)} = true", k(Val(t, "Fetcher"), e), ctx.exc(".fault", e))
                return self.ev(n.slice, env, ctx, fetcher)
            raise Unsupported(f"subscript {ast.unparse(n)}")
        if isinstance(n, ast.Await):
            if not isinstance(n.value, ast.Call):
                raise Unsupported("await of a non-call")
            return self.call(n.value, True, env, ctx, k)
        if isinstance(n, ast.Call):
            return self.call(n, False, env, ctx, k)
        if isinstance(n, (ast.Compare, ast.BoolOp)) or (isinstance(n, ast.UnaryOp) and isinstance(n.op, ast.Not)):
            return self.cond(n, env, ctx, lambda e: k(TRUE, e), lambda e: k(FALSE, e))
        raise Unsupported(f"expression {ast.unparse(n)}")

    def timestamp(self, v: Val, env: Env, ctx: Ctx, k: Callable):
        v = self.narrowed(v, env)
        if v.ty == "Sample":
            return k(Val(f"{v.term}.ts", "Int"), env)
        if v.ty == "None":
            return ctx.exc(".fault", env)
        if v.ty == "OptSample":
            x = self.fresh("x")
            return Match(v.term, [("none", ctx.exc(".fault", env)),
                                  (f"some {x}", k(Val(f"{x}.ts", "Int"), env.narrow(v.term, Val(x, "Sample"))))])
        raise Unsupported(f".timestamp of a {v.ty}")

    def is_fetch_tasks(self, lc: ast.expr) -> bool:
        """[asyncio.create_task(F.fetch_next(), name=N) for N, F in self.<fetchers>.items()]"""
        if not (isinstance(lc, ast.ListComp) and len(lc.generators) == 1):
            return False
        g = lc.generators[0]
        if g.ifs or g.is_async:
            raise Unsupported("task list: filtered comprehension")
        it = g.iter
        if not (isinstance(it, ast.Call) and isinstance(it.func, ast.Attribute) and it.func.attr == "items"
                and not it.args and self.self_field(it.func.value) == "fetchers"):
            raise Unsupported("task list: not over the items of the fetcher dict")
        if not (isinstance(g.target, ast.Tuple) and len(g.target.elts) == 2
                and all(isinstance(e, ast.Name) for e in g.target.elts)):
            raise Unsupported("task list: comprehension target")
        nm, ft = (e.id for e in g.target.elts)
        e = lc.elt
        ok = (isinstance(e, ast.Call) and ast.unparse(e.func) == "asyncio.create_task" and len(e.args) == 1
              and len(e.keywords) == 1 and e.keywords[0].arg == "name" and isinstance(e.keywords[0].value, ast.Name)
              and e.keywords[0].value.id == nm and ast.unparse(e.args[0]) == f"{ft}.fetch_next()")
        if not ok:
            raise Unsupported("task list: the tasks are not `create_task(<fetcher>.fetch_next(), name=<its name>)`")
        return True

    def call(self, n: ast.Call, awaited: bool, env: Env, ctx: Ctx, k: Callable):
        f = n.func
        if any(kw.arg is None for kw in n.keywords) or any(isinstance(a, ast.Starred) for a in n.args):
            raise Unsupported("star arguments")
        if isinstance(f, ast.Attribute) and ast.unparse(f) == "asyncio.wait":
            if not awaited:
                raise Unsupported("asyncio.wait without await")
            if len(n.args) != 1 or len(n.keywords) != 1 or n.keywords[0].arg != "return_when":
                raise Unsupported("asyncio.wait: arguments")
            if ast.unparse(n.keywords[0].value) != "asyncio.ALL_COMPLETED":
                raise Unsupported("asyncio.wait does not wait for ALL_COMPLETED")

            def wait(tv, e: Env):
                if not (isinstance(tv, Val) and tv.ty == "FetchTasks"):
                    raise Unsupported("asyncio.wait: not on the list of `create_task(<fetcher>.fetch_next(), name=…)`")
                r, p, s1 = self.fresh("x"), self.fresh("x"), self.fresh("s")
                return Match(f"Pull.gather {e.st}", [
                    (".block", Leaf(".block")),
                    (f".got {r} {p} {s1}", k((Val(r, "Tasks"), Val(p, "Tasks")), e.state(s1)))])
            return self.ev(n.args[0], env, ctx, wait)
        if isinstance(f, ast.Name):
            if f.id == "Sample" and len(n.args) + len(n.keywords) == 2:
                by_name = dict(zip(["timestamp", "value"], n.args))
                for kw in n.keywords:
                    if kw.arg in by_name or kw.arg not in ("timestamp", "value"):
                        raise Unsupported(f"call {ast.unparse(n)}")
                    by_name[kw.arg] = kw.value
                order = list(n.args) + [kw.value for kw in n.keywords]  # Python evaluates in source order

                def mk(i: int, got: dict, e: Env):
                    if i < len(order):
                        key = next(kk for kk, vv in by_name.items() if vv is order[i])
                        return self.ev(order[i], e, ctx, lambda v, e2: mk(i + 1, {**got, key: v}, e2))
                    return k(Val(f"⟨{self.coerce(got['timestamp'], 'Int')}, {self.coerce(got['value'], 'Res')}⟩",
                                 "Sample"), e)
                return mk(0, {}, env)
            if n.keywords:
                raise Unsupported(f"call {ast.unparse(n)}")
            if f.id == "iter" and len(n.args) == 1:
                return self.ev(n.args[0], env, ctx, lambda v, e: k(self.expect(v, ("Tasks", "Names")), e))
            if f.id == "next" and len(n.args) == 1:
                def head(v: Val, e: Env):
                    v = self.expect(v, ("Tasks", "Names"))
                    x, r = self.fresh("x"), self.fresh("x")
                    return Match(v.term, [("[]", ctx.exc(".fault", e)),
                                          (f"{x} :: {r}", k(Val(x, ELEM[v.ty]), e))])
                return self.ev(n.args[0], env, ctx, head)
            if f.id == "max" and len(n.args) == 1:
                a = n.args[0]
                if (isinstance(a, ast.Call) and isinstance(a.func, ast.Attribute) and a.func.attr == "keys"
                        and not a.args):
                    a = a.func.value

                def mx(v: Val, e: Env):
                    if v.ty != "Dict":
                        raise Unsupported(f"max of a {v.ty}")
                    x = self.fresh("x")
                    return Match(f"Dict.maxKey {atom(v.term)}", [("none", ctx.exc(".fault", e)),
                                                                  (f"some {x}", k(Val(x, "Int"), e))])
                return self.ev(a, env, ctx, mx)
            if f.id in ("any", "all") and len(n.args) == 1 and isinstance(n.args[0], ast.GeneratorExp):
                g = n.args[0]
                if len(g.generators) != 1 or g.generators[0].ifs or g.generators[0].is_async \
                        or not isinstance(g.generators[0].target, ast.Name):
                    raise Unsupported("any(): generator shape")
                var = g.generators[0].target.id

                def anyv(v: Val, e: Env):
                    v = self.expect(v, ("Tasks",))
                    x = self.fresh("x")
                    body = self.pure_bool(g.elt, {var: Val(x, ELEM[v.ty])})
                    return k(Val(f"({atom(v.term)}.{f.id} (fun {x} => {body}))", "Bool"), e)
                return self.ev(g.generators[0].iter, env, ctx, anyv)
            if f.id in ("isnan", "isinf") and len(n.args) == 1:
                return self.ev(n.args[0], env, ctx, lambda v, e: k(
                    Val(f"decide ({self.coerce(self.expect(v, ('Res',)), 'Res')} = none)", "Bool"), e))
            raise Unsupported(f"call {ast.unparse(n)}")
        if not isinstance(f, ast.Attribute):
            raise Unsupported(f"call {ast.unparse(f)}")
        # self.<create>(res)  /  self.<method>(…)
        if isinstance(f.value, ast.Name) and f.value.id == "self":
            if self.info.role(f.attr) == "create":
                if len(n.args) != 1 or n.keywords or awaited:
                    raise Unsupported("create method call")
                return self.ev(n.args[0], env, ctx, lambda v, e: k(self.expect(v, ("Res",)), e))
            if f.attr not in self.info.methods:
                raise Unsupported(f"call self.{f.attr}")
            fn = self.info.methods[f.attr]
            if isinstance(fn, ast.AsyncFunctionDef) != awaited:
                raise Unsupported(f"self.{f.attr}: await/async mismatch")
            names = [a.arg for a in self.params_of(f.attr)]
            if len(n.args) > len(names):
                raise Unsupported("too many arguments")
            exprs = list(zip(names, n.args)) + [(kw.arg, kw.value) for kw in n.keywords]
            if sorted(p for p, _ in exprs) != sorted(names):
                raise Unsupported(f"arguments of self.{f.attr}")
            inline = f.attr not in REQUIRED  # helpers are inlined; the methods the tie talks about are functions

            def args_then(i: int, got: list, e: Env):
                if i < len(exprs):
                    return self.ev(exprs[i][1], e, ctx, lambda v, e2: args_then(i + 1, got + [(exprs[i][0], v)], e2))
                bound = dict(got)
                if any(not isinstance(v, Val) for v in bound.values()):
                    raise Unsupported("a tuple passed as an argument")
                if inline:
                    return self.inline(f.attr, [(p, bound[p]) for p in names], e, ctx, k)
                m = self.method(f.attr)
                vals = "".join(" " + atom(self.coerce(self.narrowed(bound[py], e), ty)) for py, _, ty in m.params)
                ek, s1, v1 = self.fresh("e"), self.fresh("s"), self.fresh("v")
                e1 = e.state(s1)
                return Match(f"{m.lean} f{vals} {e.st}", [
                    (".block", Leaf(".block")),
                    (f".exc {ek} {s1}", ctx.exc(ek, e1)),
                    (f".ok {v1} {s1}", k(Val(v1, m.retty), e1))])
            return args_then(0, [], env)
        if n.keywords or len(n.args) > 0 and f.attr not in ():
            raise Unsupported(f"call {ast.unparse(n)}")

        def on(v, e: Env):
            if not isinstance(v, Val):
                raise Unsupported(f"call {ast.unparse(n)}")
            if v.ty == "Fetcher" and f.attr == "fetch_next":
                if not awaited:
                    raise Unsupported("fetch_next() without await")
                s1, v1 = self.fresh("s"), self.fresh("v")
                return Match(f"Pull.fetchNext {atom(v.term)} {e.st}", [
                    (".block", Leaf(".block")),
                    (f".got {v1} {s1}", k(Val(v1, "OptSample"), e.state(s1)))])
            if awaited:
                raise Unsupported(f"await {ast.unparse(n)}")
            if v.ty == "Task" and f.attr == "result":
                return k(Val(f"{v.term}.2", "OptSample"), e)
            if v.ty == "Task" and f.attr == "get_name":
                return k(Val(f"{v.term}.1", "Name"), e)
            if v.ty == "Dict" and f.attr == "items":
                return k(v, e)
            if v.ty == "Stack" and f.attr == "pop":
                return k(Val(f"(f {atom(v.term)})", "Res"), e)
            raise Unsupported(f"call {ast.unparse(n)}")
        return self.ev(f.value, env, ctx, on)

    @staticmethod
    def expect(v, tys: tuple) -> Val:
        if not (isinstance(v, Val) and v.ty in tys):
            raise Unsupported(f"expected {'/'.join(tys)}, got {getattr(v, 'ty', 'a tuple')}")
        return v

    def pure_bool(self, n: ast.expr, scope: dict) -> str:
        """A test without effects on the variables of `scope` (generator bodies)."""
        if isinstance(n, ast.Compare) and len(n.ops) == 1 and isinstance(n.ops[0], (ast.Is, ast.IsNot)) \
                and isinstance(n.comparators[0], ast.Constant) and n.comparators[0].value is None:
            v = self.pure_val(n.left, scope)
            if v.ty != "OptSample":
                raise Unsupported("None test of a non-optional in a generator")
            return f"{v.term}.isNone" if isinstance(n.ops[0], ast.Is) else f"{v.term}.isSome"
        if isinstance(n, ast.BoolOp):
            op = " && " if isinstance(n.op, ast.And) else " || "
            return "(" + op.join(self.pure_bool(v, scope) for v in n.values) + ")"
        if isinstance(n, ast.UnaryOp) and isinstance(n.op, ast.Not):
            return f"(!{self.pure_bool(n.operand, scope)})"
        raise Unsupported(f"generator test {ast.unparse(n)}")

    def pure_val(self, n: ast.expr, scope: dict) -> Val:
        if isinstance(n, ast.Name) and n.id in scope:
            return scope[n.id]
        if isinstance(n, ast.Call) and isinstance(n.func, ast.Attribute) and not n.args and not n.keywords:
            v = self.pure_val(n.func.value, scope)
            if v.ty == "Task" and n.func.attr == "result":
                return Val(f"{v.term}.2", "OptSample")
            if v.ty == "Task" and n.func.attr == "get_name":
                return Val(f"{v.term}.1", "Name")
        raise Unsupported(f"generator expression {ast.unparse(n)}")

    # ------------------------------------------------------------ conditions
    def cond(self, n: ast.expr, env: Env, ctx: Ctx, kt: Callable, kf: Callable):
        if isinstance(n, ast.BoolOp):
            first, rest = n.values[0], n.values[1:]
            tail = rest[0] if len(rest) == 1 else ast.BoolOp(op=n.op, values=rest)
            if isinstance(n.op, ast.And):
                return self.cond(first, env, ctx, lambda e: self.cond(tail, e, ctx, kt, kf), kf)
            return self.cond(first, env, ctx, kt, lambda e: self.cond(tail, e, ctx, kt, kf))
        if isinstance(n, ast.UnaryOp) and isinstance(n.op, ast.Not):
            return self.cond(n.operand, env, ctx, kf, kt)
        if isinstance(n, ast.Compare):
            if len(n.ops) != 1:
                raise Unsupported("chained comparison")
            lt = self.stack_len_test(n, env)
            if lt is not None:
                good, bad = (kt, kf) if lt == "eq" else (kf, kt)
                other = bad(env)
                if not (isinstance(other, Leaf) and other.s.startswith(".exc .runtime ")):
                    raise Unsupported("the path of a malformed evaluation stack does more than raise RuntimeError")
                return good(env)
            op, right = n.ops[0], n.comparators[0]
            if isinstance(op, (ast.Is, ast.IsNot)):
                if not (isinstance(right, ast.Constant) and right.value is None):
                    raise Unsupported("`is` with something else than None")
                yes, no = (kt, kf) if isinstance(op, ast.Is) else (kf, kt)

                def test(v, e: Env):
                    v = self.narrowed(self.expect(v, ("None", "Sample", "OptSample")), e)
                    if v.ty == "None":
                        return yes(e)
                    if v.ty == "Sample":
                        return no(e)
                    x = self.fresh("x")
                    return Match(v.term, [("none", yes(e)), (f"some {x}", no(e.narrow(v.term, Val(x, "Sample"))))])
                return self.ev(n.left, env, ctx, test)
            if isinstance(op, (ast.In, ast.NotIn)):
                yes, no = (kt, kf) if isinstance(op, ast.In) else (kf, kt)

                def member(a, b, e: Env):
                    if not (isinstance(b, Val) and b.ty == "Dict"):
                        raise Unsupported("`in` on something else than the dict")
                    return If(f"Dict.has {atom(b.term)} {atom(self.coerce(a, 'Int'))} = true", yes(e), no(e))
                return self.ev(n.left, env, ctx, lambda a, e: self.ev(right, e, ctx, lambda b, e2: member(a, b, e2)))
            sym = {ast.Lt: "<", ast.LtE: "≤", ast.Gt: ">", ast.GtE: "≥", ast.Eq: "=", ast.NotEq: "≠"}.get(type(op))
            if sym is None:
                raise Unsupported(f"comparison {type(op).__name__}")

            def cmp(a, b, e: Env):
                if not (isinstance(a, Val) and isinstance(b, Val) and a.ty == "Int" and b.ty == "Int"):
                    raise Unsupported(f"comparison of {getattr(a, 'ty', '?')} with {getattr(b, 'ty', '?')}")
                return If(f"{a.term} {sym} {b.term}", kt(e), kf(e))
            return self.ev(n.left, env, ctx, lambda a, e: self.ev(right, e, ctx, lambda b, e2: cmp(a, b, e2)))

        def truth(v, e: Env):
            if isinstance(v, Val) and v.ty == "Tasks":  # a set of tasks is truthy iff non-empty
                return Match(v.term, [("[]", kf(e)), ("_ :: _", kt(e))])
            if not (isinstance(v, Val) and v.ty == "Bool"):
                raise Unsupported(f"truth value of {ast.unparse(n)}")
            if v.term == "true":
                return kt(e)
            if v.term == "false":
                return kf(e)
            return If(f"{v.term} = true", kt(e), kf(e))
        return self.ev(n, env, ctx, truth)


def generate(repo: pathlib.Path) -> str:
    src = (repo / SOURCES[0]).read_text()
    info = ClassInfo(ast.parse(src))
    tr = EvalTranslator(info)
    tr.method(ENTRY)
    for m in REQUIRED:
        if m not in tr.done:
            raise Unsupported(f"{CLASS}.{m} is no longer reached from {ENTRY}")
    fld = {v: k for k, v in info.fields.items()}
    head = (
        "import Frequenz.Model.Pull\nimport Frequenz.Model.Evaluator\n\n"
        "/-!\n"
        f"`{CLASS}.{ENTRY}` and the methods it reaches, translated statement by statement (see the docstring of\n"
        "`tools/extractors/evaluator_pull.py` for the scheme and `Frequenz/Model/Pull.lean` for the state and outcomes).\n\n"
        f"Resolved by dataflow:  fetcher dict = `self.{fld['fetchers']}`,  steps = `self.{fld['steps']}`,\n"
        f"create method = `self.{fld['create']}`,  first-run flag = `self.{fld['first']}`.\n"
        "-/\n\n"
        "set_option linter.unusedVariables false\n\n"
        "namespace Extracted.EvaluatorPull\nopen Pull\n\n"
        "abbrev Sample := Evaluator.Sample\n\n"
        "/-- what the steps push for the fetchers, in the order of the fetcher dict: the value of each fetcher's current\n"
        "sample (the formula `f` is applied to it by `stack.pop()`). -/\n"
        "def runSteps (s : EvSt Sample) : List (Option Rat) :=\n"
        "  s.names.map (fun i => match s.cur i with | some v => v.val | none => none)\n\n"
    )
    return head + "\n".join(tr.defs) + "\nend Extracted.EvaluatorPull\n"
