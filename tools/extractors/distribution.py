"""Battery distribution algorithm -> Lean definitions of every arithmetic expression and branch condition.

The algorithm itself has loops over dicts and is modelled by hand (`Frequenz/Model/Distribution.lean`), but
each *expression* the loops evaluate — shares, reservations, excess/deficit values, the three-way branch, the
deficit-covering tests, the `-0.1` left-over accounting, the greedy top-up, the per-inverter split, the
supply/consume bound selection, tolerances — is located in the AST and translated here.  The model calls these
definitions, so an edit of a formula, a comparison operator or a constant changes the Lean terms the theorems
are about.

An expression `e` becomes `def <name> (a0 a1 … : Rat) : Rat|Prop := e'` where `a0, a1, …` are the *leaves* of
`e` (names, attribute chains, subscripts, generator aggregates) numbered in order of first appearance, which
makes the translation independent of the names of locals.  The expected number of leaves is checked.

Statements are located by ROLE (shape + dataflow), never by the name of a local or by position:
"the `(a*b)/c` expression of the loop", "the accumulator that is increased by a `max(...)`", "the arm of the
`if` that contains the `-=`", "the dict the second loop iterates", ...  Before matching, every function is
normalised: annotated assignments become plain ones, trivially extracted private helpers (`return <expr>`
methods of the same class) are inlined, guard clauses (`if c: …; continue|return` followed by more
statements) become `if c: … else: <rest>`.  A branch condition is read off the PATH to the statement that
plays the role (tests with polarity) and put into negation normal form (`not` pushed through `and`/`or` and into
comparisons, chained comparisons split), so `if not c: A else: B`, De Morgan rewrites and early `continue`
give the same Lean term as the original.  If a role cannot be found unambiguously, `generate` raises.
"""
from __future__ import annotations

import ast
import copy
import pathlib
from fractions import Fraction

import py2lean

NAME = "Distribution"
ALGO = "src/frequenz/sdk/microgrid/_power_distributing/_distribution_algorithm/_battery_distribution_algorithm.py"
MATH = "src/frequenz/sdk/_internal/_math.py"
MGR = "src/frequenz/sdk/microgrid/_power_distributing/_component_managers/_battery_manager.py"
POOL = "src/frequenz/sdk/timeseries/battery_pool/_metric_calculator.py"
SOURCES = [ALGO, MATH, MGR, POOL]


class Bad(Exception):
    pass


# --------------------------------------------------------------------------- expression translation
STRUCT_CALLS = {"max", "min", "is_close_to_zero", "math.isclose"}


def _is_struct(n: ast.AST) -> bool:
    """Nodes the translator descends into (everything else is a leaf = a parameter)."""
    if isinstance(n, (ast.BinOp, ast.UnaryOp, ast.Compare, ast.BoolOp, ast.Constant)):
        return True
    if isinstance(n, ast.Call):
        f = ast.unparse(n.func)
        if f in ("max", "min") and len(n.args) == 2 and not n.keywords:
            return True
        if f in ("is_close_to_zero", "math.isclose"):
            return True
    return False


class _Leaves(ast.NodeTransformer):
    def __init__(self) -> None:
        self.names: dict[str, str] = {}

    def generic_visit(self, node: ast.AST) -> ast.AST:  # type: ignore[override]
        return super().generic_visit(node)

    def visit(self, node: ast.AST) -> ast.AST:  # type: ignore[override]
        if isinstance(node, ast.expr) and not _is_struct(node):
            src = ast.unparse(node)
            if src not in self.names:
                self.names[src] = f"a{len(self.names)}"
            return ast.copy_location(ast.Name(id=self.names[src], ctx=ast.Load()), node)
        if isinstance(node, ast.Call):
            # keep the callee, transform the arguments only
            node.args = [self.visit(a) for a in node.args]  # type: ignore[assignment]
            for k in node.keywords:
                k.value = self.visit(k.value)  # type: ignore[assignment]
            return node
        return self.generic_visit(node)


class _Tr(py2lean.Translator):
    def expr(self, n, env):  # type: ignore[override]
        if isinstance(n, ast.Constant) and isinstance(n.value, (int, float)) and not isinstance(n.value, bool):
            fr = Fraction(repr(n.value)) if isinstance(n.value, float) else Fraction(n.value)
            if fr.denominator == 1:
                return f"({fr.numerator} : Rat)"
            return f"(({fr.numerator} : Rat) / {fr.denominator})"
        if isinstance(n, ast.UnaryOp) and isinstance(n.op, ast.USub):
            return f"(-{self.expr(n.operand, env)})"
        return super().expr(n, env)

    def bexpr(self, n, env):  # type: ignore[override]
        raise py2lean.Unsupported("boolean used as a value")

    def prop(self, n, env):  # type: ignore[override]
        if isinstance(n, ast.Call):
            f = ast.unparse(n.func)
            if f == "is_close_to_zero" and len(n.args) == 1 and not n.keywords:
                return f"isCloseToZero {self._atom(self.expr(n.args[0], env))}"
            if f == "math.isclose" and len(n.args) == 2 and not n.keywords:
                a, b = (self._atom(self.expr(x, env)) for x in n.args)
                return f"isClose {a} {b}"
            raise py2lean.Unsupported(f"call {f} in a condition")
        if isinstance(n, ast.BoolOp):
            j = " ∧ " if isinstance(n.op, ast.And) else " ∨ "
            return "(" + j.join(f"({self.prop(v, env)})" for v in n.values) + ")"
        if isinstance(n, ast.UnaryOp) and isinstance(n.op, ast.Not):
            return f"¬ ({self.prop(n.operand, env)})"
        return super().prop(n, env)


def lean_def(name: str, node: ast.expr, arity: int, kind: str, doc: str) -> str:
    """kind: 'val' (Rat-valued) or 'prop' (decidable Prop)."""
    lv = _Leaves()
    node = lv.visit(ast.parse(ast.unparse(node), mode="eval").body)
    if len(lv.names) != arity:
        raise Bad(f"{name}: expected {arity} operands, found {sorted(lv.names)} in `{doc}`")
    params = " ".join(f"({p} : Rat)" for p in lv.names.values())
    tr = _Tr({})
    env = py2lean.Env()
    operands = ", ".join(f"{v} = {k}" for k, v in lv.names.items())
    head = f"/-- `{doc}`   ({operands}) -/\n"
    if kind == "val":
        return head + f"def {name} {params} : Rat :=\n  {tr.expr(node, env)}\n"
    body = tr.prop(node, env)
    args = " ".join(lv.names.values())
    return (head + f"def {name} {params} : Prop :=\n  {body}\n"
            f"instance {params.replace('(', '{').replace(')', '}')} : Decidable ({name} {args}) := by\n"
            f"  unfold {name}; exact inferInstance\n")


# --------------------------------------------------------------------------- normalisation
def _class_of(tree: ast.AST, fn_name: str) -> ast.ClassDef | None:
    for n in ast.walk(tree):
        if isinstance(n, ast.ClassDef) and any(isinstance(m, (ast.FunctionDef, ast.AsyncFunctionDef)) and m.name == fn_name
                                               for m in n.body):
            return n
    return None


def _func(tree: ast.AST, name: str) -> ast.FunctionDef:
    for n in ast.walk(tree):
        if isinstance(n, (ast.FunctionDef, ast.AsyncFunctionDef)) and n.name == name:
            return n  # type: ignore[return-value]
    raise Bad(f"function {name} not found")


def _no_doc(body: list[ast.stmt]) -> list[ast.stmt]:
    return [s for s in body if not (isinstance(s, ast.Expr) and isinstance(s.value, ast.Constant)
                                    and isinstance(s.value.value, str))]


class _Subst(ast.NodeTransformer):
    def __init__(self, m: dict[str, ast.expr]):
        self.m = m

    def visit_Name(self, node: ast.Name) -> ast.AST:  # noqa: N802
        if node.id in self.m and isinstance(node.ctx, ast.Load):
            return copy.deepcopy(self.m[node.id])
        return node


class _InlineHelpers(ast.NodeTransformer):
    """`self._helper(a, b)` -> body expression of a same-class method that only returns an expression."""

    def __init__(self, cls: ast.ClassDef | None):
        self.helpers: dict[str, ast.FunctionDef] = {}
        for m in (cls.body if cls is not None else []):
            if isinstance(m, ast.FunctionDef):
                body = _no_doc(m.body)
                if len(body) == 1 and isinstance(body[0], ast.Return) and body[0].value is not None \
                        and not m.args.vararg and not m.args.kwarg and not m.args.kwonlyargs:
                    self.helpers[m.name] = m

    def visit_Call(self, node: ast.Call) -> ast.AST:  # noqa: N802
        self.generic_visit(node)
        f = node.func
        if isinstance(f, ast.Attribute) and isinstance(f.value, ast.Name) and f.value.id == "self" and f.attr in self.helpers:
            m = self.helpers[f.attr]
            params = [a.arg for a in m.args.args][1:]
            if node.keywords or len(node.args) != len(params):
                return node
            body = _no_doc(m.body)[0]
            expr = copy.deepcopy(body.value)  # type: ignore[attr-defined]
            return _Subst(dict(zip(params, node.args))).visit(expr)
        return node


def _ends_block(stmts: list[ast.stmt]) -> bool:
    return bool(stmts) and isinstance(stmts[-1], (ast.Continue, ast.Return, ast.Break, ast.Raise))


def _norm_block(stmts: list[ast.stmt]) -> list[ast.stmt]:
    """AnnAssign -> Assign; guard clauses -> if/else; recursively."""
    out: list[ast.stmt] = []
    stmts = _no_doc(stmts)
    for i, s in enumerate(stmts):
        if isinstance(s, ast.AnnAssign):
            if s.value is None:
                continue
            s = ast.copy_location(ast.Assign(targets=[s.target], value=s.value), s)
        if isinstance(s, ast.If):
            body, orelse = _norm_block(s.body), _norm_block(s.orelse)
            rest = stmts[i + 1:]
            if rest and _ends_block(body) and not _ends_block(orelse):
                out.append(ast.copy_location(ast.If(test=s.test, body=body, orelse=orelse + _norm_block(rest)), s))
                return out
            if rest and orelse and _ends_block(orelse) and not _ends_block(body):
                out.append(ast.copy_location(ast.If(test=s.test, body=body + _norm_block(rest), orelse=orelse), s))
                return out
            out.append(ast.copy_location(ast.If(test=s.test, body=body, orelse=orelse), s))
        elif isinstance(s, (ast.For, ast.While)):
            t = copy.copy(s)
            t.body = _norm_block(s.body)
            t.orelse = _norm_block(s.orelse)
            out.append(t)
        else:
            out.append(s)
    return out


def _norm_func(tree: ast.AST, name: str) -> ast.FunctionDef:
    fn = copy.deepcopy(_func(tree, name))
    fn = _InlineHelpers(_class_of(tree, name)).visit(fn)
    fn.body = _norm_block(fn.body)
    ast.fix_missing_locations(fn)
    return fn


# --------------------------------------------------------------------------- conditions
_FLIP = {ast.Lt: ast.GtE, ast.LtE: ast.Gt, ast.Gt: ast.LtE, ast.GtE: ast.Lt, ast.Eq: ast.NotEq, ast.NotEq: ast.Eq}


def nnf(e: ast.expr, neg: bool = False) -> ast.expr:
    """Negation normal form; chained comparisons are split into conjunctions."""
    if isinstance(e, ast.UnaryOp) and isinstance(e.op, ast.Not):
        return nnf(e.operand, not neg)
    if isinstance(e, ast.BoolOp):
        op = e.op
        if neg:
            op = ast.Or() if isinstance(e.op, ast.And) else ast.And()
        return ast.BoolOp(op=op, values=[nnf(v, neg) for v in e.values])
    if isinstance(e, ast.Compare):
        if len(e.ops) > 1:
            parts: list[ast.expr] = []
            left = e.left
            for op, right in zip(e.ops, e.comparators):
                parts.append(ast.Compare(left=left, ops=[op], comparators=[right]))
                left = right
            return nnf(ast.BoolOp(op=ast.And(), values=parts), neg)
        if not neg:
            return e
        for k, v in _FLIP.items():
            if isinstance(e.ops[0], k):
                return ast.Compare(left=e.left, ops=[v()], comparators=e.comparators)
        raise Bad(f"cannot negate {ast.unparse(e)}")
    return ast.UnaryOp(op=ast.Not(), operand=e) if neg else e


Path = list  # of (test, polarity)


def _walk_paths(stmts: list[ast.stmt], path: Path, into_loops: bool = True):
    """Yield (statement, path) for every statement below `stmts`; path = [(test, polarity)] of the enclosing ifs."""
    for s in stmts:
        yield s, path
        if isinstance(s, ast.If):
            yield from _walk_paths(s.body, path + [(s.test, True)], into_loops)
            yield from _walk_paths(s.orelse, path + [(s.test, False)], into_loops)
        elif isinstance(s, (ast.For, ast.While)) and into_loops:
            yield from _walk_paths(s.body, path, into_loops)


def _cond(path: Path, what: str, last_only: bool = False, negate: bool = False) -> ast.expr:
    """The condition a path stands for (conjunction of its polarised tests), in negation normal form."""
    if not path:
        raise Bad(f"{what}: unconditional")
    if last_only:
        path = path[-1:]
    parts = [t if pol else ast.UnaryOp(op=ast.Not(), operand=t) for t, pol in path]
    e: ast.expr = parts[0] if len(parts) == 1 else ast.BoolOp(op=ast.And(), values=parts)
    return nnf(e, negate)


def _one(xs: list, what: str):
    if len(xs) != 1:
        raise Bad(f"{what}: expected exactly one candidate, found {len(xs)}")
    return xs[0]


def _contains(n: ast.AST, pred) -> bool:
    return any(pred(c) for c in ast.walk(n))


def _is_call(n: ast.AST, name: str, nargs: int | None = None) -> bool:
    return isinstance(n, ast.Call) and ast.unparse(n.func) == name and (nargs is None or len(n.args) == nargs)


def _stmts_in(scope: list[ast.stmt], into_loops: bool = True) -> list[tuple[ast.stmt, Path]]:
    return list(_walk_paths(scope, [], into_loops))


def _tsrc(s: ast.stmt) -> str:
    if isinstance(s, ast.Assign):
        if len(s.targets) != 1:
            raise Bad("multiple assignment targets")
        return ast.unparse(s.targets[0])
    return ast.unparse(s.target)  # type: ignore[attr-defined]


def _target(s: ast.stmt) -> ast.expr:
    if isinstance(s, ast.Assign):
        if len(s.targets) != 1:
            raise Bad("multiple assignment targets")
        return s.targets[0]
    return s.target  # type: ignore[attr-defined]


def _kwarg(call: ast.Call, name: str) -> ast.expr:
    for k in call.keywords:
        if k.arg == name:
            return k.value
    raise Bad(f"keyword {name} not found in {ast.unparse(call)[:60]}")


def _strip_from_watts(e: ast.expr) -> ast.expr:
    if isinstance(e, ast.Call) and ast.unparse(e.func) == "Power.from_watts" and len(e.args) == 1:
        return e.args[0]
    raise Bad(f"expected Power.from_watts(...), got {ast.unparse(e)[:60]}")


def _aug_as_binop(s: ast.AugAssign) -> ast.expr:
    return ast.BinOp(left=s.target, op=s.op, right=s.value)  # type: ignore[arg-type]


def _base_name(e: ast.expr) -> str | None:
    """`d[k]` -> 'd', `d[k].attr` -> 'd', `x.attr` -> 'x'."""
    while isinstance(e, (ast.Subscript, ast.Attribute)):
        e = e.value
    return e.id if isinstance(e, ast.Name) else None


# --------------------------------------------------------------------------- generate
HEADER = """import Frequenz.Model.Prelude

namespace Extracted.Dist

/-- `abs` on rationals (core has no `|x|` notation). -/
def absR (x : Rat) : Rat := if x < 0 then -x else x

/-- `max` without tie-breaking concerns (only used inside tolerance tests). -/
def rmax (x y : Rat) : Rat := if x < y then y else x

/-- `math.isclose(a, b, rel_tol=r, abs_tol=t)` of CPython: `|a-b| <= max(r*max(|a|,|b|), t)`. -/
def mathIsClose (a b r t : Rat) : Prop := absR (a - b) ≤ rmax (r * rmax (absR a) (absR b)) t
instance {a b r t : Rat} : Decidable (mathIsClose a b r t) := by unfold mathIsClose; exact inferInstance

/-- CPython's default `rel_tol` of `math.isclose` (1e-09; a language constant, not in the repo). -/
def relTol : Rat := (1 : Rat) / 1000000000
"""


def generate(repo: pathlib.Path) -> str:
    algo = ast.parse((repo / ALGO).read_text())
    mth = ast.parse((repo / MATH).read_text())
    mgr = ast.parse((repo / MGR).read_text())
    out: list[str] = [HEADER]

    # ---- _math.is_close_to_zero
    f = _func(mth, "is_close_to_zero")
    if len(f.args.args) != 2 or len(f.args.defaults) != 1 or not isinstance(f.args.defaults[0], ast.Constant):
        raise Bad("is_close_to_zero signature changed")
    p_val, p_tol = (a.arg for a in f.args.args)
    tol = Fraction(repr(f.args.defaults[0].value))
    consts: dict[str, ast.expr] = {}
    ret = None
    for s in _norm_block(f.body):
        if isinstance(s, ast.Assign) and isinstance(s.targets[0], ast.Name):
            consts[s.targets[0].id] = s.value
        elif isinstance(s, ast.Return):
            ret = s.value
        else:
            raise Bad("is_close_to_zero body changed")
    if not (isinstance(ret, ast.Call) and ast.unparse(ret.func) == "math.isclose"):
        raise Bad("is_close_to_zero no longer returns math.isclose(...)")
    ret = _Subst(consts).visit(copy.deepcopy(ret))
    args = {k.arg: ast.unparse(k.value) for k in ret.keywords}
    for i, a in enumerate(ret.args):
        args[["a", "b"][i]] = ast.unparse(a)
    if args != {"a": p_val, "b": "0.0", "abs_tol": p_tol}:
        raise Bad(f"is_close_to_zero: unexpected math.isclose arguments {args}")
    out.append(f"/-- default `abs_tol` of `_math.is_close_to_zero` -/\n"
               f"def closeTol : Rat := ({tol.numerator} : Rat) / {tol.denominator}\n")
    out.append("/-- `_math.is_close_to_zero(value)` = `math.isclose(a=value, b=0.0, abs_tol=closeTol)` -/\n"
               "def isCloseToZero (value : Rat) : Prop := mathIsClose value 0 relTol closeTol\n"
               "instance {v : Rat} : Decidable (isCloseToZero v) := by unfold isCloseToZero; exact inferInstance\n")
    out.append("/-- `math.isclose(a, b)` with the default tolerances (`abs_tol = 0`) -/\n"
               "def isClose (a b : Rat) : Prop := mathIsClose a b relTol 0\n"
               "instance {a b : Rat} : Decidable (isClose a b) := by unfold isClose; exact inferInstance\n")

    def add(name: str, node: ast.expr, arity: int, kind: str = "val") -> None:
        out.append(lean_def(name, node, arity, kind, ast.unparse(node)))

    def is_max0_sub(n: ast.AST) -> bool:
        return (_is_call(n, "max", 2) and isinstance(n.args[0], ast.Constant)  # type: ignore[attr-defined]
                and isinstance(n.args[1], ast.BinOp) and isinstance(n.args[1].op, ast.Sub))  # type: ignore[attr-defined]

    # ---- available SoC: the `max(<const>, x - y)` of each side
    fc = _norm_func(algo, "_distribute_consume_power")
    add("availConsume", _one([n for n in ast.walk(fc) if is_max0_sub(n)], "consume: max(0.0, a - b)"), 2)
    fs = _norm_func(algo, "_distribute_supply_power")
    add("availSupply", _one([n for n in ast.walk(fs) if is_max0_sub(n)], "supply: max(0.0, a - b)"), 2)
    # sign handling of the supply side: the power handed to `_distribute_power`, `*=` on set-points and remainder
    call = _one([n for n in ast.walk(fs) if _is_call(n, "self._distribute_power", 5)], "supply: self._distribute_power(...)")
    add("supplyPowerIn", call.args[1], 1)
    augs = [s for s, _ in _stmts_in(fs.body) if isinstance(s, ast.AugAssign) and isinstance(s.op, ast.Mult)]
    add("supplySetpointOut", _aug_as_binop(_one([s for s in augs if isinstance(s.target, ast.Subscript)],
                                                "supply: `<set-point>[...] *= …`")), 1)
    add("supplyRemainingOut", _aug_as_binop(_one([s for s in augs if isinstance(s.target, ast.Attribute)],
                                                 "supply: `<result>.remaining_power *= …`")), 1)
    fcall = _one([n for n in ast.walk(fc) if _is_call(n, "self._distribute_power", 5)], "consume: self._distribute_power(...)")
    if not (isinstance(fcall.args[1], ast.Name) and fcall.args[1].id == fc.args.args[1].arg):
        raise Bad("_distribute_consume_power no longer passes its power through unchanged")

    # ---- _inclusion_exclusion_bounds: roles from the returned tuple, the inner loop variable and the `supply` flag
    fb = _norm_func(algo, "_inclusion_exclusion_bounds")
    if len(fb.args.args) != 3:
        raise Bad("_inclusion_exclusion_bounds signature changed")
    flag = fb.args.args[2].arg
    rets = [s for s, _ in _stmts_in(fb.body) if isinstance(s, ast.Return)]
    rv = _one(rets, "_inclusion_exclusion_bounds: return").value
    if not (isinstance(rv, ast.Tuple) and len(rv.elts) == 2 and all(isinstance(e, ast.Name) for e in rv.elts)):
        raise Bad("_inclusion_exclusion_bounds no longer returns (incl, excl)")
    dict_role = {rv.elts[0].id: "Incl", rv.elts[1].id: "Excl"}  # type: ignore[attr-defined]
    fors = [s for s, _ in _stmts_in(fb.body) if isinstance(s, ast.For)]
    inner = [l for l in fors if any(l in ast.walk(o) and l is not o for o in fors)]
    inv_var = _one(inner, "_inclusion_exclusion_bounds: inner loop").target
    if not isinstance(inv_var, ast.Name):
        raise Bad("_inclusion_exclusion_bounds: inner loop variable")
    found: dict[str, ast.expr] = {}
    for s, path in _stmts_in(fb.body):
        if not (isinstance(s, ast.Assign) and isinstance(s.targets[0], ast.Subscript)):
            continue
        t = s.targets[0]
        d = _base_name(t)
        if d not in dict_role:
            continue
        side = None
        for test, pol in path:
            if ast.unparse(nnf(test)) == flag:
                side = "Supply" if pol else "Consume"
            elif ast.unparse(nnf(test, True)) == flag:
                side = "Consume" if pol else "Supply"
            else:
                raise Bad(f"_inclusion_exclusion_bounds: unexpected condition {ast.unparse(test)}")
        if side is None:
            raise Bad("_inclusion_exclusion_bounds: assignment outside the supply/consume branches")
        who = "inv" if _base_name(t.slice) == inv_var.id else "bat"
        key = who + dict_role[d] + side
        if key in found:
            raise Bad(f"_inclusion_exclusion_bounds: {key} assigned twice")
        found[key] = s.value
    for side in ("Consume", "Supply"):
        for who, role, ar in (("bat", "Excl", 1), ("bat", "Incl", 1), ("inv", "Excl", 1), ("inv", "Incl", 2)):
            k = who + role + side
            if k not in found:
                raise Bad(f"_inclusion_exclusion_bounds: {k} not found")
            add(k, found[k], ar)

    # ---- _compute_battery_availability_ratio
    fr = _norm_func(algo, "_compute_battery_availability_ratio")
    stm = _stmts_in(fr.body)

    def local_def(name: str, scope_stmts) -> ast.expr:
        return _one([s for s, _ in scope_stmts if isinstance(s, ast.Assign) and _tsrc(s) == name], f"definition of {name}").value

    ar_call = _one([n for n in ast.walk(fr) if _is_call(n, "AvailabilityRatio")], "AvailabilityRatio(...)")
    if len(ar_call.args) != 3 or not isinstance(ar_call.args[2], ast.Name):
        raise Bad("AvailabilityRatio(battery_id, inverter_ids, ratio, min_power=…) changed")
    ratio_e = local_def(ar_call.args[2].id, stm)
    if not (isinstance(ratio_e, ast.BinOp) and isinstance(ratio_e.op, ast.Mult)
            and all(isinstance(x, ast.Name) for x in (ratio_e.left, ratio_e.right))):
        raise Bad("ratio is no longer <capacity ratio> * <soc factor>")
    defs = {x.id: local_def(x.id, stm) for x in (ratio_e.left, ratio_e.right)}  # type: ignore[attr-defined]
    cap_v = [k for k, v in defs.items() if isinstance(v, ast.BinOp) and isinstance(v.op, ast.Div)]
    soc_v = [k for k, v in defs.items() if _is_call(v, "pow", 2)]
    if len(cap_v) != 1 or len(soc_v) != 1:
        raise Bad("ratio: operands are no longer a quotient and a pow(...)")
    add("capRatio", defs[cap_v[0]], 2)
    if ast.unparse(defs[soc_v[0]].args[1]) != "self._distributor_exponent":  # type: ignore[attr-defined]
        raise Bad("soc_factor is no longer pow(<available soc>, self._distributor_exponent)")
    out.append("/-- `soc_factor = pow(available_soc[...], self._distributor_exponent)` (natural exponents; "
               "`pow(0.0, 0) = 1`) -/\ndef socFactor (a : Rat) (e : Nat) : Rat := a ^ e\n")
    # parameters of ratioOf in the order (capacity ratio, soc factor), whatever the order of the factors
    ordered = ast.BinOp(left=ast.Name(id=cap_v[0]), op=ast.Mult(), right=ast.Name(id=soc_v[0])) \
        if ratio_e.left.id == cap_v[0] else ratio_e  # type: ignore[attr-defined]
    out.append(lean_def("ratioOf", ordered, 2, "val", ast.unparse(ratio_e))
               if ratio_e.left.id == cap_v[0] else  # type: ignore[attr-defined]
               lean_def("ratioOf", ast.BinOp(left=ast.Name(id=soc_v[0]), op=ast.Mult(), right=ast.Name(id=cap_v[0])), 2,
                        "val", ast.unparse(ratio_e)).replace("(a0 : Rat) (a1 : Rat)", "(a1 : Rat) (a0 : Rat)"))
    add("minPower", _kwarg(ar_call, "min_power"), 2)
    sorts = [n for n in ast.walk(fr) if isinstance(n, ast.Call) and isinstance(n.func, ast.Attribute) and n.func.attr == "sort"
             and any(k.arg == "key" and isinstance(k.value, ast.Lambda) and isinstance(k.value.body, ast.Tuple)
                     and all(isinstance(e, ast.Attribute) for e in k.value.body.elts) for k in n.keywords)]
    sort = _one(sorts, "sort of the availability ratios")
    key = _kwarg(sort, "key")
    rev = _kwarg(sort, "reverse") if any(k.arg == "reverse" for k in sort.keywords) else ast.Constant(value=False)
    if not (isinstance(rev, ast.Constant) and isinstance(rev.value, bool)):
        raise Bad("sort: reverse is not a literal")
    arg = key.args.args[0].arg  # type: ignore[attr-defined]
    fields = []
    for e in key.body.elts:  # type: ignore[attr-defined]
        if not (isinstance(e.value, ast.Name) and e.value.id == arg and e.attr in ("min_power", "ratio")):
            raise Bad(f"sort: unsupported key component {ast.unparse(e)}")
        fields.append({"min_power": "m", "ratio": "r"}[e.attr])
    lex = "False"
    for fld in reversed(fields):
        lex = f"{fld}1 < {fld}2 ∨ ({fld}1 = {fld}2 ∧ ({lex}))"
    out.append(f"/-- `<ratios>.sort(key=(" + ", ".join("min_power" if x == "m" else "ratio" for x in fields) +
               f"), reverse={rev.value})`: strict order of the keys -/\n"
               f"def sortKeyLt (m1 r1 m2 r2 : Rat) : Prop :=\n  {lex}\n"
               "instance {m1 r1 m2 r2 : Rat} : Decidable (sortKeyLt m1 r1 m2 r2) := by unfold sortKeyLt; exact inferInstance\n"
               f"def sortReverse : Bool := {'true' if rev.value else 'false'}\n")

    # ---- _distribute_power
    fd = _norm_func(algo, "_distribute_power")
    if len(fd.args.args) != 6:
        raise Bad("_distribute_power signature changed")
    p_power = fd.args.args[2].arg
    all_fors = [s for s, _ in _stmts_in(fd.body) if isinstance(s, ast.For)]

    def is_share(n: ast.AST) -> bool:
        return (isinstance(n, ast.BinOp) and isinstance(n.op, ast.Div) and isinstance(n.left, ast.BinOp)
                and isinstance(n.left.op, ast.Mult))

    loop = _one([l for l in all_fors if _contains(l, is_share)], "reservation loop")
    dloop = _one([l for l in all_fors if _contains(l, lambda n: isinstance(n, ast.While))], "deficit loop")
    ls = _stmts_in(loop.body)
    share_s, share_path = _one([(s, p) for s, p in ls if isinstance(s, ast.Assign) and is_share(s.value)], "share assignment")
    share_e = share_s.value
    if not (isinstance(share_e.left.left, ast.Name) and isinstance(share_e.right, ast.Name)  # type: ignore[attr-defined]
            and isinstance(share_s.targets[0], ast.Name)):
        raise Bad("share: expected <to distribute> * <entry ratio> / <running ratio>")
    v_ptd, v_ratio, v_share = share_e.left.left.id, share_e.right.id, share_s.targets[0].id  # type: ignore[attr-defined]
    # tail branch: the arm that does not compute the share stores _Power(0.0, 0.0)
    add("tailCond", _cond(share_path, "tail test", negate=True), 1, "prop")
    tail_calls = [c for s, p in ls if p and p[0][0] is share_path[0][0] and p[0][1] != share_path[0][1]
                  for c in ast.walk(s) if _is_call(c, "_Power")]
    tc = _one(tail_calls, "tail branch: _Power(...)")
    if {k.arg: ast.unparse(k.value) for k in tc.keywords} != {"upper_bound": "0.0", "power": "0.0"}:
        raise Bad("tail branch no longer stores _Power(upper_bound=0.0, power=0.0)")
    main = [(s, p[len(share_path):]) for s, p in ls if p[:len(share_path)] == share_path]  # statements of the main arm
    add("powerToDistribute", _one([s for s, p in main if isinstance(s, ast.Assign) and _tsrc(s) == v_ptd and not p],
                                  "power to distribute").value, 2)
    add("calcPower", share_e, 3)
    augs = [s for s, p in main if isinstance(s, ast.AugAssign) and isinstance(s.op, ast.Add) and not p]
    res_s = _one([s for s in augs if _is_call(s.value, "max", 2)], "reserved += max(...)")
    add("reserveInc", res_s.value, 2)
    next_s = _one([s for s, p in main if isinstance(s, ast.Assign) and _tsrc(s) == v_ratio and not p], "running ratio update")
    used_s = _one([s for s in augs if s is not res_s and isinstance(s.target, ast.Name)
                   and _contains(next_s.value, lambda n: isinstance(n, ast.Name) and n.id == s.target.id)], "used ratio +=")
    add("usedInc", used_s.value, 1)
    add("nextRatio", next_s.value, 2)
    incl_s = _one([s for s, p in main if isinstance(s, ast.Assign) and _is_call(s.value, "min", 2) and not p], "inclusion bound")
    add("inclBound", incl_s.value, 2)
    v_incl = _tsrc(incl_s)
    dist_s = _one([s for s in augs if s is not res_s and s is not used_s], "distributed += min power")
    add("distributedInc", dist_s.value, 1)
    v_dist = _tsrc(dist_s)
    # three-way branch: arms are single subscript assignments `<dict>[...] = x - y`
    if not (isinstance(dloop.iter, ast.Call) and isinstance(dloop.iter.func, ast.Attribute) and dloop.iter.func.attr == "items"
            and isinstance(dloop.iter.func.value, ast.Name) and isinstance(dloop.target, ast.Tuple) and len(dloop.target.elts) == 2
            and all(isinstance(e, ast.Name) for e in dloop.target.elts)):
        raise Bad("deficit loop: expected `for <key>, <deficit> in <deficits>.items()`")
    d_deficits = dloop.iter.func.value.id
    v_deficit = dloop.target.elts[1].id  # type: ignore[attr-defined]
    arms = [(s, p) for s, p in main if p and isinstance(s, ast.Assign) and isinstance(s.targets[0], ast.Subscript)
            and isinstance(s.value, ast.BinOp) and isinstance(s.value.op, ast.Sub) and not _contains(s, lambda n: _is_call(n, "_Power"))]
    if len(arms) != 3:
        raise Bad("three-way branch: expected three `<dict>[...] = a - b` arms")
    over = _one([(s, p) for s, p in arms if _contains(s.value, lambda n: isinstance(n, ast.Name) and n.id == v_incl)], "over-inclusion arm")
    defi = _one([(s, p) for s, p in arms if _base_name(s.targets[0]) == d_deficits], "deficit arm")
    inr = _one([(s, p) for s, p in arms if s is not over[0] and s is not defi[0]], "in-range arm")
    d_excess = _base_name(over[0].targets[0])
    if _base_name(inr[0].targets[0]) != d_excess or d_excess == d_deficits:
        raise Bad("three-way branch: excess dict roles")
    if len(over[1]) != 1 or len(defi[1]) != 2 or len(inr[1]) != 2 or defi[1][0][0] is not over[1][0][0]:
        raise Bad("three-way branch: the inclusion test must be decided first, then the minimum-power test")
    add("overIncl", _cond(over[1], "over test"), 2, "prop")
    add("excessOver", over[0].value, 2)
    add("underMin", _cond(defi[1], "under test", last_only=True), 2, "prop")
    add("deficitOf", defi[0].value, 2)
    add("excessIn", inr[0].value, 2)
    stored = _one([c for s, p in main if not p for c in ast.walk(s) if _is_call(c, "_Power")], "_Power(...) of the main arm")
    add("entryUpper", _kwarg(stored, "upper_bound"), 1)
    add("entryPower", _kwarg(stored, "power"), 1)

    # deficit covering
    ds = _stmts_in(dloop.body, into_loops=False)
    wh = _one([s for s, p in ds if isinstance(s, ast.While) and not p], "while loop")
    add("coverCond", nnf(wh.test), 1, "prop")
    ws = _stmts_in(wh.body)
    breaks = [(s, p) for s, p in ws if isinstance(s, ast.Break)]
    empty_break = [(s, p) for s, p in breaks if ast.unparse(_cond(p, "break", last_only=True)) == f"not {d_excess}"]
    _one(empty_break, "`if not <excess dict>: break`")
    stop = _one([(s, p) for s, p in breaks if (s, p) not in empty_break], "largest-stop break")
    add("largestStop", _cond(stop[1], "largest stop", last_only=True), 1, "prop")
    lg = [s for s, p in ws if isinstance(s, ast.Assign) and _contains(s.value, lambda n: _is_call(n, "max"))]
    if "max(%s.items(), key=lambda item: item[1])" % d_excess not in ast.unparse(_one(lg, "largest").value):
        raise Bad("largest is no longer max(<excess dict>.items(), key=item[1])")
    cov_aug = _one([(s, p) for s, p in ws if isinstance(s, ast.AugAssign) and isinstance(s.op, ast.Add)
                    and isinstance(s.target, ast.Subscript) and _base_name(s.target) == d_excess], "cover: excess[...] += deficit")
    add("covers", _cond(cov_aug[1], "covers", last_only=True), 2, "prop")
    cov_arm = [s for s, p in ws if p == cov_aug[1]]
    par_arm = [s for s, p in ws if p and p[:-1] == cov_aug[1][:-1] and p[-1][0] is cov_aug[1][-1][0] and p[-1][1] != cov_aug[1][-1][1]]
    add("coverExcess", _aug_as_binop(cov_aug[0]), 2)
    add("coverDeficitDone", _one([s for s in cov_arm if isinstance(s, ast.Assign) and _tsrc(s) == v_deficit], "cover: deficit = 0").value, 0)
    add("partialDeficit", _aug_as_binop(_one([s for s in par_arm if isinstance(s, ast.AugAssign) and isinstance(s.op, ast.Add)
                                              and _tsrc(s) == v_deficit], "partial: deficit += excess")), 2)
    add("partialExcess", _one([s for s in par_arm if isinstance(s, ast.Assign) and isinstance(s.targets[0], ast.Subscript)
                               and _base_name(s.targets[0]) == d_excess], "partial: excess[...] = 0").value, 0)
    # left-over accounting after the while
    lo_s = _one([(s, p) for s, p in ds if isinstance(s, ast.Assign) and isinstance(s.value, ast.BinOp) and isinstance(s.value.op, ast.Sub)
                 and isinstance(s.value.left, ast.Name) and s.value.left.id == p_power], "left_over of the deficit branch")
    add("adjustCond", _cond(lo_s[1], "adjust test"), 1, "prop")
    add("leftOver", lo_s[0].value, 2)
    adj = [(s, p[len(lo_s[1]):]) for s, p in ds if isinstance(s, ast.AugAssign) and isinstance(s.op, ast.Add) and _tsrc(s) == v_dist
           and p[:len(lo_s[1])] == lo_s[1]]
    full = _one([(s, p) for s, p in adj if len(p) == 1], "first left-over branch")
    part = _one([(s, p) for s, p in adj if len(p) == 2 and p[0][0] is full[1][0][0] and p[0][1] != full[1][0][1]],
                "second left-over branch")
    if len(adj) != 2:
        raise Bad("left-over accounting: expected two `distributed += …`")
    add("adjFullCond", _cond(full[1], "left-over test 1"), 2, "prop")
    add("adjFullInc", full[0].value, 1)
    add("adjPartCond", _cond(part[1], "left-over test 2", last_only=True), 1, "prop")
    add("adjPartInc", part[0].value, 1)
    # adding the excesses
    xloop = _one([l for l in all_fors if l is not loop and l is not dloop
                  and _contains(l, lambda n: isinstance(n, ast.AugAssign) and isinstance(n.target, ast.Attribute))], "excess loop")
    xs = _stmts_in(xloop.body)
    add("excessDistributedInc", _one([s for s, p in xs if isinstance(s, ast.AugAssign) and isinstance(s.op, ast.Add)
                                      and _tsrc(s) == v_dist], "excess loop: distributed +=").value, 1)
    add("excessPowerInc", _one([s for s, p in xs if isinstance(s, ast.AugAssign) and isinstance(s.op, ast.Add)
                                and isinstance(s.target, ast.Attribute) and s.target.attr == "power"], "excess loop: .power +=").value, 1)
    top = [s for s, p in _stmts_in(fd.body, into_loops=False)]
    add("finalLeftOver", _one([s for s in top if isinstance(s, ast.Assign) and isinstance(s.value, ast.BinOp)
                               and isinstance(s.value.op, ast.Sub) and isinstance(s.value.left, ast.Name)
                               and s.value.left.id == p_power and isinstance(s.value.right, ast.Name)
                               and s.value.right.id == v_dist], "final left_over").value, 2)

    # ---- greedy
    fg = _norm_func(algo, "_greedy_distribute_remaining_power")
    gs = _stmts_in(fg.body, into_loops=False)
    gl = _one([(s, p) for s, p in gs if isinstance(s, ast.For)], "greedy loop")
    add("greedyExit", _cond(gl[1], "greedy exit", negate=True), 1, "prop")
    gb = _stmts_in(gl[0].body)
    inc = _one([(s, p) for s, p in gb if isinstance(s, ast.AugAssign) and isinstance(s.op, ast.Add)
                and isinstance(s.target, ast.Attribute)], "greedy: .power +=")
    add("greedySkip", _cond(inc[1], "greedy skip", negate=True), 2, "prop")
    add("greedyAdd", _one([s for s, p in gb if isinstance(s, ast.Assign) and _is_call(s.value, "min", 2)], "greedy: min(...)").value, 3)
    add("greedyPowerInc", inc[0].value, 1)
    add("greedyRemDec", _one([s for s, p in gb if isinstance(s, ast.AugAssign) and isinstance(s.op, ast.Sub)
                              and isinstance(s.target, ast.Name)], "greedy: remaining -=").value, 1)

    # ---- multi-inverter split
    fm = _norm_func(algo, "_distribute_multi_inverter_pairs")
    ofor = _one([s for s, p in _stmts_in(fm.body, into_loops=False) if isinstance(s, ast.For)], "split: outer loop")
    os_ = _stmts_in(ofor.body, into_loops=False)
    ifor = _one([(s, p) for s, p in os_ if isinstance(s, ast.For)], "split: inner loop")
    single = _one([(s, p) for s, p in os_ if isinstance(s, ast.Assign) and isinstance(s.targets[0], ast.Subscript)], "split: single-inverter arm")
    sc = ast.unparse(_cond(single[1], "split: single test"))
    if not (sc.startswith("len(") and sc.endswith(") == 1")) or ast.unparse(_cond(ifor[1], "split: multi test", negate=True)) != sc:
        raise Bad("split: `len(inverter_ids) == 1` changed")
    add("splitSingle", single[0].value, 1)
    dec = _one([(s, p) for s, p in _stmts_in(ifor[0].body) if isinstance(s, ast.AugAssign) and isinstance(s.op, ast.Sub)
                and isinstance(s.target, ast.Name)], "split: remaining -=")
    v_rem = _tsrc(dec[0])
    add("splitStart", _one([s for s, p in os_ if isinstance(s, ast.Assign) and _tsrc(s) == v_rem and p == ifor[1]], "split: start").value, 1)
    ib = _stmts_in(ifor[0].body)
    add("splitTake", _cond(dec[1], "split: take test"), 2, "prop")
    add("splitPower", _one([s for s, p in ib if isinstance(s, ast.Assign) and _is_call(s.value, "min", 2)], "split: min(...)").value, 2)
    sub_as = [(s, p) for s, p in ib if isinstance(s, ast.Assign) and isinstance(s.targets[0], ast.Subscript)]
    add("splitAssigned", _one([s for s, p in sub_as if p == dec[1]], "split: assigned power").value, 1)
    add("splitRemDec", dec[0].value, 1)
    add("splitSkipped", _one([s for s, p in sub_as if p != dec[1]], "split: skipped inverter").value, 0)

    # ---- distribute_power (zero request, side selection)
    fz = _norm_func(algo, "distribute_power")
    zs = _stmts_in(fz.body)
    cons = _one([(s, p) for s, p in zs if isinstance(s, ast.Return) and _contains(s, lambda n: _is_call(n, "self._distribute_consume_power"))],
                "distribute_power: consume call")
    supp = _one([(s, p) for s, p in zs if isinstance(s, ast.Return) and _contains(s, lambda n: _is_call(n, "self._distribute_supply_power"))],
                "distribute_power: supply call")
    if len(cons[1]) != 2 or len(supp[1]) != 2 or cons[1][0] != supp[1][0] or cons[1][1][0] is not supp[1][1][0]:
        raise Bad("distribute_power: expected zero test, then side test")
    add("zeroRequest", _cond(cons[1][:1], "zero request", negate=True), 1, "prop")
    add("consumeRequest", _cond(cons[1], "consume request", last_only=True), 1, "prop")

    # ---- battery manager: reporting and admission
    fm2 = _norm_func(mgr, "_distribute_power")
    dv = _one([s for s, p in _stmts_in(fm2.body) if isinstance(s, ast.Assign) and isinstance(s.value, ast.BinOp)
               and isinstance(s.value.op, ast.Sub) and "as_watts()" in ast.unparse(s.value.left)], "manager: distributed value")
    add("mgrDistributed", dv.value, 2)
    pf = _one([n for n in ast.walk(fm2) if _is_call(n, "PartialFailure")], "PartialFailure(...)")
    su = _one([n for n in ast.walk(fm2) if _is_call(n, "Success")], "Success(...)")
    add("mgrSuccessSucceeded", _strip_from_watts(_kwarg(su, "succeeded_power")), 1)
    add("mgrSuccessExcess", _strip_from_watts(_kwarg(su, "excess_power")), 1)
    add("mgrPartialSucceeded", _strip_from_watts(_kwarg(pf, "succeeded_power")), 2)
    add("mgrPartialFailed", _strip_from_watts(_kwarg(pf, "failed_power")), 1)
    add("mgrPartialExcess", _strip_from_watts(_kwarg(pf, "excess_power")), 1)
    gb2 = _func(mgr, "_get_bounds")
    pb = _one([n for n in ast.walk(gb2) if _is_call(n, "PowerBounds")], "_get_bounds: PowerBounds(...)")
    add("advExclLower", _kwarg(pb, "exclusion_lower"), 2)
    add("advExclUpper", _kwarg(pb, "exclusion_upper"), 2)
    cr = _norm_func(mgr, "_check_request")
    rej = []
    for s, p in _stmts_in(cr.body):
        if isinstance(s, ast.Return) and _contains(s, lambda n: _is_call(n, "OutOfBounds")):
            def is_flag(e: ast.expr) -> bool:
                return isinstance(e, ast.Attribute) and e.attr == "adjust_power"

            pols = [pol for t, pol in p if is_flag(nnf(t))] + [not pol for t, pol in p if is_flag(nnf(t, True))]
            if pols == [True]:
                rej.append((s, p))
    rj = _one(rej, "_check_request: rejection with adjust_power")
    add("rejectedAdjust", _cond(rj[1], "rejection test", last_only=True), 3, "prop")

    # ---- the bounds the battery pool ADVERTISES (PowerBoundsCalculator.calculate): per battery set
    pool = ast.parse((repo / POOL).read_text())
    pc = None
    for n in ast.walk(pool):
        if isinstance(n, ast.ClassDef) and n.name == "PowerBoundsCalculator":
            pc = _func(n, "calculate")
    if pc is None:
        raise Bad("PowerBoundsCalculator.calculate not found")
    pstm = _stmts_in(_norm_block(pc.body))
    sums = [s for s, p in pstm if isinstance(s, ast.AugAssign) and isinstance(s.op, ast.Add) and isinstance(s.target, ast.Name)
            and isinstance(s.value, ast.Call) and ast.unparse(s.value.func) in ("max", "min") and len(s.value.args) == 2]
    res = _one([n for n in ast.walk(pc) if _is_call(n, "SystemBounds") and any(k.arg == "exclusion_bounds" and not
                (isinstance(k.value, ast.Constant) and k.value.value is None) for k in n.keywords)], "SystemBounds(...) result")
    role_of: dict[str, str] = {}
    for kw, nm in (("exclusion_bounds", "Excl"), ("inclusion_bounds", "Incl")):
        b = _kwarg(res, kw)
        if not (isinstance(b, ast.Call) and len(b.args) == 2):
            raise Bad("SystemBounds: bounds are no longer Bounds(lower, upper)")
        for a, lu in zip(b.args, ("Lower", "Upper")):
            role_of[ast.unparse(_strip_from_watts(a))] = nm + lu
    for v, role in role_of.items():
        hit = _one([s for s in sums if _tsrc(s) == v], f"PowerBoundsCalculator.calculate: `{role} += …`")
        init = _one([s for s, p in pstm if isinstance(s, ast.Assign) and _tsrc(s) == v], f"initial value of {role}")
        if ast.unparse(init.value) != "0.0":
            raise Bad("PowerBoundsCalculator.calculate: the running bounds no longer start at 0.0")
        add("poolGroup" + role, hit.value, 2)
    if not any(_is_call(n, "_aggregate_battery_power_bounds", 1) for n in ast.walk(pc)):
        raise Bad("PowerBoundsCalculator.calculate: battery bounds are no longer aggregated by _aggregate_battery_power_bounds")

    out.append("end Extracted.Dist\n")
    return "\n".join(out)
