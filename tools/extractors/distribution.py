"""Battery distribution algorithm -> Lean definitions of every arithmetic expression and branch condition.

The algorithm itself has loops over dicts and is modelled by hand (`Frequenz/Model/Distribution.lean`), but
each *expression* the loops evaluate — shares, reservations, excess/deficit values, the three-way branch, the
deficit-covering tests, the `-0.1` left-over accounting, the greedy top-up, the per-inverter split, the
supply/consume bound selection, tolerances — is located in the AST and translated here.  The model calls these
definitions, so an edit of a formula, a comparison operator or a constant changes the Lean terms the theorems
are about.

An expression `e` becomes `def <name> (a0 a1 … : Rat) : Rat|Prop := e'` where `a0, a1, …` are the *leaves* of
`e` (names, attribute chains, subscripts, generator aggregates) numbered in order of first appearance, which
makes the translation independent of the names of locals.  The expected number of leaves is checked; if a
statement cannot be located or has another shape, `generate` raises.
"""
from __future__ import annotations

import ast
import pathlib
from fractions import Fraction

import py2lean

NAME = "Distribution"
ALGO = "src/frequenz/sdk/microgrid/_power_distributing/_distribution_algorithm/_battery_distribution_algorithm.py"
MATH = "src/frequenz/sdk/_internal/_math.py"
MGR = "src/frequenz/sdk/microgrid/_power_distributing/_component_managers/_battery_manager.py"
POOL = "src/frequenz/sdk/timeseries/battery_pool/_metric_calculator.py"
SOURCES = [ALGO, MATH, MGR, POOL]


class Bad(Exception):
    pass


# --------------------------------------------------------------------------- expression translation
STRUCT_CALLS = {"max", "min", "is_close_to_zero", "math.isclose"}


def _is_struct(n: ast.AST) -> bool:
    """Nodes the translator descends into (everything else is a leaf = a parameter)."""
    if isinstance(n, (ast.BinOp, ast.UnaryOp, ast.Compare, ast.BoolOp, ast.Constant)):
        return True
    if isinstance(n, ast.Call):
        f = ast.unparse(n.func)
        if f in ("max", "min") and len(n.args) == 2 and not n.keywords:
            return True
        if f in ("is_close_to_zero", "math.isclose"):
            return True
    return False


class _Leaves(ast.NodeTransformer):
    def __init__(self) -> None:
        self.names: dict[str, str] = {}

    def generic_visit(self, node: ast.AST) -> ast.AST:  # type: ignore[override]
        return super().generic_visit(node)

    def visit(self, node: ast.AST) -> ast.AST:  # type: ignore[override]
        if isinstance(node, ast.expr) and not _is_struct(node):
            src = ast.unparse(node)
            if src not in self.names:
                self.names[src] = f"a{len(self.names)}"
            return ast.copy_location(ast.Name(id=self.names[src], ctx=ast.Load()), node)
        if isinstance(node, ast.Call):
            # keep the callee, transform the arguments only
            node.args = [self.visit(a) for a in node.args]  # type: ignore[assignment]
            for k in node.keywords:
                k.value = self.visit(k.value)  # type: ignore[assignment]
            return node
        return self.generic_visit(node)


class _Tr(py2lean.Translator):
    def expr(self, n, env):  # type: ignore[override]
        if isinstance(n, ast.Constant) and isinstance(n.value, (int, float)) and not isinstance(n.value, bool):
            fr = Fraction(repr(n.value)) if isinstance(n.value, float) else Fraction(n.value)
            if fr.denominator == 1:
                return f"({fr.numerator} : Rat)"
            return f"(({fr.numerator} : Rat) / {fr.denominator})"
        if isinstance(n, ast.UnaryOp) and isinstance(n.op, ast.USub):
            return f"(-{self.expr(n.operand, env)})"
        return super().expr(n, env)

    def bexpr(self, n, env):  # type: ignore[override]
        raise py2lean.Unsupported("boolean used as a value")

    def prop(self, n, env):  # type: ignore[override]
        if isinstance(n, ast.Call):
            f = ast.unparse(n.func)
            if f == "is_close_to_zero" and len(n.args) == 1 and not n.keywords:
                return f"isCloseToZero {self._atom(self.expr(n.args[0], env))}"
            if f == "math.isclose" and len(n.args) == 2 and not n.keywords:
                a, b = (self._atom(self.expr(x, env)) for x in n.args)
                return f"isClose {a} {b}"
            raise py2lean.Unsupported(f"call {f} in a condition")
        if isinstance(n, ast.BoolOp):
            j = " ∧ " if isinstance(n.op, ast.And) else " ∨ "
            return "(" + j.join(f"({self.prop(v, env)})" for v in n.values) + ")"
        if isinstance(n, ast.UnaryOp) and isinstance(n.op, ast.Not):
            return f"¬ ({self.prop(n.operand, env)})"
        return super().prop(n, env)


def lean_def(name: str, node: ast.expr, arity: int, kind: str, doc: str) -> str:
    """kind: 'val' (Rat-valued) or 'prop' (decidable Prop)."""
    lv = _Leaves()
    node = lv.visit(ast.parse(ast.unparse(node), mode="eval").body)
    if len(lv.names) != arity:
        raise Bad(f"{name}: expected {arity} operands, found {sorted(lv.names)} in `{doc}`")
    params = " ".join(f"({p} : Rat)" for p in lv.names.values())
    tr = _Tr({})
    env = py2lean.Env()
    operands = ", ".join(f"{v} = {k}" for k, v in lv.names.items())
    head = f"/-- `{doc}`   ({operands}) -/\n"
    if kind == "val":
        return head + f"def {name} {params} : Rat :=\n  {tr.expr(node, env)}\n"
    body = tr.prop(node, env)
    args = " ".join(lv.names.values())
    return (head + f"def {name} {params} : Prop :=\n  {body}\n"
            f"instance {params.replace('(', '{').replace(')', '}')} : Decidable ({name} {args}) := by\n"
            f"  unfold {name}; exact inferInstance\n")


# --------------------------------------------------------------------------- locating statements
def _func(tree: ast.AST, name: str) -> ast.FunctionDef:
    for n in ast.walk(tree):
        if isinstance(n, (ast.FunctionDef, ast.AsyncFunctionDef)) and n.name == name:
            return n  # type: ignore[return-value]
    raise Bad(f"function {name} not found")


def _assigns(fn: ast.AST) -> list[ast.stmt]:
    return [n for n in ast.walk(fn) if isinstance(n, (ast.Assign, ast.AugAssign, ast.AnnAssign))]


def _target_src(s: ast.stmt) -> str:
    if isinstance(s, ast.Assign):
        if len(s.targets) != 1:
            raise Bad("multiple targets")
        return ast.unparse(s.targets[0])
    return ast.unparse(s.target)  # type: ignore[attr-defined]


def _value_of(scope: ast.AST, target: str, aug: bool | None = None, nth: int = 0) -> ast.expr:
    """Right-hand side of the nth statement (source order) in `scope` assigning to `target`."""
    hits = []
    for s in _assigns(scope):
        if _target_src(s) == target and s.value is not None:  # type: ignore[attr-defined]
            if aug is None or isinstance(s, ast.AugAssign) == aug:
                hits.append(s)
    hits.sort(key=lambda s: (s.lineno, s.col_offset))
    if len(hits) <= nth:
        raise Bad(f"assignment to `{target}` #{nth} not found")
    return hits[nth].value  # type: ignore[attr-defined]


def _loops(fn: ast.AST, kind: type) -> list[ast.stmt]:
    out = [n for n in ast.walk(fn) if isinstance(n, kind)]
    out.sort(key=lambda s: (s.lineno, s.col_offset))
    return out  # type: ignore[return-value]


def _ifs(scope: ast.AST) -> list[ast.If]:
    out = [n for n in ast.walk(scope) if isinstance(n, ast.If)]
    out.sort(key=lambda s: (s.lineno, s.col_offset))
    return out


def _contains_call(n: ast.AST, callee: str) -> bool:
    return any(isinstance(c, ast.Call) and ast.unparse(c.func) == callee for c in ast.walk(n))


def _kwarg(call: ast.Call, name: str) -> ast.expr:
    for k in call.keywords:
        if k.arg == name:
            return k.value
    raise Bad(f"keyword {name} not found in {ast.unparse(call)[:60]}")


def _strip_from_watts(e: ast.expr) -> ast.expr:
    if isinstance(e, ast.Call) and ast.unparse(e.func) == "Power.from_watts" and len(e.args) == 1:
        return e.args[0]
    raise Bad(f"expected Power.from_watts(...), got {ast.unparse(e)[:60]}")


# --------------------------------------------------------------------------- generate
HEADER = """import Frequenz.Model.Prelude

namespace Extracted.Dist

/-- `abs` on rationals (core has no `|x|` notation). -/
def absR (x : Rat) : Rat := if x < 0 then -x else x

/-- `max` without tie-breaking concerns (only used inside tolerance tests). -/
def rmax (x y : Rat) : Rat := if x < y then y else x

/-- `math.isclose(a, b, rel_tol=r, abs_tol=t)` of CPython: `|a-b| <= max(r*max(|a|,|b|), t)`. -/
def mathIsClose (a b r t : Rat) : Prop := absR (a - b) ≤ rmax (r * rmax (absR a) (absR b)) t
instance {a b r t : Rat} : Decidable (mathIsClose a b r t) := by unfold mathIsClose; exact inferInstance

/-- CPython's default `rel_tol` of `math.isclose` (1e-09; a language constant, not in the repo). -/
def relTol : Rat := (1 : Rat) / 1000000000
"""


def generate(repo: pathlib.Path) -> str:
    algo = ast.parse((repo / ALGO).read_text())
    mth = ast.parse((repo / MATH).read_text())
    mgr = ast.parse((repo / MGR).read_text())
    out: list[str] = [HEADER]

    # ---- _math.is_close_to_zero
    f = _func(mth, "is_close_to_zero")
    args = [a.arg for a in f.args.args]
    if args != ["value", "abs_tol"] or len(f.args.defaults) != 1 or not isinstance(f.args.defaults[0], ast.Constant):
        raise Bad("is_close_to_zero signature changed")
    tol = Fraction(repr(f.args.defaults[0].value))
    body = [s for s in f.body if not (isinstance(s, ast.Expr) and isinstance(s.value, ast.Constant))]
    zero = None
    ret = None
    for s in body:
        if isinstance(s, (ast.Assign, ast.AnnAssign)) and _target_src(s) == "zero":
            zero = s.value
        elif isinstance(s, ast.Return):
            ret = s.value
        else:
            raise Bad("is_close_to_zero body changed")
    if not (isinstance(zero, ast.Constant) and zero.value == 0.0):
        raise Bad("is_close_to_zero: zero is not 0.0")
    if not (isinstance(ret, ast.Call) and ast.unparse(ret.func) == "math.isclose" and not ret.args
            and {k.arg: ast.unparse(k.value) for k in ret.keywords} == {"a": "value", "b": "zero", "abs_tol": "abs_tol"}):
        raise Bad("is_close_to_zero no longer returns math.isclose(a=value, b=zero, abs_tol=abs_tol)")
    out.append(f"/-- default `abs_tol` of `_math.is_close_to_zero` -/\n"
               f"def closeTol : Rat := ({tol.numerator} : Rat) / {tol.denominator}\n")
    out.append("/-- `_math.is_close_to_zero(value)` = `math.isclose(a=value, b=0.0, abs_tol=closeTol)` -/\n"
               "def isCloseToZero (value : Rat) : Prop := mathIsClose value 0 relTol closeTol\n"
               "instance {v : Rat} : Decidable (isCloseToZero v) := by unfold isCloseToZero; exact inferInstance\n")
    out.append("/-- `math.isclose(a, b)` with the default tolerances (`abs_tol = 0`) -/\n"
               "def isClose (a b : Rat) : Prop := mathIsClose a b relTol 0\n"
               "instance {a b : Rat} : Decidable (isClose a b) := by unfold isClose; exact inferInstance\n")

    def add(name: str, node: ast.expr, arity: int, kind: str = "val") -> None:
        out.append(lean_def(name, node, arity, kind, ast.unparse(node)))

    # ---- available SoC
    fc = _func(algo, "_distribute_consume_power")
    add("availConsume", _value_of(fc, "available_soc[battery.component_id]"), 2)
    fs = _func(algo, "_distribute_supply_power")
    add("availSupply", _value_of(fs, "available_soc[battery.component_id]"), 2)
    # sign handling of the supply side: `-1 * power_w` in, `*= -1` out
    call = None
    for n in ast.walk(fs):
        if isinstance(n, ast.Call) and ast.unparse(n.func) == "self._distribute_power":
            call = n
    if call is None or len(call.args) != 5:
        raise Bad("_distribute_supply_power: call of self._distribute_power not found")
    add("supplyPowerIn", call.args[1], 1)
    augs = [s for s in _assigns(fs) if isinstance(s, ast.AugAssign)]
    if len(augs) != 2 or not all(isinstance(s.op, ast.Mult) for s in augs):
        raise Bad("_distribute_supply_power: expected two `*=` statements")
    for s, nm in zip(sorted(augs, key=lambda s: s.lineno), ["supplySetpointOut", "supplyRemainingOut"]):
        add(nm, ast.BinOp(left=s.target, op=ast.Mult(), right=s.value), 1)  # type: ignore[arg-type]
    fcall = None
    for n in ast.walk(fc):
        if isinstance(n, ast.Call) and ast.unparse(n.func) == "self._distribute_power":
            fcall = n
    if fcall is None or len(fcall.args) != 5 or not isinstance(fcall.args[1], ast.Name):
        raise Bad("_distribute_consume_power: expected self._distribute_power(components, power_w, …)")

    # ---- _inclusion_exclusion_bounds
    fb = _func(algo, "_inclusion_exclusion_bounds")
    found: dict[str, ast.expr] = {}
    for iff in _ifs(fb):
        if ast.unparse(iff.test) != "supply":
            raise Bad("_inclusion_exclusion_bounds: unexpected condition")
        for side, stmts in (("Supply", iff.body), ("Consume", iff.orelse)):
            for s in stmts:
                if not isinstance(s, ast.Assign):
                    raise Bad("_inclusion_exclusion_bounds: unexpected statement")
                t = _target_src(s)
                role = {"excl_bounds[battery.component_id]": "batExcl", "incl_bounds[battery.component_id]": "batIncl",
                        "excl_bounds[inverter.component_id]": "invExcl", "incl_bounds[inverter.component_id]": "invIncl"}.get(t)
                if role is None:
                    raise Bad(f"_inclusion_exclusion_bounds: unexpected target {t}")
                if role + side in found:
                    raise Bad(f"_inclusion_exclusion_bounds: {role+side} assigned twice")
                found[role + side] = s.value
    for side in ("Consume", "Supply"):
        add("batExcl" + side, found.get("batExcl" + side) or _raise("batExcl" + side), 1)
        add("batIncl" + side, found.get("batIncl" + side) or _raise("batIncl" + side), 1)
        add("invExcl" + side, found.get("invExcl" + side) or _raise("invExcl" + side), 1)
        add("invIncl" + side, found.get("invIncl" + side) or _raise("invIncl" + side), 2)

    # ---- _compute_battery_availability_ratio
    fr = _func(algo, "_compute_battery_availability_ratio")
    add("capRatio", _value_of(fr, "capacity_ratio"), 2)
    sf = _value_of(fr, "soc_factor")
    if not (isinstance(sf, ast.Call) and ast.unparse(sf.func) == "pow" and len(sf.args) == 2
            and ast.unparse(sf.args[1]) == "self._distributor_exponent"):
        raise Bad("soc_factor is no longer pow(<available soc>, self._distributor_exponent)")
    out.append("/-- `soc_factor = pow(available_soc[...], self._distributor_exponent)` (natural exponents; "
               "`pow(0.0, 0) = 1`) -/\ndef socFactor (a : Rat) (e : Nat) : Rat := a ^ e\n")
    add("ratioOf", _value_of(fr, "ratio"), 2)
    mp = None
    for n in ast.walk(fr):
        if isinstance(n, ast.Call) and ast.unparse(n.func) == "AvailabilityRatio":
            mp = _kwarg(n, "min_power")
    if mp is None:
        raise Bad("AvailabilityRatio(min_power=…) not found")
    add("minPower", mp, 2)
    # the sort of the ratio list
    sort = None
    for n in ast.walk(fr):
        if isinstance(n, ast.Call) and ast.unparse(n.func) == "battery_availability_ratio.sort":
            sort = n
    if sort is None:
        raise Bad("battery_availability_ratio.sort(...) not found")
    key = _kwarg(sort, "key")
    rev = _kwarg(sort, "reverse")
    if not (isinstance(rev, ast.Constant) and isinstance(rev.value, bool)):
        raise Bad("sort: reverse is not a literal")
    if not (isinstance(key, ast.Lambda) and len(key.args.args) == 1 and isinstance(key.body, ast.Tuple)):
        raise Bad("sort: key is not a lambda returning a tuple")
    arg = key.args.args[0].arg
    fields = []
    for e in key.body.elts:
        if not (isinstance(e, ast.Attribute) and isinstance(e.value, ast.Name) and e.value.id == arg
                and e.attr in ("min_power", "ratio")):
            raise Bad(f"sort: unsupported key component {ast.unparse(e)}")
        fields.append({"min_power": "m", "ratio": "r"}[e.attr])
    if not fields:
        raise Bad("sort: empty key")
    lex = "False"
    for fld in reversed(fields):
        lex = f"{fld}1 < {fld}2 ∨ ({fld}1 = {fld}2 ∧ ({lex}))"
    out.append(f"/-- `battery_availability_ratio.sort(key={ast.unparse(key)}, reverse={rev.value})`: strict order of the keys -/\n"
               f"def sortKeyLt (m1 r1 m2 r2 : Rat) : Prop :=\n  {lex}\n"
               "instance {m1 r1 m2 r2 : Rat} : Decidable (sortKeyLt m1 r1 m2 r2) := by unfold sortKeyLt; exact inferInstance\n"
               f"def sortReverse : Bool := {'true' if rev.value else 'false'}\n")

    # ---- _distribute_power
    fd = _func(algo, "_distribute_power")
    fors = _loops(fd, ast.For)
    # the reservation loop is the `for` that assigns `calculated_power`
    res = [l for l in fors if any(_target_src(s) == "calculated_power" for s in _assigns(l))]
    if len(res) != 1:
        raise Bad("reservation loop not found")
    loop = res[0]
    first_if = [s for s in loop.body if isinstance(s, ast.If)]  # type: ignore[attr-defined]
    if len(first_if) != 2:
        raise Bad("reservation loop: expected the tail test and the three-way branch")
    tail_if, branch = first_if
    if not any(isinstance(s, ast.Continue) for s in tail_if.body):
        raise Bad("reservation loop: first `if` no longer `continue`s")
    add("tailCond", tail_if.test, 1, "prop")
    tvals = {ast.unparse(k): ast.unparse(v) for c in ast.walk(tail_if) if isinstance(c, ast.Call)
             and ast.unparse(c.func) == "_Power" for k, v in [(ast.Name(id=kw.arg), kw.value) for kw in c.keywords]}
    if tvals != {"upper_bound": "0.0", "power": "0.0"}:
        raise Bad("tail branch no longer stores _Power(upper_bound=0.0, power=0.0)")
    add("powerToDistribute", _value_of(loop, "power_to_distribute"), 2)
    add("calcPower", _value_of(loop, "calculated_power"), 3)
    add("reserveInc", _value_of(loop, "reserved_power", aug=True), 2)
    add("usedInc", _value_of(loop, "used_ratio", aug=True), 1)
    add("nextRatio", _value_of(loop, "ratio", aug=False), 2)
    add("inclBound", _value_of(loop, "incl_bound"), 2)
    add("distributedInc", _value_of(loop, "distributed_power", aug=True), 1)
    # three-way branch
    if len(branch.orelse) != 1 or not isinstance(branch.orelse[0], ast.If) or not branch.orelse[0].orelse:
        raise Bad("three-way branch: expected if / elif / else")
    b2 = branch.orelse[0]

    def single(stmts: list[ast.stmt], which: str) -> ast.expr:
        if len(stmts) != 1 or not isinstance(stmts[0], ast.Assign):
            raise Bad("three-way branch: expected one assignment per arm")
        t = _target_src(stmts[0])
        if not t.startswith(which + "["):
            raise Bad(f"three-way branch: expected an assignment to {which}[…], got {t}")
        return stmts[0].value

    add("overIncl", branch.test, 2, "prop")
    add("excessOver", single(branch.body, "excess_reserved"), 2)
    add("underMin", b2.test, 2, "prop")
    add("deficitOf", single(b2.body, "deficits"), 2)
    add("excessIn", single(b2.orelse, "excess_reserved"), 2)
    stored = [c for s in loop.body[loop.body.index(branch):] for c in ast.walk(s)  # type: ignore[attr-defined]
              if isinstance(c, ast.Call) and ast.unparse(c.func) == "_Power"]
    if len(stored) != 1:
        raise Bad("reservation loop: expected one _Power(...) after the branch")
    add("entryUpper", _kwarg(stored[0], "upper_bound"), 1)
    add("entryPower", _kwarg(stored[0], "power"), 1)

    # deficit covering
    whiles = _loops(fd, ast.While)
    if len(whiles) != 1:
        raise Bad("expected exactly one while loop")
    wh = whiles[0]
    add("coverCond", wh.test, 1, "prop")  # type: ignore[attr-defined]
    wifs = [s for s in wh.body if isinstance(s, ast.If)]  # type: ignore[attr-defined]
    if len(wifs) != 3:
        raise Bad("while body: expected three ifs")
    if ast.unparse(wifs[0].test) != "not excess_reserved" or not any(isinstance(s, ast.Break) for s in wifs[0].body):
        raise Bad("while body: `if not excess_reserved: break` changed")
    lg = _value_of(wh, "largest")
    if "max(excess_reserved.items(), key=lambda item: item[1])" not in ast.unparse(lg):
        raise Bad("largest is no longer max(excess_reserved.items(), key=item[1])")
    if not any(isinstance(s, ast.Break) for s in wifs[1].body):
        raise Bad("while body: second if no longer breaks")
    add("largestStop", wifs[1].test, 1, "prop")
    add("covers", wifs[2].test, 2, "prop")
    add("coverExcess", ast.BinOp(left=ast.Name(id="excess_reserved[largest.inverter_ids]"), op=ast.Add(),
                                 right=_value_of(ast.Module(body=wifs[2].body, type_ignores=[]),
                                                 "excess_reserved[largest.inverter_ids]", aug=True)), 2)
    add("coverDeficitDone", _value_of(ast.Module(body=wifs[2].body, type_ignores=[]), "deficit"), 0)
    add("partialDeficit", ast.BinOp(left=ast.Name(id="deficit"), op=ast.Add(),
                                    right=_value_of(ast.Module(body=wifs[2].orelse, type_ignores=[]), "deficit", aug=True)), 2)
    add("partialExcess", _value_of(ast.Module(body=wifs[2].orelse, type_ignores=[]),
                                   "excess_reserved[largest.inverter_ids]", aug=False), 0)
    # left-over accounting: the `if` following the while in the same loop body
    dl = [l for l in fors if wh in l.body]  # type: ignore[attr-defined]
    if len(dl) != 1:
        raise Bad("deficit loop not found")
    dbody = dl[0].body  # type: ignore[attr-defined]
    after = dbody[dbody.index(wh) + 1:]
    if len(after) != 1 or not isinstance(after[0], ast.If):
        raise Bad("deficit loop: expected one `if` after the while")
    adj = after[0]
    add("adjustCond", adj.test, 1, "prop")
    add("leftOver", _value_of(adj, "left_over"), 2)
    inner = [s for s in adj.body if isinstance(s, ast.If)]
    if len(inner) != 1 or len(inner[0].orelse) != 1 or not isinstance(inner[0].orelse[0], ast.If) or inner[0].orelse[0].orelse:
        raise Bad("left-over accounting: expected if / elif")
    i1, i2 = inner[0], inner[0].orelse[0]
    add("adjFullCond", i1.test, 2, "prop")
    add("adjFullInc", _value_of(ast.Module(body=i1.body, type_ignores=[]), "distributed_power", aug=True), 1)
    add("adjPartCond", i2.test, 1, "prop")
    add("adjPartInc", _value_of(ast.Module(body=i2.body, type_ignores=[]), "distributed_power", aug=True), 1)
    # adding the excesses
    ex = [l for l in fors if any(_target_src(s) == "battery_power.power" for s in _assigns(l))]
    if len(ex) != 1:
        raise Bad("excess loop not found")
    add("excessDistributedInc", _value_of(ex[0], "distributed_power", aug=True), 1)
    add("excessPowerInc", _value_of(ex[0], "battery_power.power", aug=True), 1)
    add("finalLeftOver", _value_of(ast.Module(body=[s for s in fd.body if s not in fors], type_ignores=[]), "left_over"), 2)

    # ---- greedy
    fg = _func(algo, "_greedy_distribute_remaining_power")
    gif = [s for s in fg.body if isinstance(s, ast.If)]
    if len(gif) != 1 or not any(isinstance(s, ast.Return) for s in gif[0].body):
        raise Bad("greedy: early return changed")
    add("greedyExit", gif[0].test, 1, "prop")
    gl = _loops(fg, ast.For)
    if len(gl) != 1:
        raise Bad("greedy: loop not found")
    gi = [s for s in gl[0].body if isinstance(s, ast.If)]  # type: ignore[attr-defined]
    if len(gi) != 1:
        raise Bad("greedy: loop body changed")
    add("greedySkip", gi[0].test, 2, "prop")
    add("greedyAdd", _value_of(gl[0], "additional_power"), 3)
    add("greedyPowerInc", _value_of(gl[0], "power.power", aug=True), 1)
    rem_aug = [s for s in _assigns(gl[0]) if isinstance(s, ast.AugAssign) and _target_src(s) == "remaining_power"]
    if len(rem_aug) != 1 or not isinstance(rem_aug[0].op, ast.Sub):
        raise Bad("greedy: remaining_power -= … changed")
    add("greedyRemDec", rem_aug[0].value, 1)

    # ---- multi-inverter split
    fm = _func(algo, "_distribute_multi_inverter_pairs")
    outer = [s for s in ast.walk(fm) if isinstance(s, ast.If) and "len(inverter_ids)" in ast.unparse(s.test)]
    if len(outer) != 1 or ast.unparse(outer[0].test) != "len(inverter_ids) == 1":
        raise Bad("split: `len(inverter_ids) == 1` changed")
    add("splitSingle", _value_of(ast.Module(body=outer[0].body, type_ignores=[]), "new_distribution[inverter_id]"), 1)
    add("splitStart", _value_of(ast.Module(body=outer[0].orelse, type_ignores=[]), "remaining_power", aug=False), 1)
    il = [l for l in ast.walk(ast.Module(body=outer[0].orelse, type_ignores=[])) if isinstance(l, ast.For)]
    if len(il) != 1:
        raise Bad("split: inner loop not found")
    si = [s for s in il[0].body if isinstance(s, ast.If)]
    if len(si) != 1:
        raise Bad("split: inner loop body changed")
    add("splitTake", si[0].test, 2, "prop")
    add("splitPower", _value_of(ast.Module(body=si[0].body, type_ignores=[]), "new_power"), 2)
    add("splitAssigned", _value_of(ast.Module(body=si[0].body, type_ignores=[]), "new_distribution[inverter_id]"), 1)
    sr = [s for s in si[0].body if isinstance(s, ast.AugAssign) and _target_src(s) == "remaining_power"]
    if len(sr) != 1 or not isinstance(sr[0].op, ast.Sub):
        raise Bad("split: remaining_power -= … changed")
    add("splitRemDec", sr[0].value, 1)
    add("splitSkipped", _value_of(ast.Module(body=si[0].orelse, type_ignores=[]), "new_distribution[inverter_id]"), 0)

    # ---- distribute_power (zero request)
    fz = _func(algo, "distribute_power")
    zi = [s for s in fz.body if isinstance(s, ast.If)]
    if len(zi) != 2:
        raise Bad("distribute_power: expected two ifs")
    add("zeroRequest", zi[0].test, 1, "prop")
    add("consumeRequest", zi[1].test, 1, "prop")
    if not _contains_call(ast.Module(body=zi[1].body, type_ignores=[]), "self._distribute_consume_power"):
        raise Bad("distribute_power: positive branch no longer calls _distribute_consume_power")

    # ---- battery manager: reporting and admission
    fm2 = _func(mgr, "_distribute_power")
    add("mgrDistributed", _value_of(fm2, "distributed_power_value"), 2)
    pf = su = None
    for n in ast.walk(fm2):
        if isinstance(n, ast.Call) and ast.unparse(n.func) == "PartialFailure":
            pf = n
        if isinstance(n, ast.Call) and ast.unparse(n.func) == "Success":
            su = n
    if pf is None or su is None:
        raise Bad("manager: Success/PartialFailure construction not found")
    add("mgrSuccessSucceeded", _strip_from_watts(_kwarg(su, "succeeded_power")), 1)
    add("mgrSuccessExcess", _strip_from_watts(_kwarg(su, "excess_power")), 1)
    add("mgrPartialSucceeded", _strip_from_watts(_kwarg(pf, "succeeded_power")), 2)
    add("mgrPartialFailed", _strip_from_watts(_kwarg(pf, "failed_power")), 1)
    add("mgrPartialExcess", _strip_from_watts(_kwarg(pf, "excess_power")), 1)
    gb = _func(mgr, "_get_bounds")
    pb = None
    for n in ast.walk(gb):
        if isinstance(n, ast.Call) and ast.unparse(n.func) == "PowerBounds":
            pb = n
    if pb is None:
        raise Bad("_get_bounds: PowerBounds(...) not found")
    add("advExclLower", _kwarg(pb, "exclusion_lower"), 2)
    add("advExclUpper", _kwarg(pb, "exclusion_upper"), 2)
    cr = _func(mgr, "_check_request")
    adj_if = [s for s in _ifs(cr) if ast.unparse(s.test) == "request.adjust_power"]
    if len(adj_if) != 1:
        raise Bad("_check_request: `if request.adjust_power` not found")
    rej = [s for s in adj_if[0].body if isinstance(s, ast.If)]
    if len(rej) != 1:
        raise Bad("_check_request: rejection test changed")
    add("rejectedAdjust", rej[0].test, 3, "prop")

    # ---- the bounds the battery pool ADVERTISES (PowerBoundsCalculator.calculate): per battery set
    pool = ast.parse((repo / POOL).read_text())
    pc = None
    for n in ast.walk(pool):
        if isinstance(n, ast.ClassDef) and n.name == "PowerBoundsCalculator":
            pc = _func(n, "calculate")
    if pc is None:
        raise Bad("PowerBoundsCalculator.calculate not found")
    for tgt, nm in (("exclusion_bounds_lower", "poolGroupExclLower"), ("exclusion_bounds_upper", "poolGroupExclUpper"),
                    ("inclusion_bounds_lower", "poolGroupInclLower"), ("inclusion_bounds_upper", "poolGroupInclUpper")):
        hits = [x for x in _assigns(pc) if isinstance(x, ast.AugAssign) and _target_src(x) == tgt]
        if len(hits) != 1 or not isinstance(hits[0].op, ast.Add):
            raise Bad(f"PowerBoundsCalculator.calculate: expected exactly one `{tgt} += …`")
        add(nm, hits[0].value, 2)
    inits = {_target_src(x): x.value for x in _assigns(pc) if isinstance(x, ast.Assign) and _target_src(x).endswith(("_lower", "_upper"))
             and _target_src(x).startswith(("exclusion_bounds", "inclusion_bounds"))}
    if {k: ast.unparse(v) for k, v in inits.items()} != {
            "inclusion_bounds_lower": "0.0", "inclusion_bounds_upper": "0.0",
            "exclusion_bounds_lower": "0.0", "exclusion_bounds_upper": "0.0"}:
        raise Bad("PowerBoundsCalculator.calculate: the running bounds no longer start at 0.0")
    if "_aggregate_battery_power_bounds(battery_bounds)" not in ast.unparse(_value_of(pc, "aggregated_bat_bounds")):
        raise Bad("PowerBoundsCalculator.calculate: battery bounds are no longer aggregated by _aggregate_battery_power_bounds")

    out.append("end Extracted.Dist\n")
    return "\n".join(out)


def _raise(what: str):
    raise Bad(f"{what} not found")
