"""Battery distribution algorithm -> Lean definitions of every arithmetic expression and branch condition.

The algorithm itself has loops over dicts and is modelled by hand (`Frequenz/Model/Distribution.lean`), but
each *expression* the loops evaluate — shares, reservations, excess/deficit values, the three-way branch, the
deficit-covering tests, the `-0.1` left-over accounting, the greedy top-up, the per-inverter split, the
supply/consume bound selection, tolerances — is located in the AST and translated here.  The model calls these
definitions, so an edit of a formula, a comparison operator or a constant changes the Lean terms the theorems
are about.

An expression `e` becomes `def <name> (a0 a1 … : Rat) : Rat|Prop := e'` where `a0, a1, …` are the *leaves* of
`e` (names, attribute chains, subscripts, generator aggregates) numbered in order of first appearance, which
makes the translation independent of the names of locals.  The expected number of leaves is checked.

Statements are located by ROLE (shape + dataflow), never by the name of a local or by position:
"the `(a*b)/c` expression of the loop", "the accumulator that is increased by a `max(...)`", "the arm of the
`if` that contains the `-=`", "the dict the second loop iterates", ...  Before matching, every function is
normalised: annotated assignments become plain ones, trivially extracted private helpers (`return <expr>`
methods of the same class) are inlined, guard clauses (`if c: …; continue|return` followed by more
statements) become `if c: … else: <rest>`.  A branch condition is read off the PATH to the statement that
plays the role (tests with polarity) and put into negation normal form (`not` pushed through `and`/`or` and into
comparisons, chained comparisons split), so `if not c: A else: B`, De Morgan rewrites and early `continue`
give the same Lean term as the original.  If a role cannot be found unambiguously, `generate` raises.

Further normalisations (each one only where it provably keeps the meaning; otherwise the code is left as it is
and the role matching refuses it):
  * extracted methods are inlined again: `self._h(…)` whose body is one `return <expr>` (expression level) or a
    statement list ending in its only `return` (statement level, `_inline_procedures`; never the SITES);
  * `match (c1, c2): case (True, _): … case (False, True): … case _: …` on boolean tests -> the if-tree;
  * a local that merely NAMES a pure sub-expression is put back where it is used: before matching when it is used
    once (`_inline_single_use`), at rendering time for any number of uses (`_expand`) unless the local holds the
    result of an extracted definition (then it is a role: the model passes that result).  Both check with a
    conservative dataflow (`_Flow.same_value`: no rebinding of a name the expression reads and, if it reads an
    object, no write to ANY object in between) that the value cannot have changed;
  * `while A and <excess dict>:` = `while A: if not <excess dict>: break`; `return X if c else None` = `if c: return X`
    (`_return_paths`); a value returned through a local = returned directly; keyword = positional arguments of
    `AvailabilityRatio`; the amount to distribute written directly into the share expression.
  * helpers are inlined whatever their kind: methods, `@staticmethod`s (`self._h(…)` / `Cls._h(…)`) and module-level
    functions (also as `map(_h, xs)`), with keyword arguments and literal defaults; a literal flag argument decides the
    `if`s on that parameter (`_fold_const_ifs`); the local a helper returns takes the name the caller assigns it to;
    keyword arguments of calls to methods of the class become positional (`_positional_calls`);
  * boolean locals are put back at every use (`_inline_bool_locals`); conditional expressions become `if` statements
    (`_lift_ifexp`, also `(f if c else g)(args)`); `(x,) = xs` = `x = next(iter(xs))`; a leading `if c: break` of a `for`
    whose test does not depend on the loop variable = `continue` (`_leading_break_to_continue`);
  * nested `if`s are rebuilt as the reduced decision tree over their atomic tests in order of first appearance and written
    back with equal arms merged (`_canon_ifs`): `elif` chains, split `or` conditions, a three-way branch folded into a
    two-way one with a conditional expression, De Morgan and guard clauses give the same tree; `a > b` / `b < a` are one atom;
  * functions defined inside a method (`def weighted_average(metric): return …`, only ever called) are inlined and
    `(lambda x: e)(a)` is reduced (`_inline_local_defs`); `x = sorted(it, key=…, reverse=…)` = `x = [… it …]; x.sort(…)`,
    `t = t <op> e` = `t <op>= e`, `for k, v in d.items(): d[k] = f(v)` = `for k in d.keys(): d[k] = f(d[k])`
    (`_norm_statements`); a local naming an attribute chain (`bounds = battery.power_bounds`) is put back at every use
    (`_inline_projection_locals`); for "has the value changed in between" an item store changes no attribute and an
    attribute store only that attribute (`_heap_write_kinds`); unit accessors `x.as_watts()` and dict views are pure;
  * the PARAMETER ORDER of a definition whose operands can be swapped without changing the meaning (comparisons) is fixed by
    the role of an operand where the dataflow knows it (`order=` of `add`), and a comparison is rendered with the earlier
    parameter on its left (`_orient`), so `-d <= p` and `p >= -d` give the same Lean term.
An operand (parameter of a definition) may only be a name / attribute chain / subscript / `x.as_…()` / an aggregate
over a generator; any other call inside an extracted expression (`abs(…)`, `round(…)`) is refused.
"""
from __future__ import annotations

import ast
import copy
import pathlib
from fractions import Fraction

import py2lean

NAME = "Distribution"
ALGO = "src/frequenz/sdk/microgrid/_power_distributing/_distribution_algorithm/_battery_distribution_algorithm.py"
MATH = "src/frequenz/sdk/_internal/_math.py"
MGR = "src/frequenz/sdk/microgrid/_power_distributing/_component_managers/_battery_manager.py"
POOL = "src/frequenz/sdk/timeseries/battery_pool/_metric_calculator.py"
SOURCES = [ALGO, MATH, MGR, POOL]


class Bad(Exception):
    pass


# --------------------------------------------------------------------------- expression translation
STRUCT_CALLS = {"max", "min", "is_close_to_zero", "math.isclose"}


def _is_struct(n: ast.AST) -> bool:
    """Nodes the translator descends into (everything else is a leaf = a parameter)."""
    if isinstance(n, (ast.BinOp, ast.UnaryOp, ast.Compare, ast.BoolOp, ast.Constant)):
        return True
    if isinstance(n, ast.Call):
        f = ast.unparse(n.func)
        if f in ("max", "min") and len(n.args) == 2 and not n.keywords:
            return True
        if f in ("is_close_to_zero", "math.isclose"):
            return True
    return False


def _is_operand(n: ast.AST) -> bool:
    """What may stand for a parameter of an extracted definition: a name, an attribute chain, a subscript, a unit
    accessor without arguments (`x.as_watts()`), or an aggregate over a generator (`sum(… for …)`, `min(…)`, `max(…)`,
    `len(x)`).  Any other call (`abs(x)`, `round(x)`, …) would hide arithmetic from the translation and is refused."""
    if isinstance(n, (ast.Name, ast.Attribute, ast.Subscript)):
        return True
    if isinstance(n, ast.Call) and not n.keywords:
        f = ast.unparse(n.func)
        if f in ("sum", "min", "max") and len(n.args) == 1 and isinstance(n.args[0], (ast.GeneratorExp, ast.ListComp)):
            return True
        if f == "len" and len(n.args) == 1:
            return True
        if isinstance(n.func, ast.Attribute) and not n.args and n.func.attr.startswith("as_"):
            return True
    return False


class _Leaves(ast.NodeTransformer):
    def __init__(self) -> None:
        self.names: dict[str, str] = {}

    def generic_visit(self, node: ast.AST) -> ast.AST:  # type: ignore[override]
        return super().generic_visit(node)

    def visit(self, node: ast.AST) -> ast.AST:  # type: ignore[override]
        if isinstance(node, ast.expr) and not _is_struct(node):
            if not _is_operand(node):
                raise Bad(f"`{ast.unparse(node)[:80]}` is neither arithmetic the translator knows nor a plain operand")
            src = ast.unparse(node)
            if src not in self.names:
                self.names[src] = f"a{len(self.names)}"
            return ast.copy_location(ast.Name(id=self.names[src], ctx=ast.Load()), node)
        if isinstance(node, ast.Call):
            # keep the callee, transform the arguments only
            node.args = [self.visit(a) for a in node.args]  # type: ignore[assignment]
            for k in node.keywords:
                k.value = self.visit(k.value)  # type: ignore[assignment]
            return node
        return self.generic_visit(node)


class _Tr(py2lean.Translator):
    def expr(self, n, env):  # type: ignore[override]
        if isinstance(n, ast.Constant) and isinstance(n.value, (int, float)) and not isinstance(n.value, bool):
            fr = Fraction(repr(n.value)) if isinstance(n.value, float) else Fraction(n.value)
            if fr.denominator == 1:
                return f"({fr.numerator} : Rat)"
            return f"(({fr.numerator} : Rat) / {fr.denominator})"
        if isinstance(n, ast.UnaryOp) and isinstance(n.op, ast.USub):
            return f"(-{self.expr(n.operand, env)})"
        return super().expr(n, env)

    def bexpr(self, n, env):  # type: ignore[override]
        raise py2lean.Unsupported("boolean used as a value")

    def prop(self, n, env):  # type: ignore[override]
        if isinstance(n, ast.Call):
            f = ast.unparse(n.func)
            if f == "is_close_to_zero" and len(n.args) == 1 and not n.keywords:
                return f"isCloseToZero {self._atom(self.expr(n.args[0], env))}"
            if f == "math.isclose" and len(n.args) == 2 and not n.keywords:
                a, b = (self._atom(self.expr(x, env)) for x in n.args)
                return f"isClose {a} {b}"
            raise py2lean.Unsupported(f"call {f} in a condition")
        if isinstance(n, ast.BoolOp):
            j = " ∧ " if isinstance(n.op, ast.And) else " ∨ "
            return "(" + j.join(f"({self.prop(v, env)})" for v in n.values) + ")"
        if isinstance(n, ast.UnaryOp) and isinstance(n.op, ast.Not):
            return f"¬ ({self.prop(n.operand, env)})"
        return super().prop(n, env)


def _orient(node: ast.AST) -> ast.AST:
    """A comparison whose right side holds the earlier parameter is mirrored (`-a1 <= a0` -> `a0 >= -a1`): `x < y` and
    `y > x` are the same test, so the rendered term does not depend on which way round the source spells it."""
    mirror = {ast.Lt: ast.Gt, ast.Gt: ast.Lt, ast.LtE: ast.GtE, ast.GtE: ast.LtE, ast.Eq: ast.Eq, ast.NotEq: ast.NotEq}

    def first(n: ast.AST) -> int:
        ks = [int(x.id[1:]) for x in ast.walk(n) if isinstance(x, ast.Name) and x.id[:1] == "a" and x.id[1:].isdigit()]
        return min(ks) if ks else 10 ** 6

    for c in ast.walk(node):
        if isinstance(c, ast.Compare) and len(c.ops) == 1 and type(c.ops[0]) in mirror and first(c.comparators[0]) < first(c.left):
            c.left, c.comparators, c.ops = c.comparators[0], [c.left], [mirror[type(c.ops[0])]()]
    return node


def lean_def(name: str, node: ast.expr, arity: int, kind: str, doc: str, order: dict | None = None) -> str:
    """kind: 'val' (Rat-valued) or 'prop' (decidable Prop).  `order`: position -> predicate on the source text of an operand
    that must take that parameter position (a ROLE known from the dataflow); the other operands fill the remaining positions
    in order of appearance."""
    lv = _Leaves()
    node = lv.visit(ast.parse(ast.unparse(node), mode="eval").body)
    if len(lv.names) != arity:
        raise Bad(f"{name}: expected {arity} operands, found {sorted(lv.names)} in `{doc}`")
    if order:
        srcs = list(lv.names)
        fixed: dict[int, str] = {}
        for pos, pred in order.items():
            pos = pos % arity
            hit = [x for x in srcs if pred(x)]
            if len(hit) != 1:
                raise Bad(f"{name}: operand for position {pos}: expected exactly one candidate, found {len(hit)} in `{doc}`")
            fixed[pos] = hit[0]
        rest = [x for x in srcs if x not in fixed.values()]
        new_order = [fixed[i] if i in fixed else rest.pop(0) for i in range(arity)]
        ren = {lv.names[x]: f"b{i}" for i, x in enumerate(new_order)}
        for n in ast.walk(node):
            if isinstance(n, ast.Name) and n.id in ren:
                n.id = ren[n.id]
        for n in ast.walk(node):
            if isinstance(n, ast.Name) and n.id[:1] == "b" and n.id[1:].isdigit():
                n.id = "a" + n.id[1:]
        lv.names = {x: f"a{i}" for i, x in enumerate(new_order)}
    node = _orient(node)
    params = " ".join(f"({p} : Rat)" for p in lv.names.values())
    tr = _Tr({})
    env = py2lean.Env()
    operands = ", ".join(f"{v} = {k}" for k, v in lv.names.items())
    head = f"/-- `{doc}`   ({operands}) -/\n"
    if kind == "val":
        return head + f"def {name} {params} : Rat :=\n  {tr.expr(node, env)}\n"
    body = tr.prop(node, env)
    args = " ".join(lv.names.values())
    return (head + f"def {name} {params} : Prop :=\n  {body}\n"
            f"instance {params.replace('(', '{').replace(')', '}')} : Decidable ({name} {args}) := by\n"
            f"  unfold {name}; exact inferInstance\n")


# --------------------------------------------------------------------------- normalisation
def _class_of(tree: ast.AST, fn_name: str) -> ast.ClassDef | None:
    for n in ast.walk(tree):
        if isinstance(n, ast.ClassDef) and any(isinstance(m, (ast.FunctionDef, ast.AsyncFunctionDef)) and m.name == fn_name
                                               for m in n.body):
            return n
    return None


def _func(tree: ast.AST, name: str) -> ast.FunctionDef:
    for n in ast.walk(tree):
        if isinstance(n, (ast.FunctionDef, ast.AsyncFunctionDef)) and n.name == name:
            return n  # type: ignore[return-value]
    raise Bad(f"function {name} not found")


def _no_doc(body: list[ast.stmt]) -> list[ast.stmt]:
    return [s for s in body if not (isinstance(s, ast.Expr) and isinstance(s.value, ast.Constant)
                                    and isinstance(s.value.value, str))]


class _Subst(ast.NodeTransformer):
    def __init__(self, m: dict[str, ast.expr]):
        self.m = m

    def visit_Name(self, node: ast.Name) -> ast.AST:  # noqa: N802
        if node.id in self.m and isinstance(node.ctx, ast.Load):
            return copy.deepcopy(self.m[node.id])
        return node


def _is_static(m: ast.FunctionDef) -> bool:
    return [ast.unparse(d) for d in m.decorator_list] == ["staticmethod"]


def _simple_sig(m: ast.FunctionDef) -> bool:
    return not (m.args.vararg or m.args.kwarg or m.args.kwonlyargs or m.args.posonlyargs)


def _callee(call: ast.Call, cls: ast.ClassDef | None, tree: ast.AST | None) -> tuple[ast.FunctionDef, list[str]] | None:
    """The function a call certainly refers to, with its parameters (without `self`): `self.m(…)` / `Cls.m(…)` for a
    plain or static method of the class, `f(…)` for an undecorated module-level function that no local rebinds."""
    f = call.func
    if isinstance(f, ast.Attribute) and isinstance(f.value, ast.Name) and cls is not None and f.value.id in ("self", cls.name):
        for m in cls.body:
            if isinstance(m, ast.FunctionDef) and m.name == f.attr and _simple_sig(m):
                if _is_static(m):
                    return m, [a.arg for a in m.args.args]
                if not m.decorator_list and m.args.args and m.args.args[0].arg == "self" and f.value.id == "self":
                    return m, [a.arg for a in m.args.args][1:]
        return None
    if isinstance(f, ast.Name) and isinstance(tree, ast.Module):
        for m in tree.body:
            if isinstance(m, ast.FunctionDef) and m.name == f.id and not m.decorator_list and _simple_sig(m):
                return m, [a.arg for a in m.args.args]
    return None


def _bind_args(call: ast.Call, m: ast.FunctionDef, params: list[str]) -> dict[str, ast.expr] | None:
    """parameter -> argument expression (positional, keyword, literal defaults); `None` if it cannot be established"""
    if any(isinstance(a, ast.Starred) for a in call.args) or any(k.arg is None for k in call.keywords) or len(call.args) > len(params):
        return None
    bind: dict[str, ast.expr] = dict(zip(params, call.args))
    for k in call.keywords:
        if k.arg not in params or k.arg in bind:
            return None
        bind[k.arg] = k.value  # type: ignore[index]
    defaults = dict(zip(params[len(params) - len(m.args.defaults):], m.args.defaults)) if m.args.defaults else {}
    for q in params:
        if q not in bind:
            if q in defaults and isinstance(defaults[q], ast.Constant):
                bind[q] = copy.deepcopy(defaults[q])
            else:
                return None
    return bind


def _expr_body(m: ast.FunctionDef) -> ast.expr | None:
    body = _no_doc(m.body)
    if len(body) == 1 and isinstance(body[0], ast.Return) and body[0].value is not None:
        return body[0].value
    return None


class _InlineHelpers(ast.NodeTransformer):
    """`self._helper(a, b)` / `Cls._helper(a)` / `_helper(a)` -> the body expression of a method of the same class, a static
    method or a module-level function that only returns an expression (`map(_helper, xs)` -> `map(lambda p: <body>, xs)`)."""

    def __init__(self, cls: ast.ClassDef | None, tree: ast.AST | None = None, locals_: set[str] | None = None):
        self.cls, self.tree, self.locals = cls, tree, locals_ or set()

    def _target(self, call: ast.Call):
        if isinstance(call.func, ast.Name) and call.func.id in self.locals:
            return None
        c = _callee(call, self.cls, self.tree)
        if c is None or c[0].name in SITES or _expr_body(c[0]) is None:
            return None
        return c

    def visit_Call(self, node: ast.Call) -> ast.AST:  # noqa: N802
        self.generic_visit(node)
        if ast.unparse(node.func) == "map" and len(node.args) == 2 and not node.keywords and isinstance(node.args[0], (ast.Name, ast.Attribute)):
            probe = ast.Call(func=node.args[0], args=[ast.Name(id="_x", ctx=ast.Load())], keywords=[])
            c = self._target(probe)
            if c is not None and len(c[1]) == 1:
                lam = ast.Lambda(args=ast.arguments(posonlyargs=[], args=[ast.arg(arg=c[1][0])], kwonlyargs=[], kw_defaults=[], defaults=[]),
                                 body=copy.deepcopy(_expr_body(c[0])))
                return ast.copy_location(ast.Call(func=node.func, args=[lam, node.args[1]], keywords=[]), node)
            return node
        c = self._target(node)
        if c is None:
            return node
        m, params = c
        bind = _bind_args(node, m, params)
        if bind is None or not all(_is_pure(a) or isinstance(a, ast.Name) for a in bind.values()):
            return node
        expr = copy.deepcopy(_expr_body(m))
        bound_inside = {n.id for n in ast.walk(expr) if isinstance(n, ast.Name) and isinstance(n.ctx, ast.Store)} | \
            {a.arg for l in ast.walk(expr) if isinstance(l, ast.Lambda) for a in l.args.args}
        if any(_loaded_names(a) & bound_inside for a in bind.values()):
            return node  # an argument would be captured by a comprehension / lambda variable of the helper
        return _Subst(bind).visit(expr)


# Methods that `generate` looks up itself: calls of these are never inlined into their callers.
SITES = {"_distribute_consume_power", "_distribute_supply_power", "_inclusion_exclusion_bounds",
         "_compute_battery_availability_ratio", "_distribute_power", "_greedy_distribute_remaining_power",
         "_distribute_multi_inverter_pairs", "distribute_power", "distribute_power_equally", "_total_capacity",
         "_check_request", "_get_bounds", "_get_battery_inverter_data", "_get_components_data", "_get_distribution"}


class _Rename(ast.NodeTransformer):
    def __init__(self, m: dict[str, str]):
        self.m = m

    def visit_Name(self, node: ast.Name) -> ast.AST:  # noqa: N802
        if node.id in self.m:
            return ast.copy_location(ast.Name(id=self.m[node.id], ctx=node.ctx), node)
        return node


def _names_bound(stmts: list[ast.stmt]) -> set[str]:
    out: set[str] = set()
    for s in stmts:
        for n in ast.walk(s):
            if isinstance(n, ast.Name) and isinstance(n.ctx, (ast.Store, ast.Del)):
                out.add(n.id)
    return out


def _fold_const_ifs(stmts: list[ast.stmt]) -> list[ast.stmt]:
    """`if True: A else: B` -> A (after a literal flag was put in for a parameter)"""
    def const(e: ast.expr) -> bool | None:
        if isinstance(e, ast.Constant) and isinstance(e.value, bool):
            return e.value
        if isinstance(e, ast.UnaryOp) and isinstance(e.op, ast.Not):
            v = const(e.operand)
            return None if v is None else not v
        return None

    out: list[ast.stmt] = []
    for s in stmts:
        for f in ("body", "orelse", "finalbody"):
            sub = getattr(s, f, None)
            if isinstance(sub, list) and sub and isinstance(sub[0], ast.stmt):
                setattr(s, f, _fold_const_ifs(sub))
        if isinstance(s, ast.If) and const(s.test) is not None:
            out.extend(s.body if const(s.test) else s.orelse)
        else:
            out.append(s)
    return out


def _inline_procedures(fn: ast.FunctionDef, cls: ast.ClassDef | None, tree: ast.AST | None = None) -> None:
    """Undo "extract method": `t = self._h(a, …)` / `self._h(a, …)` / `return self._h(a, …)` where `_h` is a method of
    the same class (not one of SITES) whose body is a statement list with a single `return` at its very end (or none).

    The body is copied in place of the call.  A parameter the helper never rebinds is replaced by the argument (a name,
    or a pure expression); a parameter it does rebind must be an in/out value — the argument is a plain name and the
    helper's result is assigned back to that same name — and is then replaced by that name too.  Other locals of the
    helper keep their names unless they clash with a name of the caller.  Anything else is left as a call."""
    if cls is None and tree is None:
        return

    def eligible(m: ast.FunctionDef) -> tuple[list[ast.stmt], ast.expr | None] | None:
        body = _no_doc(m.body)
        rets = [n for s in body for n in ast.walk(s) if isinstance(n, ast.Return)]
        if any(isinstance(n, (ast.Yield, ast.YieldFrom, ast.Await, ast.FunctionDef, ast.AsyncFunctionDef,
                              ast.Global, ast.Nonlocal, ast.ClassDef)) for s in body for n in ast.walk(s)):
            return None
        if not rets:
            return body, None
        if len(rets) == 1 and body and body[-1] is rets[0]:
            return body[:-1], rets[0].value
        return None

    def expand(call: ast.Call, targets: list[str] | None) -> tuple[list[ast.stmt], ast.expr | None] | None:
        c = _callee(call, cls, tree)
        if c is None or c[0].name in SITES or c[0] is fn or c[0].name == fn.name:
            return None
        if isinstance(call.func, ast.Name) and call.func.id in _names_bound(fn.body):
            return None
        m, params = c
        el = eligible(m)
        if el is None:
            return None
        body, ret = el
        if len(body) < 1:  # single `return <expr>`: expression-level inlining handles it
            return None
        bind = _bind_args(call, m, params)
        if bind is None:
            return None
        rebound = _names_bound(body)
        ret_names = ([e.id if isinstance(e, ast.Name) else None for e in ret.elts] if isinstance(ret, ast.Tuple)
                     else [ret.id if isinstance(ret, ast.Name) else None]) if ret is not None else []
        subst: dict[str, ast.expr] = {}
        rename: dict[str, str] = {}
        for q in params:
            a = bind[q]
            if q not in rebound:
                if not (isinstance(a, ast.Name) or _is_pure(a)):
                    return None
                if isinstance(a, ast.Name):
                    rename[q] = a.id
                else:
                    subst[q] = a
            else:  # in/out
                if not (isinstance(a, ast.Name) and targets is not None and len(targets) == len(ret_names)
                        and any(t == a.id and r == q for t, r in zip(targets, ret_names))):
                    return None
                rename[q] = a.id
        caller_names = {n.id for n in ast.walk(fn) if isinstance(n, ast.Name)} | {a.arg for a in fn.args.args}
        for v in sorted(rebound - set(params)):
            rename[v] = v if v not in caller_names else f"{v}__{m.name.strip('_')}"
        # the local the helper returns takes the name of the variable the caller assigns the result to
        if isinstance(ret, ast.Name) and ret.id in rebound and ret.id not in params and targets is not None and len(targets) == 1:
            t = targets[0]
            taken = (set(rename.values()) - {rename[ret.id]}) | set().union(*[_loaded_names(a) for a in bind.values()], set())
            if t not in taken and t not in {n.id for s in body for n in ast.walk(s) if isinstance(n, ast.Name)} - {ret.id}:
                rename[ret.id] = t
        lam_args = {a.arg for s in body for l in ast.walk(s) if isinstance(l, ast.Lambda) for a in l.args.args}
        if lam_args & ({k for k, v in rename.items() if v != k} | set(subst) | set(rename.values()) - set(rename)):
            return None  # a lambda parameter of the helper would capture / be captured by a renamed name
        new_body = _fold_const_ifs([_Subst(subst).visit(_Rename(rename).visit(copy.deepcopy(s))) for s in body])
        new_ret = _Subst(subst).visit(_Rename(rename).visit(copy.deepcopy(ret))) if ret is not None else None
        return new_body, new_ret

    def rewrite(stmts: list[ast.stmt]) -> tuple[list[ast.stmt], bool]:
        out: list[ast.stmt] = []
        changed = False
        for s in stmts:
            for f in ("body", "orelse", "finalbody"):
                sub = getattr(s, f, None)
                if isinstance(sub, list) and sub and isinstance(sub[0], ast.stmt):
                    new, ch = rewrite(sub)
                    setattr(s, f, new)
                    changed |= ch
            call = tnames = None
            tnode = None
            if isinstance(s, (ast.Assign, ast.AnnAssign)) and isinstance(s.value, ast.Call):
                tnode = s.targets[0] if isinstance(s, ast.Assign) and len(s.targets) == 1 else getattr(s, "target", None)
                if isinstance(tnode, ast.Name):
                    call, tnames = s.value, [tnode.id]
                elif isinstance(tnode, ast.Tuple) and all(isinstance(e, ast.Name) for e in tnode.elts):
                    call, tnames = s.value, [e.id for e in tnode.elts]  # type: ignore[attr-defined]
            elif isinstance(s, ast.Expr) and isinstance(s.value, ast.Call):
                call = s.value
            elif isinstance(s, ast.Return) and isinstance(s.value, ast.Call):
                call = s.value
            ex = expand(call, tnames) if call is not None else None
            if ex is None:
                out.append(s)
                continue
            body, ret = ex
            out.extend(body)
            if isinstance(s, ast.Return):
                out.append(ast.copy_location(ast.Return(value=ret), s))
            elif tnames is not None:
                if ret is None:
                    out.append(s)  # `t = self._h()` of a procedure without result: leave (refused later)
                    continue
                if ast.unparse(ret) != ast.unparse(tnode):  # type: ignore[arg-type]
                    if isinstance(ret, ast.Tuple) and isinstance(tnode, ast.Tuple) and len(ret.elts) == len(tnode.elts):
                        for t, r in zip(tnode.elts, ret.elts):
                            if ast.unparse(t) != ast.unparse(r):
                                out.append(ast.copy_location(ast.Assign(targets=[t], value=r), s))
                    else:
                        out.append(ast.copy_location(ast.Assign(targets=[tnode], value=ret), s))  # type: ignore[list-item]
            changed = True
        return out, changed

    for _ in range(4):
        fn.body, ch = rewrite(fn.body)
        if not ch:
            break
    ast.fix_missing_locations(fn)


def _is_boolish(n: ast.AST) -> bool:
    return (isinstance(n, (ast.Compare, ast.BoolOp)) or (isinstance(n, ast.UnaryOp) and isinstance(n.op, ast.Not))
            or _is_call(n, "is_close_to_zero") or _is_call(n, "math.isclose"))


def _match_to_if(s: ast.Match) -> list[ast.stmt]:
    """`match (c1, c2): case (True, _): A  case (False, True): B  case _: C` -> the decision tree
    `if c1: A else: if c2: B else: C` (subject components are boolean tests, patterns `True` / `False` / `_`)."""
    comps = list(s.subject.elts) if isinstance(s.subject, ast.Tuple) else [s.subject]
    if not all(_is_boolish(c) and _is_pure(c) for c in comps):
        raise Bad("match: the subject is not a (tuple of) boolean test(s)")

    def cell(p: ast.pattern) -> bool | None:
        if isinstance(p, ast.MatchSingleton) and isinstance(p.value, bool):
            return p.value
        if isinstance(p, ast.MatchValue) and isinstance(p.value, ast.Constant) and isinstance(p.value.value, bool):
            return p.value.value
        if isinstance(p, ast.MatchAs) and p.pattern is None and p.name is None:
            return None
        raise Bad(f"match: unsupported pattern {ast.unparse(p)}")

    rows: list[tuple[list[bool | None], list[ast.stmt]]] = []
    for c in s.cases:
        if c.guard is not None:
            raise Bad("match: guards are not supported")
        if isinstance(c.pattern, ast.MatchAs) and c.pattern.pattern is None and c.pattern.name is None:
            cells: list[bool | None] = [None] * len(comps)
        elif isinstance(s.subject, ast.Tuple) and isinstance(c.pattern, ast.MatchSequence) and len(c.pattern.patterns) == len(comps):
            cells = [cell(p) for p in c.pattern.patterns]
        elif not isinstance(s.subject, ast.Tuple):
            cells = [cell(c.pattern)]
        else:
            raise Bad(f"match: unsupported pattern {ast.unparse(c.pattern)}")
        rows.append((cells, c.body))

    def build(rs: list[tuple[list[bool | None], list[ast.stmt]]], k: int) -> list[ast.stmt]:
        if not rs:
            return []
        if all(c is None for c in rs[0][0][k:]):
            return list(rs[0][1])
        if all(r[0][k] is None for r in rs):
            return build(rs, k + 1)
        yes = build([r for r in rs if r[0][k] in (True, None)], k + 1)
        no = build([r for r in rs if r[0][k] in (False, None)], k + 1)
        return [ast.copy_location(ast.If(test=comps[k], body=yes or [ast.Pass()], orelse=no), s)]

    return build(rows, 0)


def _ends_block(stmts: list[ast.stmt]) -> bool:
    return bool(stmts) and isinstance(stmts[-1], (ast.Continue, ast.Return, ast.Break, ast.Raise))


def _leading_break_to_continue(fn: ast.FunctionDef) -> None:
    """`for x in xs: if c: break; …` with a pure `c` that does not mention `x`: once `c` holds nothing changes any more (a
    skipped iteration leaves every variable as it is, so `c` holds again at the next one), hence `break` = `continue` —
    provided the loop has no `else` and `x` is not read after the loop."""
    for lp in [n for n in ast.walk(fn) if isinstance(n, ast.For)]:
        body = _no_doc(list(lp.body))
        if lp.orelse or not body or not isinstance(body[0], ast.If):
            continue
        first = body[0]
        if first.orelse or len(first.body) != 1 or not isinstance(first.body[0], ast.Break) or not _is_pure(first.test):
            continue
        tg = _bind_names(lp.target)
        if _loaded_names(first.test) & tg:
            continue
        inside = {id(x) for st in lp.body for x in ast.walk(st)}
        if any(isinstance(x, ast.Name) and x.id in tg and isinstance(x.ctx, ast.Load) and id(x) not in inside for x in ast.walk(fn)):
            continue
        first.body = [ast.copy_location(ast.Continue(), first.body[0])]


def _norm_block(stmts: list[ast.stmt]) -> list[ast.stmt]:
    """AnnAssign -> Assign; `match` on boolean tests -> if-tree; guard clauses -> if/else; recursively."""
    out: list[ast.stmt] = []
    stmts = _no_doc(stmts)
    flat: list[ast.stmt] = []
    for s in stmts:
        flat.extend(_match_to_if(s) if isinstance(s, ast.Match) else [s])
    stmts = [s for s in flat if not isinstance(s, ast.Pass)]
    for i, s in enumerate(stmts):
        if isinstance(s, ast.AnnAssign):
            if s.value is None:
                continue
            s = ast.copy_location(ast.Assign(targets=[s.target], value=s.value), s)
        if isinstance(s, ast.Assign) and len(s.targets) == 1 and isinstance(s.targets[0], (ast.Tuple, ast.List)) \
                and len(s.targets[0].elts) == 1 and isinstance(s.targets[0].elts[0], ast.Name) and _is_pure(s.value):
            # `(x,) = xs` (exactly one element, checked by Python) = `x = next(iter(xs))`
            one = ast.Call(func=ast.Name(id="next", ctx=ast.Load()),
                           args=[ast.Call(func=ast.Name(id="iter", ctx=ast.Load()), args=[s.value], keywords=[])], keywords=[])
            s = ast.copy_location(ast.Assign(targets=[s.targets[0].elts[0]], value=one), s)
        if isinstance(s, ast.If):
            body, orelse = _norm_block(s.body), _norm_block(s.orelse)
            rest = stmts[i + 1:]
            if rest and _ends_block(body) and not _ends_block(orelse):
                out.append(ast.copy_location(ast.If(test=s.test, body=body, orelse=orelse + _norm_block(rest)), s))
                return out
            if rest and orelse and _ends_block(orelse) and not _ends_block(body):
                out.append(ast.copy_location(ast.If(test=s.test, body=body + _norm_block(rest), orelse=orelse), s))
                return out
            out.append(ast.copy_location(ast.If(test=s.test, body=body, orelse=orelse), s))
        elif isinstance(s, (ast.For, ast.While)):
            t = copy.copy(s)
            body = _no_doc(list(s.body))
            t.body = _norm_block(body)
            t.orelse = _norm_block(s.orelse)
            out.append(t)
        else:
            out.append(s)
    return out


# --------------------------------------------------------------------------- locals: dataflow, inlining, expansion
PURE_CALLS = {"max", "min", "abs", "pow", "len", "sum", "float", "is_close_to_zero", "math.isclose"}


def _is_pure(e: ast.AST) -> bool:
    """Side-effect free arithmetic / comparison over names, attribute chains and subscripts."""
    if isinstance(e, (ast.Name, ast.Constant)):
        return True
    if isinstance(e, ast.Attribute):
        return _is_pure(e.value)
    if isinstance(e, ast.Subscript):
        return _is_pure(e.value) and _is_pure(e.slice)
    if isinstance(e, (ast.BinOp,)):
        return _is_pure(e.left) and _is_pure(e.right)
    if isinstance(e, ast.UnaryOp):
        return _is_pure(e.operand)
    if isinstance(e, ast.BoolOp):
        return all(_is_pure(v) for v in e.values)
    if isinstance(e, ast.Compare):
        return _is_pure(e.left) and all(_is_pure(c) for c in e.comparators)
    if isinstance(e, ast.IfExp):
        return _is_pure(e.test) and _is_pure(e.body) and _is_pure(e.orelse)
    if isinstance(e, ast.Call):
        if isinstance(e.func, ast.Attribute) and not e.keywords and (
                (e.func.attr.startswith("as_") and not e.args) or (e.func.attr in ("keys", "values", "items") and not e.args)):
            return _is_pure(e.func.value)  # unit accessors `x.as_watts()` and dict views
        return (ast.unparse(e.func) in PURE_CALLS and all(_is_pure(a) for a in e.args)
                and all(k.arg is not None and _is_pure(k.value) for k in e.keywords))
    if isinstance(e, (ast.GeneratorExp, ast.ListComp)):
        return _is_pure(e.elt) and all(_is_pure(g.iter) and not g.is_async and all(_is_pure(i) for i in g.ifs)
                                       for g in e.generators)
    return False


def _loaded_names(e: ast.AST) -> set[str]:
    return {n.id for n in ast.walk(e) if isinstance(n, ast.Name) and isinstance(n.ctx, ast.Load)}


def _store_bases(t: ast.AST) -> set[str]:
    if isinstance(t, (ast.Tuple, ast.List)):
        return set().union(*[_store_bases(x) for x in t.elts]) if t.elts else set()
    if isinstance(t, ast.Starred):
        return _store_bases(t.value)
    b = _base_name(t)  # type: ignore[arg-type]
    return {b} if b else set()


def _bind_names(t: ast.AST) -> set[str]:
    """Names (re)bound by an assignment target (`x`, `(x, y)`); `x.a` / `x[k]` bind nothing."""
    if isinstance(t, ast.Name):
        return {t.id}
    if isinstance(t, (ast.Tuple, ast.List)):
        return set().union(*[_bind_names(x) for x in t.elts]) if t.elts else set()
    if isinstance(t, ast.Starred):
        return _bind_names(t.value)
    return set()


def _own_binds(s: ast.stmt) -> set[str]:
    """Names this statement itself (not the statements nested in it) gives a new value."""
    out: set[str] = set()
    if isinstance(s, ast.Assign):
        for t in s.targets:
            out |= _bind_names(t)
    elif isinstance(s, (ast.AugAssign, ast.AnnAssign)):
        out |= _bind_names(s.target)
    elif isinstance(s, (ast.For, ast.AsyncFor)):
        out |= _bind_names(s.target)
    elif isinstance(s, ast.Delete):
        for t in s.targets:
            out |= _bind_names(t)
    elif isinstance(s, (ast.With, ast.AsyncWith)):
        for i in s.items:
            if i.optional_vars is not None:
                out |= _bind_names(i.optional_vars)
    elif isinstance(s, (ast.Global, ast.Nonlocal)):
        out |= set(s.names)
    elif isinstance(s, (ast.FunctionDef, ast.AsyncFunctionDef, ast.ClassDef)):
        out.add(s.name)
    for h in _heads(s):
        for c in ast.walk(h):
            if isinstance(c, ast.NamedExpr):
                out |= _bind_names(c.target)
    return out


def _heads(s: ast.stmt) -> list[ast.AST]:
    if isinstance(s, (ast.Assign, ast.AugAssign, ast.AnnAssign, ast.Expr, ast.Return)):
        return [s.value] if getattr(s, "value", None) is not None else []
    if isinstance(s, (ast.If, ast.While)):
        return [s.test]
    if isinstance(s, (ast.For, ast.AsyncFor)):
        return [s.iter]
    if isinstance(s, ast.Match):
        return [s.subject]
    return []


def _own_stores(s: ast.stmt) -> set[str]:
    """Base names this statement itself may rebind OR mutate (`x.a = …`, `x[k] = …`, `x.m(…)`, `f(x)`)."""
    out = _own_binds(s)
    if isinstance(s, ast.Assign):
        for t in s.targets:
            out |= _store_bases(t)
    elif isinstance(s, (ast.AugAssign, ast.AnnAssign)):
        out |= _store_bases(s.target)
    elif isinstance(s, ast.Delete):
        for t in s.targets:
            out |= _store_bases(t)
    for h in _heads(s):
        for c in ast.walk(h):
            if isinstance(c, ast.Call) and not (ast.unparse(c.func) in PURE_CALLS):
                # an unknown call may mutate its receiver and its arguments
                if isinstance(c.func, ast.Attribute):
                    b = _base_name(c.func.value)
                    if b and b != "self" and b != "math":
                        out.add(b)
                for a in list(c.args) + [k.value for k in c.keywords]:
                    if isinstance(a, ast.Starred):
                        a = a.value
                    b = _base_name(a) if isinstance(a, (ast.Name, ast.Attribute, ast.Subscript)) else None
                    if b and b != "self":
                        out.add(b)
    return out


def _reads_heap(e: ast.AST) -> bool:
    return any(isinstance(n, (ast.Attribute, ast.Subscript)) for n in ast.walk(e))


def _writes_heap(s: ast.stmt) -> bool:
    """The statement itself (not the statements nested in it) may change an object: `x.a = …`, `x[k] = …`, `del x[k]`,
    or a call the translator does not know (which may mutate anything it can reach)."""
    ts: list[ast.AST] = []
    if isinstance(s, ast.Assign):
        ts = list(s.targets)
    elif isinstance(s, (ast.AugAssign, ast.AnnAssign)):
        ts = [s.target]
    elif isinstance(s, ast.Delete):
        ts = list(s.targets)
    flat: list[ast.AST] = []
    while ts:
        t = ts.pop()
        if isinstance(t, (ast.Tuple, ast.List)):
            ts.extend(t.elts)
        else:
            flat.append(t)
    if any(isinstance(t, (ast.Attribute, ast.Subscript)) for t in flat):
        return True
    return any(isinstance(c, ast.Call) and ast.unparse(c.func) not in PURE_CALLS for h in _heads(s) for c in ast.walk(h))


def _heap_write_kinds(s: ast.stmt) -> set[str] | None:
    """How the statement itself may change objects: {"item"} for `x[k] = …` / `del x[k]`, {"attr:<a>"} for `x.a = …`;
    `None` when it makes a call the translator does not know (which may change anything)."""
    ts: list[ast.AST] = []
    if isinstance(s, ast.Assign):
        ts = list(s.targets)
    elif isinstance(s, (ast.AugAssign, ast.AnnAssign)):
        ts = [s.target]
    elif isinstance(s, ast.Delete):
        ts = list(s.targets)
    kinds: set[str] = set()
    while ts:
        t = ts.pop()
        if isinstance(t, (ast.Tuple, ast.List)):
            ts.extend(t.elts)
        elif isinstance(t, ast.Subscript):
            kinds.add("item")
        elif isinstance(t, ast.Attribute):
            kinds.add("attr:" + t.attr)
    for h in _heads(s):
        for c in ast.walk(h):
            if isinstance(c, ast.Call) and not _is_pure(c) and ast.unparse(c.func) not in PURE_CALLS:
                return None
    return kinds


class _Flow:
    """Statement positions of one function: preorder index, enclosing loops, enclosing block — enough to decide
    whether the value of a pure expression evaluated at statement `d` is still the same at statement `u`."""

    def __init__(self, fn: ast.FunctionDef):
        self.fn = fn
        self.stmts: list[ast.stmt] = []
        self.idx: dict[int, int] = {}
        self.loops: dict[int, tuple[int, ...]] = {}
        self.block: dict[int, tuple[list, int]] = {}
        self.end: dict[int, int] = {}  # last preorder index inside the statement
        self.owner: dict[int, ast.stmt] = {}  # id(expression node) -> statement whose head contains it
        self._walk(fn.body, ())
        self.params = {a.arg for a in fn.args.args + fn.args.kwonlyargs + fn.args.posonlyargs}
        if fn.args.vararg:
            self.params.add(fn.args.vararg.arg)
        if fn.args.kwarg:
            self.params.add(fn.args.kwarg.arg)

    def _walk(self, stmts: list[ast.stmt], loops: tuple[int, ...]) -> None:
        for i, s in enumerate(stmts):
            k = len(self.stmts)
            self.stmts.append(s)
            self.idx[id(s)] = k
            self.loops[id(s)] = loops
            self.block[id(s)] = (stmts, i)
            for f, v in ast.iter_fields(s):
                if f in ("body", "orelse", "finalbody", "handlers", "cases"):
                    continue
                for x in (v if isinstance(v, list) else [v]):
                    if isinstance(x, ast.AST):
                        for c in ast.walk(x):
                            self.owner[id(c)] = s
            inner = loops + (k,) if isinstance(s, (ast.For, ast.While, ast.AsyncFor)) else loops
            for f in ("body", "orelse", "finalbody"):
                sub = getattr(s, f, None)
                if isinstance(sub, list) and sub and isinstance(sub[0], ast.stmt):
                    self._walk(sub, inner if f == "body" else loops)
            for h in getattr(s, "handlers", []) or []:
                self._walk(h.body, loops)
            for c in getattr(s, "cases", []) or []:
                self._walk(c.body, loops)
            self.end[id(s)] = len(self.stmts) - 1

    def defs(self, name: str) -> list[ast.stmt]:
        return [s for s in self.stmts if name in _own_binds(s)]

    def single_pure_def(self, name: str) -> ast.Assign | None:
        """The statement `name = <pure expr>` if that is the only way `name` gets a value in this function."""
        if name in self.params:
            return None
        ds = self.defs(name)
        if len(ds) != 1:
            return None
        d = ds[0]
        if not (isinstance(d, ast.Assign) and len(d.targets) == 1 and isinstance(d.targets[0], ast.Name) and _is_pure(d.value)):
            return None
        if isinstance(d.value, (ast.Name, ast.Attribute, ast.Subscript)) \
                and any(name in _own_stores(s) for s in self.stmts if s is not d):
            return None  # an alias of a (possibly mutable) object that is written through
        if any(isinstance(n, (ast.FunctionDef, ast.Lambda)) and name in _loaded_names(n) for n in ast.walk(self.fn)
               if n is not self.fn):
            return None  # captured by a closure: evaluated later
        return d

    def same_value(self, d: ast.stmt, u: ast.stmt, expr: ast.AST) -> bool:
        """`expr`, evaluated at `d`, has the same value when evaluated at `u` instead (`u` runs after `d`)."""
        di, ui = self.idx[id(d)], self.idx[id(u)]
        blk, i = self.block[id(d)]
        if not (di < ui and any(self.idx[id(s)] <= ui <= self.end[id(s)] for s in blk[i + 1:])):
            return False  # `u` is not in the part of d's block that follows d
        names = _loaded_names(expr)
        bound = {n.id for g in ast.walk(expr) if isinstance(g, ast.comprehension) for n in ast.walk(g.target)
                 if isinstance(n, ast.Name)}
        names -= bound
        lo, hi = di + 1, ui
        if isinstance(u, ast.While):  # the test is evaluated again after every iteration
            hi = self.end[id(u)] + 1
        for l in self.loops[id(u)]:
            if l not in self.loops[id(d)] and l != di:  # `u` sits in a loop that `d` is outside of: the whole loop counts
                lo, hi = min(lo, l), max(hi, self.end[id(self.stmts[l])] + 1)
        heap = _reads_heap(expr)
        reads_items = any(isinstance(n, ast.Subscript) for n in ast.walk(expr)) or any(
            isinstance(n, ast.Call) for n in ast.walk(expr))
        read_attrs = {n.attr for n in ast.walk(expr) if isinstance(n, ast.Attribute)}
        for s in self.stmts[lo:hi]:
            if s is u and not isinstance(u, (ast.For, ast.AsyncFor)):
                continue
            if _own_stores(s) & names:
                return False
            if heap and _writes_heap(s):
                # aliases are not tracked: a write to an object may be a write to this one — but an item store (`x[k] = …`)
                # changes no attribute and an attribute store (`x.a = …`) changes only attribute `a`
                kinds = _heap_write_kinds(s)
                if kinds is None or (reads_items and "item" in kinds) or (read_attrs & {k[5:] for k in kinds if k.startswith("attr:")}):
                    return False
        return True


def _replace_node(root: ast.AST, old: ast.AST, new: ast.AST) -> bool:
    for parent in ast.walk(root):
        for f, v in ast.iter_fields(parent):
            if v is old:
                setattr(parent, f, new)
                return True
            if isinstance(v, list):
                for i, x in enumerate(v):
                    if x is old:
                        v[i] = new
                        return True
    return False


def _inline_single_use(fn: ast.FunctionDef) -> None:
    """`x = <pure expr>` used exactly once, with nothing in between that could change the value: put the expression
    where it is used and drop the assignment (undoes an "extract variable" refactor, whatever the name)."""
    for _ in range(200):
        fl = _Flow(fn)
        done = False
        for d in fl.stmts:
            if not (isinstance(d, ast.Assign) and len(d.targets) == 1 and isinstance(d.targets[0], ast.Name)):
                continue
            x = d.targets[0].id
            if fl.single_pure_def(x) is not d:
                continue
            uses = [n for n in ast.walk(fn) if isinstance(n, ast.Name) and n.id == x and isinstance(n.ctx, ast.Load)]
            if len(uses) != 1 or id(uses[0]) not in fl.owner:
                continue
            u = fl.owner[id(uses[0])]
            if x in _own_stores(u) and not isinstance(u, ast.Assign):
                continue
            if not fl.same_value(d, u, d.value):
                continue
            # not below a lambda / comprehension that rebinds one of the names of the expression
            shadow = False
            for sc in ast.walk(u):
                if isinstance(sc, (ast.Lambda, ast.GeneratorExp, ast.ListComp, ast.SetComp, ast.DictComp)) \
                        and any(n is uses[0] for n in ast.walk(sc)):
                    bound = {a.arg for a in sc.args.args} if isinstance(sc, ast.Lambda) else \
                        {n.id for g in sc.generators for n in ast.walk(g.target) if isinstance(n, ast.Name)}
                    if bound & _loaded_names(d.value):
                        shadow = True
            if shadow:
                continue
            if not _replace_node(u, uses[0], d.value):
                continue
            blk, i = fl.block[id(d)]
            del blk[i]
            if not blk:
                blk.append(ast.Pass())
            done = True
            break
        if not done:
            return


def _expand(node: ast.AST, flows: list[_Flow], roles: set[int], site: ast.stmt | None = None, depth: int = 0) -> ast.AST:
    """Copy of `node` in which every local that merely NAMES a pure sub-expression is replaced by that expression.

    A local is expanded when it is assigned exactly once (`x = <pure expr>`), that expression is not itself the body
    of an extracted definition (`roles`: then the local stands for the result of that definition in the model) and
    nothing between the assignment and the place of use can change its value.  So the translated term does not
    depend on whether (or under which name) a sub-expression was given a name."""
    if depth > 40:
        raise Bad("expansion of locals does not terminate")
    if isinstance(node, ast.Name) and isinstance(node.ctx, ast.Load):
        fl = next((f for f in flows if id(node) in f.owner), None)
        u = fl.owner[id(node)] if fl is not None else site
        fl = fl or next((f for f in flows if site is not None and id(site) in f.idx), None)
        if fl is None or u is None:
            return node
        d = fl.single_pure_def(node.id)
        if d is None or id(d.value) in roles or d is u or not fl.same_value(d, u, d.value):
            return node
        return _expand(d.value, flows, roles, d, depth + 1)
    if isinstance(node, (ast.Lambda, ast.GeneratorExp, ast.ListComp, ast.SetComp, ast.DictComp)):
        return node  # opaque operands: never looked into
    new = None
    for f, v in ast.iter_fields(node):
        if isinstance(v, ast.AST):
            w = _expand(v, flows, roles, site, depth)
            if w is not v:
                new = new or copy.copy(node)
                setattr(new, f, w)
        elif isinstance(v, list) and v and isinstance(v[0], ast.AST):
            ws = [_expand(x, flows, roles, site, depth) for x in v]
            if any(a is not b for a, b in zip(ws, v)):
                new = new or copy.copy(node)
                setattr(new, f, ws)
    return new or node



def _inline_bool_locals(fn: ast.FunctionDef) -> None:
    """`flag = <pure test>` read any number of times while the test still has the same value: the test is put back at
    every use (a boolean local is never a role)."""
    for _ in range(50):
        fl = _Flow(fn)
        done = False
        for d in fl.stmts:
            if not (isinstance(d, ast.Assign) and len(d.targets) == 1 and isinstance(d.targets[0], ast.Name) and _is_boolish(d.value)):
                continue
            x = d.targets[0].id
            if fl.single_pure_def(x) is not d:
                continue
            uses = [n for n in ast.walk(fn) if isinstance(n, ast.Name) and n.id == x and isinstance(n.ctx, ast.Load)]
            if not uses or any(id(u) not in fl.owner for u in uses):
                continue
            if not all(fl.same_value(d, fl.owner[id(u)], d.value) for u in uses):
                continue
            ok = True
            for u in uses:
                ok = ok and _replace_node(fl.owner[id(u)], u, copy.deepcopy(d.value))
            if not ok:
                raise Bad(f"boolean local {x}: could not be put back")
            blk, i = fl.block[id(d)]
            del blk[i]
            if not blk:
                blk.append(ast.Pass())
            done = True
            break
        if not done:
            return


def _lift_ifexp(stmts: list[ast.stmt]) -> list[ast.stmt]:
    """`x = (a if c else b) - m` -> `if c: x = a - m else: x = b - m`; `(f if c else g)(args)` -> `f(args) if c else g(args)`
    (pure tests only; the statement's own value must be pure apart from the one call whose callee is the conditional)."""
    out: list[ast.stmt] = []
    for s in stmts:
        for f in ("body", "orelse", "finalbody"):
            sub = getattr(s, f, None)
            if isinstance(sub, list) and sub and isinstance(sub[0], ast.stmt):
                setattr(s, f, _lift_ifexp(sub))
        if not isinstance(s, (ast.Assign, ast.AugAssign, ast.Return, ast.Expr)) or getattr(s, "value", None) is None:
            out.append(s)
            continue
        v = s.value
        # callee conditional
        for c in ast.walk(v):
            if isinstance(c, ast.Call) and isinstance(c.func, ast.IfExp) and _is_pure(c.func.test):
                a, b = copy.copy(c), copy.copy(c)
                a.func, b.func = c.func.body, c.func.orelse
                new = ast.copy_location(ast.IfExp(test=c.func.test, body=a, orelse=b), c)
                if c is v:
                    s.value = v = new
                else:
                    _replace_node(s, c, new)
                break
        hit = None
        stack = [v]
        while stack and hit is None:
            n = stack.pop(0)
            if isinstance(n, (ast.Lambda, ast.GeneratorExp, ast.ListComp, ast.SetComp, ast.DictComp)):
                continue
            if isinstance(n, ast.IfExp) and _is_pure(n.test):
                hit = n
                break
            stack.extend(ast.iter_child_nodes(n))
        rest_pure = hit is not None and (hit is v or _is_pure(_with(v, hit, ast.Constant(value=0))))
        if hit is None or not rest_pure:
            out.append(s)
            continue
        s1, s2 = copy.deepcopy(s), copy.deepcopy(s)
        # locate the copies of `hit` by position (same traversal order)
        idx = [i for i, n in enumerate(ast.walk(s)) if n is hit][0]
        h1 = list(ast.walk(s1))[idx]
        h2 = list(ast.walk(s2))[idx]
        if h1 is s1.value:
            s1.value, s2.value = h1.body, h2.orelse
        else:
            _replace_node(s1, h1, h1.body)
            _replace_node(s2, h2, h2.orelse)
        out.extend(_lift_ifexp([ast.copy_location(ast.If(test=hit.test, body=[s1], orelse=[s2]), s)]))
    return out


def _with(root: ast.AST, old: ast.AST, new: ast.AST) -> ast.AST:
    idx = [i for i, n in enumerate(ast.walk(root)) if n is old][0]
    r = copy.deepcopy(root)
    o = list(ast.walk(r))[idx]
    if o is r:
        return new
    _replace_node(r, o, new)
    return r


# ---- decision trees of nested `if`s
def _atom_key(e: ast.expr) -> str:
    """`a > b` and `b < a` (and `a >= b` / `b <= a`) are the same test"""
    if isinstance(e, ast.Compare) and len(e.ops) == 1 and isinstance(e.ops[0], (ast.Gt, ast.GtE)):
        op = ast.Lt() if isinstance(e.ops[0], ast.Gt) else ast.LtE()
        e = ast.Compare(left=e.comparators[0], ops=[op], comparators=[e.left])
    return ast.unparse(e)


def _test_atoms(e: ast.expr, acc: list[ast.expr]) -> None:
    if isinstance(e, ast.BoolOp):
        for v in e.values:
            _test_atoms(v, acc)
    elif isinstance(e, ast.UnaryOp) and isinstance(e.op, ast.Not):
        _test_atoms(e.operand, acc)
    elif isinstance(e, ast.Compare) and len(e.ops) > 1:
        left = e.left
        for op, right in zip(e.ops, e.comparators):
            _test_atoms(ast.Compare(left=left, ops=[op], comparators=[right]), acc)
            left = right
    elif isinstance(e, ast.Compare) and isinstance(e.ops[0], ast.NotEq):
        _test_atoms(ast.Compare(left=e.left, ops=[ast.Eq()], comparators=e.comparators), acc)
    else:
        if _atom_key(e) not in [_atom_key(a) for a in acc]:
            acc.append(e)


def _eval_test(e: ast.expr, val: dict[str, bool]) -> bool | None:
    """value of a test under a partial valuation of its atoms (`None`: not determined)"""
    if isinstance(e, ast.BoolOp):
        vs = [_eval_test(v, val) for v in e.values]
        if isinstance(e.op, ast.And):
            return False if False in vs else (None if None in vs else True)
        return True if True in vs else (None if None in vs else False)
    if isinstance(e, ast.UnaryOp) and isinstance(e.op, ast.Not):
        v = _eval_test(e.operand, val)
        return None if v is None else not v
    if isinstance(e, ast.Compare) and len(e.ops) > 1:
        left, vs = e.left, []
        for op, right in zip(e.ops, e.comparators):
            vs.append(_eval_test(ast.Compare(left=left, ops=[op], comparators=[right]), val))
            left = right
        return False if False in vs else (None if None in vs else True)
    if isinstance(e, ast.Compare) and isinstance(e.ops[0], ast.NotEq):
        v = _eval_test(ast.Compare(left=e.left, ops=[ast.Eq()], comparators=e.comparators), val)
        return None if v is None else not v
    return val.get(_atom_key(e))


def _canon_ifs(stmts: list[ast.stmt]) -> list[ast.stmt]:
    """Nested `if`s whose arms are again single `if`s form a decision tree over their atomic tests; it is rebuilt with the
    atoms in order of first appearance, reduced (an atom that does not matter is not tested) and written back with equal
    arms merged (`if a: X elif b: X else: Y` = `if a or b: X else: Y`, `if a: (if b: X else: Y) else: Y` = `if a and b: X
    else: Y`).  So how a case distinction is nested, split or spelled (`elif` chains, conditional expressions, De Morgan,
    guard clauses, swapped operands) does not matter.  Only pure tests; at most 6 atoms."""
    out: list[ast.stmt] = []
    for s in stmts:
        for f in ("body", "orelse", "finalbody"):
            sub = getattr(s, f, None)
            if isinstance(sub, list) and sub and isinstance(sub[0], ast.stmt) and not isinstance(s, ast.If):
                setattr(s, f, _canon_ifs(sub))
        if not isinstance(s, ast.If):
            out.append(s)
            continue

        tests: list[ast.expr] = []

        def collect(n: ast.If) -> None:
            tests.append(n.test)
            for arm in (n.body, n.orelse):
                if len(arm) == 1 and isinstance(arm[0], ast.If):
                    collect(arm[0])

        collect(s)
        atoms: list[ast.expr] = []
        for t in tests:
            _test_atoms(t, atoms)
        if not all(_is_pure(t) for t in tests) or len(atoms) > 6:
            s.body, s.orelse = _canon_ifs(s.body), _canon_ifs(s.orelse)
            out.append(s)
            continue

        def leaf_of(n: list[ast.stmt], val: dict[str, bool]):
            """the block reached under the (partial) valuation, or None if a test on the way is undetermined"""
            if len(n) == 1 and isinstance(n[0], ast.If):
                v = _eval_test(n[0].test, val)
                if v is None:
                    return None
                return leaf_of(n[0].body if v else n[0].orelse, val)
            return n

        def build(k: int, val: dict[str, bool]):
            lf = leaf_of([s], val)
            if lf is not None:
                return ("leaf", lf)
            if k >= len(atoms):
                raise Bad("decision tree: undetermined after all atoms")
            key = _atom_key(atoms[k])
            hi = build(k + 1, {**val, key: True})
            lo = build(k + 1, {**val, key: False})
            if same(hi, lo):
                return hi
            return ("if", atoms[k], hi, lo)

        def same(a, b) -> bool:
            if a[0] != b[0]:
                return False
            if a[0] == "leaf":
                return [ast.dump(x) for x in a[1]] == [ast.dump(x) for x in b[1]]
            return _atom_key(a[1]) == _atom_key(b[1]) and same(a[2], b[2]) and same(a[3], b[3])

        def neg(e: ast.expr) -> ast.expr:
            return ast.UnaryOp(op=ast.Not(), operand=e)

        def join(op, a: ast.expr, b: ast.expr) -> ast.expr:
            vals = (list(a.values) if isinstance(a, ast.BoolOp) and isinstance(a.op, type(op)) else [a]) + \
                   (list(b.values) if isinstance(b, ast.BoolOp) and isinstance(b.op, type(op)) else [b])
            return ast.BoolOp(op=op, values=vals)

        def sugar(t):
            """(test, then-tree, else-tree) with equal arms merged; trees are ("leaf", stmts) or ("node", test, hi, lo)"""
            if t[0] == "leaf":
                return t
            test, hi, lo = t[1], sugar(t[2]), sugar(t[3])
            changed = True
            while changed:
                changed = False
                if lo[0] == "node" and same2(lo[2], hi):
                    test, lo, changed = join(ast.Or(), test, lo[1]), lo[3], True
                elif lo[0] == "node" and same2(lo[3], hi):
                    test, lo, changed = join(ast.Or(), test, neg(lo[1])), lo[2], True
                elif hi[0] == "node" and same2(hi[3], lo):
                    test, hi, changed = join(ast.And(), test, hi[1]), hi[2], True
                elif hi[0] == "node" and same2(hi[2], lo):
                    test, hi, changed = join(ast.And(), test, neg(hi[1])), hi[3], True
            return ("node", test, hi, lo)

        def same2(a, b) -> bool:
            if a[0] != b[0]:
                return False
            if a[0] == "leaf":
                return [ast.dump(x) for x in a[1]] == [ast.dump(x) for x in b[1]]
            return ast.dump(a[1]) == ast.dump(b[1]) and same2(a[2], b[2]) and same2(a[3], b[3])

        def emit(t) -> list[ast.stmt]:
            if t[0] == "leaf":
                return _canon_ifs(copy.deepcopy(t[1]))
            return [ast.copy_location(ast.If(test=copy.deepcopy(t[1]), body=emit(t[2]) or [ast.Pass()], orelse=emit(t[3])), s)]

        tree = build(0, {})
        out.extend(emit(sugar(tree)))
    return out


def _positional_calls(fn: ast.FunctionDef, cls: ast.ClassDef | None, tree: ast.AST | None) -> None:
    """`self.m(b=y, a=x)` -> `self.m(x, y)` for methods of the class / functions of the module with a plain signature
    (arguments left to their defaults must be the last ones)."""
    for c in ast.walk(fn):
        if not isinstance(c, ast.Call) or not c.keywords:
            continue
        if isinstance(c.func, ast.Name) and c.func.id in _names_bound(fn.body):
            continue
        t = _callee(c, cls, tree)
        if t is None or any(isinstance(a, ast.Starred) for a in c.args) or any(k.arg is None for k in c.keywords):
            continue
        m, params = t
        given: dict[str, ast.expr] = dict(zip(params, c.args))
        ok = len(c.args) <= len(params)
        for k in c.keywords:
            if k.arg not in params or k.arg in given:
                ok = False
            else:
                given[k.arg] = k.value  # type: ignore[index]
        n = len(given)
        if not ok or set(given) != set(params[:n]):
            continue
        if len({*map(ast.dump, given.values())}) and not all(_is_pure(v) or isinstance(v, ast.Name) for v in given.values()):
            # reordering would change the order in which impure arguments are evaluated
            if [k.arg for k in c.keywords] != params[len(c.args):n]:
                continue
        c.args = [given[q] for q in params[:n]]
        c.keywords = []


def _inline_local_defs(fn: ast.FunctionDef) -> None:
    """A function defined INSIDE `fn` whose body is one `return <expr>` and that is only ever called: every call is replaced
    by the expression (parameters bound to the arguments; the variables it captures are read at the call, as before), then
    `(lambda x: e)(a)` is reduced."""
    for _ in range(10):
        inner = [n for n in ast.walk(fn) if isinstance(n, ast.FunctionDef) and n is not fn and not n.decorator_list
                 and _simple_sig(n) and _expr_body(n) is not None]
        done = False
        for d in inner:
            refs = [n for n in ast.walk(fn) if isinstance(n, ast.Name) and n.id == d.name]
            calls = [c for c in ast.walk(fn) if isinstance(c, ast.Call) and isinstance(c.func, ast.Name) and c.func.id == d.name]
            if len(refs) != len(calls) or not calls or any(any(c is x for x in ast.walk(d)) for c in calls):
                continue
            if d.name in {n.id for n in ast.walk(fn) if isinstance(n, ast.Name) and isinstance(n.ctx, ast.Store)}:
                continue
            params = [a.arg for a in d.args.args]
            ok = True
            for c in calls:
                bind = _bind_args(c, d, params)
                if bind is None:
                    ok = False
                    break
                _replace_node(fn, c, _Subst(bind).visit(copy.deepcopy(_expr_body(d))))
            if not ok:
                raise Bad(f"local function {d.name}: call cannot be bound")
            for blk_owner in ast.walk(fn):
                for f in ("body", "orelse", "finalbody"):
                    sub = getattr(blk_owner, f, None)
                    if isinstance(sub, list) and d in sub:
                        sub.remove(d)
                        if not sub:
                            sub.append(ast.Pass())
            done = True
            break
        if not done:
            break
    # beta reduction
    for _ in range(50):
        hit = next((c for c in ast.walk(fn) if isinstance(c, ast.Call) and isinstance(c.func, ast.Lambda) and not c.keywords
                    and len(c.args) == len(c.func.args.args) and not c.func.args.defaults
                    and all(_is_pure(a) for a in c.args)), None)
        if hit is None:
            break
        lam = hit.func
        inner_bound = {n.id for n in ast.walk(lam.body) if isinstance(n, ast.Name) and isinstance(n.ctx, ast.Store)}
        if any(_loaded_names(a) & inner_bound for a in hit.args):
            break
        _replace_node(fn, hit, _Subst({p.arg: a for p, a in zip(lam.args.args, hit.args)}).visit(copy.deepcopy(lam.body)))
    ast.fix_missing_locations(fn)


def _norm_statements(stmts: list[ast.stmt]) -> list[ast.stmt]:
    """`x = sorted(it, key=…, reverse=…)` -> `x = [… it …]; x.sort(key=…, reverse=…)`; `t = t <op> e` -> `t <op>= e` for a
    pure target; `for k, v in d.items(): … d[k] = f(v)` (the value only read before the item is stored) -> `for k in
    d.keys(): … d[k] = f(d[k])`."""
    out: list[ast.stmt] = []
    for s in stmts:
        for f in ("body", "orelse", "finalbody"):
            sub = getattr(s, f, None)
            if isinstance(sub, list) and sub and isinstance(sub[0], ast.stmt):
                setattr(s, f, _norm_statements(sub))
        if isinstance(s, ast.Assign) and len(s.targets) == 1 and isinstance(s.targets[0], ast.Name) and isinstance(s.value, ast.Call) \
                and ast.unparse(s.value.func) == "sorted" and len(s.value.args) == 1 \
                and all(k.arg in ("key", "reverse") for k in s.value.keywords):
            src = s.value.args[0]
            if isinstance(src, ast.GeneratorExp):
                src = ast.ListComp(elt=src.elt, generators=src.generators)
            elif not isinstance(src, (ast.ListComp, ast.List)):
                src = ast.Call(func=ast.Name(id="list", ctx=ast.Load()), args=[src], keywords=[])
            out.append(ast.copy_location(ast.Assign(targets=[s.targets[0]], value=src), s))
            out.append(ast.copy_location(ast.Expr(value=ast.Call(
                func=ast.Attribute(value=ast.Name(id=s.targets[0].id, ctx=ast.Load()), attr="sort", ctx=ast.Load()),
                args=[], keywords=s.value.keywords)), s))
            continue
        if isinstance(s, ast.Assign) and len(s.targets) == 1 and isinstance(s.targets[0], (ast.Name, ast.Subscript, ast.Attribute)) \
                and isinstance(s.value, ast.BinOp) and isinstance(s.value.op, (ast.Add, ast.Sub, ast.Mult)) and _is_pure(s.targets[0]) \
                and ast.dump(_as_load(s.targets[0])) == ast.dump(s.value.left):
            out.append(ast.copy_location(ast.AugAssign(target=s.targets[0], op=s.value.op, value=s.value.right), s))
            continue
        if isinstance(s, ast.For) and not s.orelse and isinstance(s.target, ast.Tuple) and len(s.target.elts) == 2 \
                and all(isinstance(e, ast.Name) for e in s.target.elts) and isinstance(s.iter, ast.Call) \
                and isinstance(s.iter.func, ast.Attribute) and s.iter.func.attr == "items" and not s.iter.args and _is_pure(s.iter.func.value):
            k, v = (e.id for e in s.target.elts)  # type: ignore[attr-defined]
            d = s.iter.func.value
            item = ast.Subscript(value=copy.deepcopy(d), slice=ast.Name(id=k, ctx=ast.Load()), ctx=ast.Load())
            stores = [i for i, st in enumerate(s.body) if any(
                isinstance(t, ast.Subscript) and isinstance(t.ctx, ast.Store) and ast.dump(_as_load(t)) == ast.dump(item) for t in ast.walk(st))]
            v_loads = [i for i, st in enumerate(s.body) for n in ast.walk(st) if isinstance(n, ast.Name) and n.id == v and isinstance(n.ctx, ast.Load)]
            bound = {n.id for st in s.body for n in ast.walk(st) if isinstance(n, ast.Name) and isinstance(n.ctx, ast.Store)}
            if stores and v_loads and max(v_loads) <= min(stores) and not ({k, v} & bound) \
                    and all(isinstance(s.body[i], (ast.Assign, ast.AugAssign)) for i in set(stores)):
                body = [_Subst({v: item}).visit(copy.deepcopy(st)) for st in s.body]
                keys = ast.Call(func=ast.Attribute(value=copy.deepcopy(d), attr="keys", ctx=ast.Load()), args=[], keywords=[])
                out.extend(_norm_statements([ast.copy_location(ast.For(target=ast.Name(id=k, ctx=ast.Store()), iter=keys, body=body, orelse=[]), s)]))
                continue
        out.append(s)
    return out


def _as_load(t: ast.AST) -> ast.AST:
    t = copy.deepcopy(t)
    for n in ast.walk(t):
        if hasattr(n, "ctx"):
            n.ctx = ast.Load()
    return t


def _inline_projection_locals(fn: ast.FunctionDef) -> None:
    """`x = a.b.c` (an attribute chain of a name, read any number of times while it still has the same value): the chain is
    put back at every use, so naming a field does not change which variables a loop captures."""
    for _ in range(50):
        fl = _Flow(fn)
        done = False
        for d in fl.stmts:
            if not (isinstance(d, ast.Assign) and len(d.targets) == 1 and isinstance(d.targets[0], ast.Name)
                    and isinstance(d.value, ast.Attribute)):
                continue
            base = d.value
            while isinstance(base, ast.Attribute):
                base = base.value
            if not isinstance(base, ast.Name) or base.id == "self":
                continue
            x = d.targets[0].id
            if fl.single_pure_def(x) is not d:
                continue
            uses = [n for n in ast.walk(fn) if isinstance(n, ast.Name) and n.id == x and isinstance(n.ctx, ast.Load)]
            if not uses or any(id(u) not in fl.owner for u in uses):
                continue
            if not all(fl.same_value(d, fl.owner[id(u)], d.value) for u in uses):
                continue
            # not below a lambda / comprehension that rebinds the base name
            if any(isinstance(sc, (ast.Lambda, ast.GeneratorExp, ast.ListComp, ast.SetComp, ast.DictComp)) and any(n is u for n in ast.walk(sc))
                   and base.id in ({a.arg for a in sc.args.args} if isinstance(sc, ast.Lambda) else
                                   {n.id for g in sc.generators for n in ast.walk(g.target) if isinstance(n, ast.Name)})
                   for u in uses for sc in ast.walk(fl.owner[id(u)])):
                continue
            for u in uses:
                if not _replace_node(fl.owner[id(u)], u, copy.deepcopy(d.value)):
                    raise Bad(f"local {x}: could not be put back")
            blk, i = fl.block[id(d)]
            del blk[i]
            if not blk:
                blk.append(ast.Pass())
            done = True
            break
        if not done:
            return


def _norm_fn(fn: ast.FunctionDef, cls: ast.ClassDef | None, tree: ast.AST | None) -> ast.FunctionDef:
    """All normalisations of one function (a deep copy is returned)."""
    fn = copy.deepcopy(fn)
    _inline_local_defs(fn)
    _inline_procedures(fn, cls, tree)
    locals_ = _names_bound(fn.body) | {a.arg for a in fn.args.args}
    fn = _InlineHelpers(cls, tree, locals_).visit(fn)
    _positional_calls(fn, cls, tree)
    _leading_break_to_continue(fn)
    fn.body = _norm_statements(_norm_block(fn.body))
    _inline_single_use(fn)
    _inline_projection_locals(fn)
    _inline_bool_locals(fn)
    fn.body = _norm_block(_lift_ifexp(fn.body))
    fn.body = _canon_ifs(fn.body)
    _inline_single_use(fn)
    ast.fix_missing_locations(fn)
    return fn


def _norm_func(tree: ast.AST, name: str) -> ast.FunctionDef:
    return _norm_fn(_func(tree, name), _class_of(tree, name), tree)


# --------------------------------------------------------------------------- conditions
_FLIP = {ast.Lt: ast.GtE, ast.LtE: ast.Gt, ast.Gt: ast.LtE, ast.GtE: ast.Lt, ast.Eq: ast.NotEq, ast.NotEq: ast.Eq}


def _canon_chain(b: ast.BoolOp) -> ast.BoolOp:
    """A conjunction of ordering tests that form a chain (`lo < p` and `p < hi`, in any order and spelling: `hi > p and
    p > lo`) is written as the ascending chain `lo < p`, `p < hi`.  `a > b` and `b < a` are the same test (also on NaN)
    and the operands are pure, so neither the spelling nor the order of the conjuncts matters.  Anything that is not
    such a chain is returned unchanged (a single comparison keeps its spelling: its operands are parameters of the
    extracted definition, in order of appearance)."""
    if not isinstance(b.op, ast.And) or len(b.values) < 2:
        return b
    links = []
    for v in b.values:
        if not (isinstance(v, ast.Compare) and len(v.ops) == 1 and isinstance(v.ops[0], (ast.Lt, ast.LtE, ast.Gt, ast.GtE))):
            return b
        l, r, op = v.left, v.comparators[0], v.ops[0]
        if isinstance(op, (ast.Gt, ast.GtE)):
            l, r, op = r, l, (ast.Lt() if isinstance(op, ast.Gt) else ast.LtE())
        links.append((ast.unparse(l), ast.unparse(r), ast.Compare(left=l, ops=[op], comparators=[r])))
    rights = {x[1] for x in links}
    starts = [x for x in links if x[0] not in rights]
    if len(starts) != 1:
        return b
    order, left = [starts[0]], [x for x in links if x is not starts[0]]
    while left:
        nxt = [x for x in left if x[0] == order[-1][1]]
        if len(nxt) != 1:
            return b
        order.append(nxt[0])
        left.remove(nxt[0])
    return ast.BoolOp(op=ast.And(), values=[x[2] for x in order])


def nnf(e: ast.expr, neg: bool = False) -> ast.expr:
    """Negation normal form; chained comparisons are split into conjunctions."""
    if isinstance(e, ast.UnaryOp) and isinstance(e.op, ast.Not):
        return nnf(e.operand, not neg)
    if isinstance(e, ast.BoolOp):
        op = e.op
        if neg:
            op = ast.Or() if isinstance(e.op, ast.And) else ast.And()
        return _canon_chain(ast.BoolOp(op=op, values=[nnf(v, neg) for v in e.values]))
    if isinstance(e, ast.Compare):
        if len(e.ops) > 1:
            parts: list[ast.expr] = []
            left = e.left
            for op, right in zip(e.ops, e.comparators):
                parts.append(ast.Compare(left=left, ops=[op], comparators=[right]))
                left = right
            return nnf(ast.BoolOp(op=ast.And(), values=parts), neg)
        if not neg:
            return e
        for k, v in _FLIP.items():
            if isinstance(e.ops[0], k):
                return ast.Compare(left=e.left, ops=[v()], comparators=e.comparators)
        raise Bad(f"cannot negate {ast.unparse(e)}")
    return ast.UnaryOp(op=ast.Not(), operand=e) if neg else e


Path = list  # of (test, polarity)


def _walk_paths(stmts: list[ast.stmt], path: Path, into_loops: bool = True):
    """Yield (statement, path) for every statement below `stmts`; path = [(test, polarity)] of the enclosing ifs."""
    for s in stmts:
        yield s, path
        if isinstance(s, ast.If):
            yield from _walk_paths(s.body, path + [(s.test, True)], into_loops)
            yield from _walk_paths(s.orelse, path + [(s.test, False)], into_loops)
        elif isinstance(s, (ast.For, ast.While)) and into_loops:
            yield from _walk_paths(s.body, path, into_loops)


def _return_paths(stmts: list[ast.stmt], env: dict[str, ast.expr] | None = None, path: Path | None = None):
    """Every way through a statement list to a top-level `return`: yields (returned expression, path).

    Statements after an `if` are continued in both arms; `return a if c else b` is two paths; a pure local assigned on
    the way (`flag = <test>`) is substituted into the tests and the result that mention it.  So `if c: return X`,
    `flag = c; …; return X if flag else None` and `if not c: return None; return X` all give the path `[(c, True)]`
    to `X`.  Loops are stepped over (returns inside them are not enumerated; names they assign are forgotten)."""
    env = dict(env or {})
    path = list(path or [])

    def sub(e: ast.expr) -> ast.expr:
        return _Subst(env).visit(copy.deepcopy(e)) if env else e

    for i, s in enumerate(stmts):
        if isinstance(s, ast.Assign) and len(s.targets) == 1 and isinstance(s.targets[0], ast.Name) and _is_pure(s.value):
            val = sub(s.value)
            for k in [k for k, v in env.items() if s.targets[0].id in _loaded_names(v)]:
                env.pop(k)
            env[s.targets[0].id] = val
            continue
        if isinstance(s, ast.If):
            t = sub(s.test)
            yield from _return_paths(s.body + stmts[i + 1:], env, path + [(t, True)])
            yield from _return_paths(s.orelse + stmts[i + 1:], env, path + [(t, False)])
            return
        if isinstance(s, ast.Return):
            if isinstance(s.value, ast.IfExp):
                t = sub(s.value.test)
                yield sub(s.value.body), path + [(t, True)]
                yield sub(s.value.orelse), path + [(t, False)]
            else:
                yield (sub(s.value) if s.value is not None else None), path
            return
        # anything else (loops, calls, stores into objects, …): forget every local it may invalidate
        inner = [x for x in ast.walk(s) if isinstance(x, ast.stmt)]
        written = set().union(*[_own_stores(x) for x in inner])
        heap = any(_writes_heap(x) for x in inner)
        for k in [k for k, v in env.items() if k in written or _loaded_names(v) & written or (heap and _reads_heap(v))]:
            env.pop(k)


def _cond(path: Path, what: str, last_only: bool = False, negate: bool = False) -> ast.expr:
    """The condition a path stands for (conjunction of its polarised tests), in negation normal form."""
    if not path:
        raise Bad(f"{what}: unconditional")
    if last_only:
        path = path[-1:]
    parts = [t if pol else ast.UnaryOp(op=ast.Not(), operand=t) for t, pol in path]
    e: ast.expr = parts[0] if len(parts) == 1 else ast.BoolOp(op=ast.And(), values=parts)
    return nnf(e, negate)


def _one(xs: list, what: str):
    if len(xs) != 1:
        raise Bad(f"{what}: expected exactly one candidate, found {len(xs)}")
    return xs[0]


def _contains(n: ast.AST, pred) -> bool:
    return any(pred(c) for c in ast.walk(n))


def _is_call(n: ast.AST, name: str, nargs: int | None = None) -> bool:
    return isinstance(n, ast.Call) and ast.unparse(n.func) == name and (nargs is None or len(n.args) == nargs)


def _stmts_in(scope: list[ast.stmt], into_loops: bool = True) -> list[tuple[ast.stmt, Path]]:
    return list(_walk_paths(scope, [], into_loops))


def _tsrc(s: ast.stmt) -> str:
    if isinstance(s, ast.Assign):
        if len(s.targets) != 1:
            raise Bad("multiple assignment targets")
        return ast.unparse(s.targets[0])
    return ast.unparse(s.target)  # type: ignore[attr-defined]


def _target(s: ast.stmt) -> ast.expr:
    if isinstance(s, ast.Assign):
        if len(s.targets) != 1:
            raise Bad("multiple assignment targets")
        return s.targets[0]
    return s.target  # type: ignore[attr-defined]


def _kwarg(call: ast.Call, name: str) -> ast.expr:
    for k in call.keywords:
        if k.arg == name:
            return k.value
    raise Bad(f"keyword {name} not found in {ast.unparse(call)[:60]}")


def _strip_from_watts(e: ast.expr) -> ast.expr:
    if isinstance(e, ast.Call) and ast.unparse(e.func) == "Power.from_watts" and len(e.args) == 1:
        return e.args[0]
    raise Bad(f"expected Power.from_watts(...), got {ast.unparse(e)[:60]}")


def _aug_as_binop(s: ast.AugAssign) -> ast.expr:
    return ast.BinOp(left=s.target, op=s.op, right=s.value)  # type: ignore[arg-type]


def _base_name(e: ast.expr) -> str | None:
    """`d[k]` -> 'd', `d[k].attr` -> 'd', `x.attr` -> 'x'."""
    while isinstance(e, (ast.Subscript, ast.Attribute)):
        e = e.value
    return e.id if isinstance(e, ast.Name) else None


def _items_loop(loop: ast.For, what: str) -> tuple[str, str]:
    """(dict, value variable) of `for <key>, <value> in <dict>.items()` or of
    `for <key> in <dict> [.keys()]: <value> = <dict>[<key>]; …` (first statement of the body)."""
    it, tg = loop.iter, loop.target
    if isinstance(it, ast.Call) and isinstance(it.func, ast.Attribute) and it.func.attr == "items" and not it.args \
            and isinstance(it.func.value, ast.Name) and isinstance(tg, ast.Tuple) and len(tg.elts) == 2 \
            and all(isinstance(e, ast.Name) for e in tg.elts):
        return it.func.value.id, tg.elts[1].id  # type: ignore[attr-defined]
    d = it
    if isinstance(d, ast.Call) and isinstance(d.func, ast.Attribute) and d.func.attr == "keys" and not d.args:
        d = d.func.value
    if isinstance(d, ast.Call) and ast.unparse(d.func) in ("list", "tuple") and len(d.args) == 1:
        d = d.args[0]
    first = loop.body[0] if loop.body else None
    if isinstance(d, ast.Name) and isinstance(tg, ast.Name) and isinstance(first, ast.Assign) and len(first.targets) == 1 \
            and isinstance(first.targets[0], ast.Name) and ast.unparse(first.value) == f"{d.id}[{tg.id}]":
        return d.id, first.targets[0].id
    raise Bad(f"{what}: expected `for <key>, <value> in <dict>.items()`")


def _request_writes(tree: ast.AST, cls_name: str, entry: str) -> list[str]:
    """What the methods of `cls_name` reachable from `entry` (through `self.<method>(…)` calls, transitively) WRITE into the
    instance: assignments / augmented assignments / deletions of `self.<attr>`, `self.<attr>[k]`, `self.<attr>.<field>`,
    calls of a mutating container method on `self.<attr>` — also through a local that is an alias of `self.<attr>`.
    Empty = the object keeps no state of its own from one request to the next (its collaborators may: they are named in
    the property's assumptions)."""
    cls = next((n for n in ast.walk(tree) if isinstance(n, ast.ClassDef) and n.name == cls_name), None)
    if cls is None:
        raise Bad(f"class {cls_name} not found")
    methods = {m.name: m for m in cls.body if isinstance(m, (ast.FunctionDef, ast.AsyncFunctionDef))}
    if entry not in methods:
        raise Bad(f"{cls_name}.{entry} not found")
    reach, todo = [], [entry]
    while todo:
        m = todo.pop()
        if m in reach:
            continue
        reach.append(m)
        for c in ast.walk(methods[m]):
            if isinstance(c, ast.Attribute) and isinstance(c.value, ast.Name) and c.value.id == "self" and c.attr in methods:
                todo.append(c.attr)  # called, or handed on as a bound method
    mutators = {"update", "add", "append", "pop", "setdefault", "clear", "remove", "discard", "extend", "insert", "popitem",
                "sort", "reverse", "__setitem__", "__delitem__", "appendleft", "popleft"}

    def self_attr(e: ast.AST, aliases: dict[str, str]) -> str | None:
        """`self.<attr>…` (at least one attribute below `self`) or a local alias of one -> the attribute name"""
        chain = e
        while isinstance(chain, (ast.Attribute, ast.Subscript)):
            inner = chain.value
            if isinstance(inner, ast.Name):
                if inner.id == "self" and isinstance(chain, ast.Attribute):
                    return chain.attr
                if inner.id in aliases and chain is not e or (inner.id in aliases and isinstance(e, (ast.Subscript, ast.Attribute))):
                    return aliases[inner.id]
            chain = inner
        return None

    out: set[str] = set()
    for name in sorted(reach):
        m = methods[name]
        aliases: dict[str, str] = {}
        for st in ast.walk(m):
            if isinstance(st, ast.Assign) and len(st.targets) == 1 and isinstance(st.targets[0], ast.Name) \
                    and isinstance(st.value, ast.Attribute) and isinstance(st.value.value, ast.Name) and st.value.value.id == "self":
                aliases[st.targets[0].id] = st.value.attr
        for st in ast.walk(m):
            targets: list[ast.AST] = []
            if isinstance(st, ast.Assign):
                targets = list(st.targets)
            elif isinstance(st, (ast.AugAssign, ast.AnnAssign)):
                targets = [st.target] if not (isinstance(st, ast.AnnAssign) and st.value is None) else []
            elif isinstance(st, ast.Delete):
                targets = list(st.targets)
            elif isinstance(st, (ast.For, ast.AsyncFor)):
                targets = [st.target]
            flat: list[ast.AST] = []
            while targets:
                t = targets.pop()
                if isinstance(t, (ast.Tuple, ast.List)):
                    targets.extend(t.elts)
                elif isinstance(t, ast.Starred):
                    targets.append(t.value)
                else:
                    flat.append(t)
            for t in flat:
                if isinstance(t, (ast.Attribute, ast.Subscript)):
                    a = self_attr(t, aliases)
                    if a is not None:
                        out.add(f"{name}: self.{a} is assigned / stored into")
            if isinstance(st, ast.Call) and isinstance(st.func, ast.Attribute) and st.func.attr in mutators:
                recv = st.func.value
                a = None
                if isinstance(recv, ast.Name) and recv.id in aliases:
                    a = aliases[recv.id]
                elif isinstance(recv, (ast.Attribute, ast.Subscript)):
                    a = self_attr(ast.Attribute(value=recv, attr=st.func.attr, ctx=ast.Load()), aliases)
                if a is not None:
                    out.add(f"{name}: self.{a}.{st.func.attr}(...)")
            if isinstance(st, (ast.Global, ast.Nonlocal)):
                out.add(f"{name}: {'global' if isinstance(st, ast.Global) else 'nonlocal'} {', '.join(st.names)}")
    return sorted(out)


# --------------------------------------------------------------------------- instance state
def _instance_state(tree: ast.AST, cls_name: str) -> tuple[list[str], list[str]]:
    """(attributes `__init__` assigns from its parameters, everything that could carry state from one call on an
    instance to the next).  The second list is empty iff: the class has no base class and no class-level mutable
    attribute; `__init__` only validates its parameters (`if …: raise`) and assigns `self.<attr> = <pure expression
    of the parameters>`; no other method (or function nested in one) assigns to / deletes / calls a method of
    `self.<attr>`, uses `global` / `nonlocal`, writes through a name that is not its own local or parameter, has a
    mutable default argument or a caching decorator.  Then the result of a method call is a function of the
    constructor constants and the arguments of THAT call only."""
    cls = next((n for n in ast.walk(tree) if isinstance(n, ast.ClassDef) and n.name == cls_name), None)
    if cls is None:
        raise Bad(f"class {cls_name} not found")
    attrs: list[str] = []
    state: list[str] = []

    def note(where: str, what: str) -> None:
        e = f"{where}: {what}".replace('"', "'").replace("\\", "/")[:90]
        if e not in state:
            state.append(e)

    def immutable(e: ast.AST) -> bool:
        return isinstance(e, ast.Constant) or (isinstance(e, ast.Tuple) and all(immutable(x) for x in e.elts)) \
            or (isinstance(e, ast.UnaryOp) and immutable(e.operand))

    if cls.bases or cls.keywords:
        note("class", "has base classes " + ", ".join(ast.unparse(b) for b in cls.bases))
    methods = [m for m in cls.body if isinstance(m, (ast.FunctionDef, ast.AsyncFunctionDef))]
    for st in _no_doc(cls.body):
        if isinstance(st, (ast.FunctionDef, ast.AsyncFunctionDef)) or (isinstance(st, ast.AnnAssign) and st.value is None):
            continue
        if isinstance(st, (ast.Assign, ast.AnnAssign)) and st.value is not None and immutable(st.value):
            continue
        note("class", "class-level statement " + ast.unparse(st).splitlines()[0])
    init = next((m for m in methods if m.name == "__init__"), None)
    if init is not None:
        params = {a.arg for a in init.args.args[1:] + init.args.kwonlyargs}
        slf = init.args.args[0].arg if init.args.args else "self"
        for st in _no_doc(init.body):
            if isinstance(st, ast.Expr) and ast.unparse(st.value) == "super().__init__()":
                continue
            if isinstance(st, ast.If) and not st.orelse and all(isinstance(x, ast.Raise) for x in st.body) \
                    and _loaded_names(st.test) <= params:
                continue
            tgt = st.targets[0] if isinstance(st, ast.Assign) and len(st.targets) == 1 else getattr(st, "target", None)
            val = getattr(st, "value", None)
            if isinstance(st, (ast.Assign, ast.AnnAssign)) and isinstance(tgt, ast.Attribute) and isinstance(tgt.value, ast.Name) \
                    and tgt.value.id == slf and val is not None and _is_pure(val) and _loaded_names(val) <= params \
                    and not any(isinstance(x, (ast.Attribute, ast.Subscript, ast.GeneratorExp, ast.ListComp)) for x in ast.walk(val)) \
                    and tgt.attr not in attrs:
                attrs.append(tgt.attr)
                continue
            note("__init__", ast.unparse(st).splitlines()[0])
    names_of_methods = {m.name for m in methods}
    for m in methods:
        if m.name == "__init__":
            continue
        slf = m.args.args[0].arg if m.args.args and not any(ast.unparse(d) == "staticmethod" for d in m.decorator_list) else None
        for d in m.decorator_list:
            if ast.unparse(d) not in ("staticmethod", "property", "classmethod"):
                note(m.name, "decorator " + ast.unparse(d))
        for f in [m] + [x for x in ast.walk(m) if isinstance(x, (ast.FunctionDef, ast.AsyncFunctionDef, ast.Lambda)) and x is not m]:
            for dflt in f.args.defaults + [k for k in f.args.kw_defaults if k is not None]:
                if not immutable(dflt):
                    note(m.name, "mutable default argument " + ast.unparse(dflt))
        local = {a.arg for f in [m] + [x for x in ast.walk(m) if isinstance(x, (ast.FunctionDef, ast.AsyncFunctionDef, ast.Lambda))]
                 for a in f.args.args + f.args.kwonlyargs + f.args.posonlyargs
                 + ([f.args.vararg] if f.args.vararg else []) + ([f.args.kwarg] if f.args.kwarg else [])}
        local |= {n.id for n in ast.walk(m) if isinstance(n, ast.Name) and isinstance(n.ctx, (ast.Store, ast.Del))}
        local |= {x.name for x in ast.walk(m) if isinstance(x, (ast.FunctionDef, ast.AsyncFunctionDef)) and x is not m}
        for n in ast.walk(m):
            if isinstance(n, (ast.Global, ast.Nonlocal)):
                note(m.name, ast.unparse(n))
            tgts: list[ast.AST] = []
            if isinstance(n, ast.Assign):
                tgts = list(n.targets)
            elif isinstance(n, (ast.AugAssign, ast.AnnAssign, ast.For, ast.AsyncFor, ast.NamedExpr)):
                tgts = [n.target]
            elif isinstance(n, ast.Delete):
                tgts = list(n.targets)
            elif isinstance(n, (ast.With, ast.AsyncWith)):
                tgts = [i.optional_vars for i in n.items if i.optional_vars is not None]
            elif isinstance(n, ast.comprehension):
                tgts = [n.target]
            flat: list[ast.AST] = []
            while tgts:
                t = tgts.pop()
                if isinstance(t, (ast.Tuple, ast.List)):
                    tgts.extend(t.elts)
                elif isinstance(t, ast.Starred):
                    tgts.append(t.value)
                else:
                    flat.append(t)
            for t in flat:
                if isinstance(t, (ast.Attribute, ast.Subscript)):
                    b = _base_name(t)  # type: ignore[arg-type]
                    if b is None or (slf is not None and b == slf):
                        note(m.name, "writes " + ast.unparse(t))
                    elif b not in local:
                        note(m.name, "writes through the non-local name " + ast.unparse(t))
            if isinstance(n, ast.Call):
                f = n.func
                src = ast.unparse(f)
                if src in ("setattr", "delattr", "vars", "globals", "object.__setattr__") or ".__dict__" in ast.unparse(n):
                    note(m.name, "calls " + ast.unparse(n)[:50])
                if isinstance(f, ast.Attribute):
                    b = _base_name(f.value)
                    if slf is not None and b == slf and not (isinstance(f.value, ast.Name) and f.attr in names_of_methods):
                        note(m.name, "calls a method of an attribute: " + src)  # self.<attr>.<m>(…) / self.<unknown>(…)
                    elif b is not None and b not in local and b not in (slf, "math") and isinstance(f.value, ast.Name) \
                            and f.attr in ("append", "extend", "insert", "pop", "remove", "clear", "update", "setdefault",
                                           "add", "discard", "sort", "reverse", "popitem", "__setitem__"):
                        note(m.name, "mutates the non-local name " + src)
    return attrs, state


# --------------------------------------------------------------------------- generate
HEADER = """import Frequenz.Model.Prelude

namespace Extracted.Dist

/-- `abs` on rationals (core has no `|x|` notation). -/
def absR (x : Rat) : Rat := if x < 0 then -x else x

/-- `max` without tie-breaking concerns (only used inside tolerance tests). -/
def rmax (x y : Rat) : Rat := if x < y then y else x

/-- `math.isclose(a, b, rel_tol=r, abs_tol=t)` of CPython: `|a-b| <= max(r*max(|a|,|b|), t)`. -/
def mathIsClose (a b r t : Rat) : Prop := absR (a - b) ≤ rmax (r * rmax (absR a) (absR b)) t
instance {a b r t : Rat} : Decidable (mathIsClose a b r t) := by unfold mathIsClose; exact inferInstance

/-- CPython's default `rel_tol` of `math.isclose` (1e-09; a language constant, not in the repo). -/
def relTol : Rat := (1 : Rat) / 1000000000
"""


def generate(repo: pathlib.Path) -> str:
    algo = ast.parse((repo / ALGO).read_text())
    mth = ast.parse((repo / MATH).read_text())
    mgr = ast.parse((repo / MGR).read_text())
    out: list[str] = [HEADER]

    # ---- _math.is_close_to_zero
    f = _func(mth, "is_close_to_zero")
    if len(f.args.args) != 2 or len(f.args.defaults) != 1 or not isinstance(f.args.defaults[0], ast.Constant):
        raise Bad("is_close_to_zero signature changed")
    p_val, p_tol = (a.arg for a in f.args.args)
    tol = Fraction(repr(f.args.defaults[0].value))
    consts: dict[str, ast.expr] = {}
    ret = None
    for s in _norm_block(f.body):
        if isinstance(s, ast.Assign) and isinstance(s.targets[0], ast.Name):
            consts[s.targets[0].id] = s.value
        elif isinstance(s, ast.Return):
            ret = s.value
        else:
            raise Bad("is_close_to_zero body changed")
    if not (isinstance(ret, ast.Call) and ast.unparse(ret.func) == "math.isclose"):
        raise Bad("is_close_to_zero no longer returns math.isclose(...)")
    ret = _Subst(consts).visit(copy.deepcopy(ret))
    args = {k.arg: ast.unparse(k.value) for k in ret.keywords}
    for i, a in enumerate(ret.args):
        args[["a", "b"][i]] = ast.unparse(a)
    if args != {"a": p_val, "b": "0.0", "abs_tol": p_tol}:
        raise Bad(f"is_close_to_zero: unexpected math.isclose arguments {args}")
    out.append(f"/-- default `abs_tol` of `_math.is_close_to_zero` -/\n"
               f"def closeTol : Rat := ({tol.numerator} : Rat) / {tol.denominator}\n")
    out.append("/-- `_math.is_close_to_zero(value)` = `math.isclose(a=value, b=0.0, abs_tol=closeTol)` -/\n"
               "def isCloseToZero (value : Rat) : Prop := mathIsClose value 0 relTol closeTol\n"
               "instance {v : Rat} : Decidable (isCloseToZero v) := by unfold isCloseToZero; exact inferInstance\n")
    out.append("/-- `math.isclose(a, b)` with the default tolerances (`abs_tol = 0`) -/\n"
               "def isClose (a b : Rat) : Prop := mathIsClose a b relTol 0\n"
               "instance {a b : Rat} : Decidable (isClose a b) := by unfold isClose; exact inferInstance\n")

    queue: list[tuple] = []  # definitions are rendered at the end, when every role expression is known
    flows: list[_Flow] = []

    def add(name: str, node: ast.expr, arity: int, kind: str = "val", order: dict | None = None) -> None:
        queue.append(("def", name, node, arity, kind, order))

    def raw(text: str) -> None:
        queue.append(("raw", text))

    def norm(tree: ast.AST, fname: str) -> ast.FunctionDef:
        fn = _norm_func(tree, fname)
        flows.append(_Flow(fn))
        return fn

    def is_max0_sub(n: ast.AST) -> bool:
        return (_is_call(n, "max", 2) and isinstance(n.args[0], ast.Constant)  # type: ignore[attr-defined]
                and isinstance(n.args[1], ast.BinOp) and isinstance(n.args[1].op, ast.Sub))  # type: ignore[attr-defined]

    # ---- available SoC: the `max(<const>, x - y)` of each side
    fc = norm(algo, "_distribute_consume_power")
    add("availConsume", _one([n for n in ast.walk(fc) if is_max0_sub(n)], "consume: max(0.0, a - b)"), 2)
    fs = norm(algo, "_distribute_supply_power")
    add("availSupply", _one([n for n in ast.walk(fs) if is_max0_sub(n)], "supply: max(0.0, a - b)"), 2)
    # sign handling of the supply side: the power handed to `_distribute_power`, `*=` on set-points and remainder
    call = _one([n for n in ast.walk(fs) if _is_call(n, "self._distribute_power", 5)], "supply: self._distribute_power(...)")
    add("supplyPowerIn", call.args[1], 1)
    augs = [s for s, _ in _stmts_in(fs.body) if isinstance(s, ast.AugAssign) and isinstance(s.op, ast.Mult)]
    add("supplySetpointOut", _aug_as_binop(_one([s for s in augs if isinstance(s.target, ast.Subscript)],
                                                "supply: `<set-point>[...] *= …`")), 1)
    add("supplyRemainingOut", _aug_as_binop(_one([s for s in augs if isinstance(s.target, ast.Attribute)],
                                                 "supply: `<result>.remaining_power *= …`")), 1)
    fcall = _one([n for n in ast.walk(fc) if _is_call(n, "self._distribute_power", 5)], "consume: self._distribute_power(...)")
    if not (isinstance(fcall.args[1], ast.Name) and fcall.args[1].id == fc.args.args[1].arg):
        raise Bad("_distribute_consume_power no longer passes its power through unchanged")

    # ---- _inclusion_exclusion_bounds: roles from the returned tuple, the inner loop variable and the `supply` flag
    fb = norm(algo, "_inclusion_exclusion_bounds")
    if len(fb.args.args) != 3:
        raise Bad("_inclusion_exclusion_bounds signature changed")
    flag = fb.args.args[2].arg
    rets = [s for s, _ in _stmts_in(fb.body) if isinstance(s, ast.Return)]
    rv = _one(rets, "_inclusion_exclusion_bounds: return").value
    if not (isinstance(rv, ast.Tuple) and len(rv.elts) == 2 and all(isinstance(e, ast.Name) for e in rv.elts)):
        raise Bad("_inclusion_exclusion_bounds no longer returns (incl, excl)")
    dict_role = {rv.elts[0].id: "Incl", rv.elts[1].id: "Excl"}  # type: ignore[attr-defined]
    fors = [s for s, _ in _stmts_in(fb.body) if isinstance(s, ast.For)]
    inner = [l for l in fors if any(l in ast.walk(o) and l is not o for o in fors)]
    # the inner loop(s) over the inverters of a pair: one, or one per side when the side test was hoisted out of it
    if not inner or not all(isinstance(l.target, ast.Name) for l in inner) or len({ast.unparse(l.iter) for l in inner}) != 1 \
            or len(inner) > 2:
        raise Bad(f"_inclusion_exclusion_bounds: inner loop: expected one loop over the inverters (or one per side), found {len(inner)}")
    inv_vars = {l.target.id for l in inner}  # type: ignore[attr-defined]
    found: dict[str, ast.expr] = {}
    for s, path in _stmts_in(fb.body):
        if not (isinstance(s, ast.Assign) and isinstance(s.targets[0], ast.Subscript)):
            continue
        t = s.targets[0]
        d = _base_name(t)
        if d not in dict_role:
            continue
        side = None
        for test, pol in path:
            if ast.unparse(nnf(test)) == flag:
                side = "Supply" if pol else "Consume"
            elif ast.unparse(nnf(test, True)) == flag:
                side = "Consume" if pol else "Supply"
            else:
                raise Bad(f"_inclusion_exclusion_bounds: unexpected condition {ast.unparse(test)}")
        if side is None:
            raise Bad("_inclusion_exclusion_bounds: assignment outside the supply/consume branches")
        in_inner = [l for l in inner if any(x is s for x in ast.walk(l))]
        who = "inv" if in_inner and _base_name(t.slice) == in_inner[0].target.id else "bat"  # type: ignore[attr-defined]
        key = who + dict_role[d] + side
        if key in found:
            raise Bad(f"_inclusion_exclusion_bounds: {key} assigned twice")
        found[key] = s.value
    for side in ("Consume", "Supply"):
        for who, role, ar in (("bat", "Excl", 1), ("bat", "Incl", 1), ("inv", "Excl", 1), ("inv", "Incl", 2)):
            k = who + role + side
            if k not in found:
                raise Bad(f"_inclusion_exclusion_bounds: {k} not found")
            add(k, found[k], ar)

    # ---- _compute_battery_availability_ratio
    fr = norm(algo, "_compute_battery_availability_ratio")
    stm = _stmts_in(fr.body)

    def local_def(name: str, scope_stmts) -> ast.expr:
        return _one([s for s, _ in scope_stmts if isinstance(s, ast.Assign) and _tsrc(s) == name], f"definition of {name}").value

    def resolve(e: ast.expr) -> ast.expr:
        """A local that names a value -> the expression it was assigned (when assigned exactly once)."""
        if isinstance(e, ast.Name):
            ds = [s for s, _ in stm if isinstance(s, ast.Assign) and _tsrc(s) == e.id]
            if len(ds) == 1:
                return ds[0].value
        return e

    ar_call = _one([n for n in ast.walk(fr) if _is_call(n, "AvailabilityRatio")], "AvailabilityRatio(...)")
    ar_cls = next((n for n in ast.walk(algo) if isinstance(n, ast.ClassDef) and n.name == "AvailabilityRatio"), None)
    ar_fields = [x.target.id for x in (ar_cls.body if ar_cls else []) if isinstance(x, ast.AnnAssign) and isinstance(x.target, ast.Name)]
    if ar_fields != ["battery_id", "inverter_ids", "ratio", "min_power"]:
        raise Bad(f"AvailabilityRatio fields changed: {ar_fields}")
    ar_args: dict[str, ast.expr] = dict(zip(ar_fields, ar_call.args))
    for k in ar_call.keywords:
        if k.arg is None or k.arg in ar_args or k.arg not in ar_fields:
            raise Bad("AvailabilityRatio(...): arguments")
        ar_args[k.arg] = k.value
    if set(ar_args) != set(ar_fields):
        raise Bad("AvailabilityRatio(battery_id, inverter_ids, ratio, min_power=…) changed")
    ratio_e = resolve(ar_args["ratio"])
    if not (isinstance(ratio_e, ast.BinOp) and isinstance(ratio_e.op, ast.Mult)):
        raise Bad("ratio is no longer <capacity ratio> * <soc factor>")
    factors = [resolve(ratio_e.left), resolve(ratio_e.right)]
    cap_v = [v for v in factors if isinstance(v, ast.BinOp) and isinstance(v.op, ast.Div)]
    soc_v = [v for v in factors if _is_call(v, "pow", 2)]
    if len(cap_v) != 1 or len(soc_v) != 1:
        raise Bad("ratio: operands are no longer a quotient and a pow(...)")
    add("capRatio", cap_v[0], 2)
    if ast.unparse(resolve(soc_v[0].args[1])) != "self._distributor_exponent":  # type: ignore[attr-defined]
        raise Bad("soc_factor is no longer pow(<available soc>, self._distributor_exponent)")
    raw("/-- `soc_factor = pow(available_soc[...], self._distributor_exponent)` (natural exponents; "
        "`pow(0.0, 0) = 1`) -/\ndef socFactor (a : Rat) (e : Nat) : Rat := a ^ e\n")
    # parameters of ratioOf in the order (capacity ratio, soc factor), whatever the order of the two factors
    # (a product of two floats does not depend on the order of the factors)
    add("ratioOf", ast.BinOp(left=ast.Name(id="capacity_ratio", ctx=ast.Load()), op=ast.Mult(),
                             right=ast.Name(id="soc_factor", ctx=ast.Load())), 2)
    add("minPower", ar_args["min_power"], 2)
    # `<list>.sort(key=…, reverse=…)` or `<list> = sorted(<list>, key=…, reverse=…)` (both stable)
    sorts = [n for n in ast.walk(fr) if isinstance(n, ast.Call)
             and ((isinstance(n.func, ast.Attribute) and n.func.attr == "sort" and not n.args)
                  or (ast.unparse(n.func) == "sorted" and len(n.args) == 1))
             and any(k.arg == "key" and isinstance(k.value, ast.Lambda) and isinstance(k.value.body, ast.Tuple)
                     and all(isinstance(e, ast.Attribute) for e in k.value.body.elts) for k in n.keywords)]
    sort = _one(sorts, "sort of the availability ratios")
    if ast.unparse(sort.func) == "sorted":
        st = [s for s, _ in stm if isinstance(s, ast.Assign) and s.value is sort]
        if not (len(st) == 1 and _tsrc(st[0]) == ast.unparse(sort.args[0])):
            raise Bad("sorted(<ratios>, …) is not assigned back to the list it sorts")
    if {k.arg for k in sort.keywords} - {"key", "reverse"}:
        raise Bad("sort: unexpected arguments")
    key = _kwarg(sort, "key")
    rev = _kwarg(sort, "reverse") if any(k.arg == "reverse" for k in sort.keywords) else ast.Constant(value=False)
    if not (isinstance(rev, ast.Constant) and isinstance(rev.value, bool)):
        raise Bad("sort: reverse is not a literal")
    arg = key.args.args[0].arg  # type: ignore[attr-defined]
    fields = []
    for e in key.body.elts:  # type: ignore[attr-defined]
        if not (isinstance(e.value, ast.Name) and e.value.id == arg and e.attr in ("min_power", "ratio")):
            raise Bad(f"sort: unsupported key component {ast.unparse(e)}")
        fields.append({"min_power": "m", "ratio": "r"}[e.attr])
    lex = "False"
    for fld in reversed(fields):
        lex = f"{fld}1 < {fld}2 ∨ ({fld}1 = {fld}2 ∧ ({lex}))"
    raw(f"/-- `<ratios>.sort(key=(" + ", ".join("min_power" if x == "m" else "ratio" for x in fields) +
        f"), reverse={rev.value})`: strict order of the keys -/\n"
        f"def sortKeyLt (m1 r1 m2 r2 : Rat) : Prop :=\n  {lex}\n"
        "instance {m1 r1 m2 r2 : Rat} : Decidable (sortKeyLt m1 r1 m2 r2) := by unfold sortKeyLt; exact inferInstance\n"
        f"def sortReverse : Bool := {'true' if rev.value else 'false'}\n")

    # ---- _distribute_power
    fd = norm(algo, "_distribute_power")
    if len(fd.args.args) != 6:
        raise Bad("_distribute_power signature changed")
    p_power = fd.args.args[2].arg
    all_fors = [s for s, _ in _stmts_in(fd.body) if isinstance(s, ast.For)]

    def is_share(n: ast.AST) -> bool:
        return (isinstance(n, ast.BinOp) and isinstance(n.op, ast.Div) and isinstance(n.left, ast.BinOp)
                and isinstance(n.left.op, ast.Mult))

    loop = _one([l for l in all_fors if _contains(l, is_share)], "reservation loop")
    dloop = _one([l for l in all_fors if _contains(l, lambda n: isinstance(n, ast.While))], "deficit loop")
    ls = _stmts_in(loop.body)
    share_s, share_path = _one([(s, p) for s, p in ls if isinstance(s, ast.Assign) and is_share(s.value)], "share assignment")
    share_e = share_s.value
    ptd_e = share_e.left.left  # type: ignore[attr-defined]
    if not ((isinstance(ptd_e, ast.Name) or (isinstance(ptd_e, ast.BinOp) and isinstance(ptd_e.op, ast.Sub)))
            and isinstance(share_e.right, ast.Name) and isinstance(share_s.targets[0], ast.Name)):  # type: ignore[attr-defined]
        raise Bad("share: expected <to distribute> * <entry ratio> / <running ratio>")
    v_ratio, v_share = share_e.right.id, share_s.targets[0].id  # type: ignore[attr-defined]
    # tail branch: the arm that does not compute the share stores _Power(0.0, 0.0)
    add("tailCond", _cond(share_path, "tail test", negate=True), 1, "prop")
    tail_calls = [c for s, p in ls if p and p[0][0] is share_path[0][0] and p[0][1] != share_path[0][1]
                  for c in ast.walk(s) if _is_call(c, "_Power")]
    tc = _one(tail_calls, "tail branch: _Power(...)")
    if {k.arg: ast.unparse(k.value) for k in tc.keywords} != {"upper_bound": "0.0", "power": "0.0"}:
        raise Bad("tail branch no longer stores _Power(upper_bound=0.0, power=0.0)")
    main = [(s, p[len(share_path):]) for s, p in ls if p[:len(share_path)] == share_path]  # statements of the main arm
    if isinstance(ptd_e, ast.Name):
        add("powerToDistribute", _one([s for s, p in main if isinstance(s, ast.Assign) and _tsrc(s) == ptd_e.id and not p],
                                      "power to distribute").value, 2)
        add("calcPower", share_e, 3)
    else:  # the amount to distribute is written directly into the share: cut the expression at the same place
        add("powerToDistribute", ptd_e, 2)
        queue.append(("role", share_e))  # the local holding the share still stands for the result of `calcPower`
        cut = copy.copy(share_e)
        cut.left = copy.copy(share_e.left)  # type: ignore[attr-defined]
        cut.left.left = ast.Name(id="power_to_distribute", ctx=ast.Load())  # type: ignore[attr-defined]
        add("calcPower", cut, 3)
    augs = [s for s, p in main if isinstance(s, ast.AugAssign) and isinstance(s.op, ast.Add) and not p]
    res_s = _one([s for s in augs if _is_call(s.value, "max", 2)], "reserved += max(...)")
    add("reserveInc", res_s.value, 2)
    next_s = _one([s for s, p in main if isinstance(s, ast.Assign) and _tsrc(s) == v_ratio and not p], "running ratio update")
    used_s = _one([s for s in augs if s is not res_s and isinstance(s.target, ast.Name)
                   and _contains(next_s.value, lambda n: isinstance(n, ast.Name) and n.id == s.target.id)], "used ratio +=")
    add("usedInc", used_s.value, 1)
    add("nextRatio", next_s.value, 2)
    incl_s = _one([s for s, p in main if isinstance(s, ast.Assign) and _is_call(s.value, "min", 2) and not p], "inclusion bound")
    add("inclBound", incl_s.value, 2)
    v_incl = _tsrc(incl_s)
    dist_s = _one([s for s in augs if s is not res_s and s is not used_s], "distributed += min power")
    add("distributedInc", dist_s.value, 1)
    v_dist = _tsrc(dist_s)
    # three-way branch: arms are single subscript assignments `<dict>[...] = x - y`
    d_deficits, v_deficit = _items_loop(dloop, "deficit loop")
    arms = [(s, p) for s, p in main if p and isinstance(s, ast.Assign) and isinstance(s.targets[0], ast.Subscript)
            and isinstance(s.value, ast.BinOp) and isinstance(s.value.op, ast.Sub) and not _contains(s, lambda n: _is_call(n, "_Power"))]
    if len(arms) != 3:
        raise Bad("three-way branch: expected three `<dict>[...] = a - b` arms")
    over = _one([(s, p) for s, p in arms if _contains(s.value, lambda n: isinstance(n, ast.Name) and n.id == v_incl)], "over-inclusion arm")
    defi = _one([(s, p) for s, p in arms if _base_name(s.targets[0]) == d_deficits], "deficit arm")
    inr = _one([(s, p) for s, p in arms if s is not over[0] and s is not defi[0]], "in-range arm")
    d_excess = _base_name(over[0].targets[0])
    if _base_name(inr[0].targets[0]) != d_excess or d_excess == d_deficits:
        raise Bad("three-way branch: excess dict roles")
    if len(over[1]) != 1 or len(defi[1]) != 2 or len(inr[1]) != 2 or defi[1][0][0] is not over[1][0][0]:
        raise Bad("three-way branch: the inclusion test must be decided first, then the minimum-power test")
    is_share_var = lambda src: src == v_share  # noqa: E731
    is_deficit_var = lambda src: src == v_deficit  # noqa: E731
    add("overIncl", _cond(over[1], "over test"), 2, "prop", {0: is_share_var})
    add("excessOver", over[0].value, 2)
    add("underMin", _cond(defi[1], "under test", last_only=True), 2, "prop", {0: is_share_var})
    add("deficitOf", defi[0].value, 2)
    add("excessIn", inr[0].value, 2)
    stored = _one([c for s, p in main if not p for c in ast.walk(s) if _is_call(c, "_Power")], "_Power(...) of the main arm")
    add("entryUpper", _kwarg(stored, "upper_bound"), 1)
    add("entryPower", _kwarg(stored, "power"), 1)

    # deficit covering
    ds = _stmts_in(dloop.body, into_loops=False)
    wh = _one([s for s, p in ds if isinstance(s, ast.While) and not p], "while loop")
    # `while A: if not <excess dict>: break; …`  is the same loop as  `while A and <excess dict>: …`
    wtest = nnf(wh.test)
    conj = list(wtest.values) if isinstance(wtest, ast.BoolOp) and isinstance(wtest.op, ast.And) else [wtest]
    in_test = [v for v in conj if isinstance(v, ast.Name) and v.id == d_excess]
    conj = [v for v in conj if v not in in_test]
    if not conj:
        raise Bad("while loop: no condition on the deficit")
    add("coverCond", conj[0] if len(conj) == 1 else ast.BoolOp(op=ast.And(), values=conj), 1, "prop")
    ws = _stmts_in(wh.body)
    breaks = [(s, p) for s, p in ws if isinstance(s, ast.Break)]
    empty_break = [(s, p) for s, p in breaks if ast.unparse(_cond(p, "break", last_only=True)) == f"not {d_excess}"]
    if len(empty_break) + len(in_test) != 1:
        raise Bad("the covering loop must stop when the excess dict is empty (`if not <excess dict>: break`), exactly once")
    stop = _one([(s, p) for s, p in breaks if (s, p) not in empty_break], "largest-stop break")
    add("largestStop", _cond(stop[1], "largest stop", last_only=True), 1, "prop")
    lg = [c for s, p in ws if isinstance(s, ast.Assign) for c in ast.walk(s.value) if _is_call(c, "max")]
    mx = _one(lg, "largest")
    mkey = [k.value for k in mx.keywords if k.arg == "key"]
    by_value = (len(mkey) == 1 and (
        (isinstance(mkey[0], ast.Lambda) and len(mkey[0].args.args) == 1
         and ast.unparse(mkey[0].body) == f"{mkey[0].args.args[0].arg}[1]")
        or ast.unparse(mkey[0]) in ("operator.itemgetter(1)", "itemgetter(1)")))
    if not (len(mx.args) == 1 and ast.unparse(mx.args[0]) == f"{d_excess}.items()" and len(mx.keywords) == 1 and by_value):
        raise Bad("largest is no longer max(<excess dict>.items(), key=<second component>)")
    cov_aug = _one([(s, p) for s, p in ws if isinstance(s, ast.AugAssign) and isinstance(s.op, ast.Add)
                    and isinstance(s.target, ast.Subscript) and _base_name(s.target) == d_excess], "cover: excess[...] += deficit")
    add("covers", _cond(cov_aug[1], "covers", last_only=True), 2, "prop", {1: is_deficit_var})
    cov_arm = [s for s, p in ws if p == cov_aug[1]]
    par_arm = [s for s, p in ws if p and p[:-1] == cov_aug[1][:-1] and p[-1][0] is cov_aug[1][-1][0] and p[-1][1] != cov_aug[1][-1][1]]
    add("coverExcess", _aug_as_binop(cov_aug[0]), 2)
    add("coverDeficitDone", _one([s for s in cov_arm if isinstance(s, ast.Assign) and _tsrc(s) == v_deficit], "cover: deficit = 0").value, 0)
    add("partialDeficit", _aug_as_binop(_one([s for s in par_arm if isinstance(s, ast.AugAssign) and isinstance(s.op, ast.Add)
                                              and _tsrc(s) == v_deficit], "partial: deficit += excess")), 2)
    add("partialExcess", _one([s for s in par_arm if isinstance(s, ast.Assign) and isinstance(s.targets[0], ast.Subscript)
                               and _base_name(s.targets[0]) == d_excess], "partial: excess[...] = 0").value, 0)
    # left-over accounting after the while
    lo_s = _one([(s, p) for s, p in ds if isinstance(s, ast.Assign) and isinstance(s.value, ast.BinOp) and isinstance(s.value.op, ast.Sub)
                 and isinstance(s.value.left, ast.Name) and s.value.left.id == p_power], "left_over of the deficit branch")
    add("adjustCond", _cond(lo_s[1], "adjust test"), 1, "prop")
    add("leftOver", lo_s[0].value, 2)
    adj = [(s, p[len(lo_s[1]):]) for s, p in ds if isinstance(s, ast.AugAssign) and isinstance(s.op, ast.Add) and _tsrc(s) == v_dist
           and p[:len(lo_s[1])] == lo_s[1]]
    full = _one([(s, p) for s, p in adj if len(p) == 1], "first left-over branch")
    part = _one([(s, p) for s, p in adj if len(p) == 2 and p[0][0] is full[1][0][0] and p[0][1] != full[1][0][1]],
                "second left-over branch")
    if len(adj) != 2:
        raise Bad("left-over accounting: expected two `distributed += …`")
    add("adjFullCond", _cond(full[1], "left-over test 1"), 2, "prop", {1: is_deficit_var})
    add("adjFullInc", full[0].value, 1)
    add("adjPartCond", _cond(part[1], "left-over test 2", last_only=True), 1, "prop")
    add("adjPartInc", part[0].value, 1)
    # adding the excesses
    xloop = _one([l for l in all_fors if l is not loop and l is not dloop
                  and _contains(l, lambda n: isinstance(n, ast.AugAssign) and isinstance(n.target, ast.Attribute))], "excess loop")
    xs = _stmts_in(xloop.body)
    add("excessDistributedInc", _one([s for s, p in xs if isinstance(s, ast.AugAssign) and isinstance(s.op, ast.Add)
                                      and _tsrc(s) == v_dist], "excess loop: distributed +=").value, 1)
    add("excessPowerInc", _one([s for s, p in xs if isinstance(s, ast.AugAssign) and isinstance(s.op, ast.Add)
                                and isinstance(s.target, ast.Attribute) and s.target.attr == "power"], "excess loop: .power +=").value, 1)
    top = [s for s, p in _stmts_in(fd.body, into_loops=False)]
    def is_final_left_over(v: ast.AST) -> bool:
        return (isinstance(v, ast.BinOp) and isinstance(v.op, ast.Sub) and isinstance(v.left, ast.Name)
                and v.left.id == p_power and isinstance(v.right, ast.Name) and v.right.id == v_dist)

    # what is left after the excess loop: assigned to a local, or handed directly to the greedy top-up
    flo = [s.value for s in top if isinstance(s, ast.Assign) and is_final_left_over(s.value)]
    flo += [a for s in top if isinstance(s, (ast.Assign, ast.Expr, ast.Return)) and s.value is not None
            for c in ast.walk(s.value) if _is_call(c, "self._greedy_distribute_remaining_power", 2)
            for a in c.args[1:] if is_final_left_over(a)]
    add("finalLeftOver", _one(flo, "final left_over"), 2)

    # ---- greedy
    fg = norm(algo, "_greedy_distribute_remaining_power")
    gs = _stmts_in(fg.body, into_loops=False)
    gl = _one([(s, p) for s, p in gs if isinstance(s, ast.For)], "greedy loop")
    add("greedyExit", _cond(gl[1], "greedy exit", negate=True), 1, "prop")
    gb = _stmts_in(gl[0].body)
    inc = _one([(s, p) for s, p in gb if isinstance(s, ast.AugAssign) and isinstance(s.op, ast.Add)
                and isinstance(s.target, ast.Attribute)], "greedy: .power +=")
    add("greedySkip", _cond(inc[1], "greedy skip", negate=True), 2, "prop", {1: lambda src: src.endswith(".power")})
    add("greedyAdd", _one([s for s, p in gb if isinstance(s, ast.Assign) and _is_call(s.value, "min", 2)], "greedy: min(...)").value, 3)
    add("greedyPowerInc", inc[0].value, 1)
    add("greedyRemDec", _one([s for s, p in gb if isinstance(s, ast.AugAssign) and isinstance(s.op, ast.Sub)
                              and isinstance(s.target, ast.Name)], "greedy: remaining -=").value, 1)

    # ---- multi-inverter split
    fm = norm(algo, "_distribute_multi_inverter_pairs")
    ofor = _one([s for s, p in _stmts_in(fm.body, into_loops=False) if isinstance(s, ast.For)], "split: outer loop")
    os_ = _stmts_in(ofor.body, into_loops=False)
    ifor = _one([(s, p) for s, p in os_ if isinstance(s, ast.For)], "split: inner loop")
    single = _one([(s, p) for s, p in os_ if isinstance(s, ast.Assign) and isinstance(s.targets[0], ast.Subscript)], "split: single-inverter arm")
    sc = ast.unparse(_cond(single[1], "split: single test"))
    if not (sc.startswith("len(") and sc.endswith(") == 1")) or ast.unparse(_cond(ifor[1], "split: multi test", negate=True)) != sc:
        raise Bad("split: `len(inverter_ids) == 1` changed")
    add("splitSingle", single[0].value, 1)
    dec = _one([(s, p) for s, p in _stmts_in(ifor[0].body) if isinstance(s, ast.AugAssign) and isinstance(s.op, ast.Sub)
                and isinstance(s.target, ast.Name)], "split: remaining -=")
    v_rem = _tsrc(dec[0])
    add("splitStart", _one([s for s, p in os_ if isinstance(s, ast.Assign) and _tsrc(s) == v_rem and p == ifor[1]], "split: start").value, 1)
    ib = _stmts_in(ifor[0].body)
    add("splitTake", _cond(dec[1], "split: take test"), 2, "prop")
    add("splitPower", _one([s for s, p in ib if isinstance(s, ast.Assign) and _is_call(s.value, "min", 2)], "split: min(...)").value, 2)
    sub_as = [(s, p) for s, p in ib if isinstance(s, ast.Assign) and isinstance(s.targets[0], ast.Subscript)]
    add("splitAssigned", _one([s for s, p in sub_as if p == dec[1]], "split: assigned power").value, 1)
    add("splitRemDec", dec[0].value, 1)
    skipped = [s.value for s, p in sub_as if p != dec[1]]
    if not skipped or len({ast.unparse(v) for v in skipped}) != 1:
        raise Bad(f"split: skipped inverter: expected one value for every inverter that is passed over, found {len(skipped)}")
    add("splitSkipped", skipped[0], 0)

    # ---- distribute_power (zero request, side selection)
    fz = norm(algo, "distribute_power")
    zs = _stmts_in(fz.body)
    def side_call(method: str, what: str):
        s, p = _one([(s, p) for s, p in zs if isinstance(s, (ast.Return, ast.Assign))
                     and _contains(s.value, lambda n: _is_call(n, method))], what)  # type: ignore[arg-type]
        call = s.value
        if not (_is_call(call, method, 2) and not call.keywords  # type: ignore[union-attr]
                and [ast.unparse(a) for a in call.args] == [a.arg for a in fz.args.args[1:3]]):  # type: ignore[union-attr]
            raise Bad(f"{what}: expected {method}(power, components) with the unchanged arguments")
        if isinstance(s, ast.Assign):  # `result = …; return result`
            t = _tsrc(s)
            sides = ("self._distribute_consume_power", "self._distribute_supply_power")
            if not any(isinstance(x, ast.Return) and x.value is not None and ast.unparse(x.value) == t for x, _ in zs) \
                    or any(t in _own_binds(x) and not (isinstance(x, ast.Assign) and any(_is_call(x.value, m) for m in sides))
                           for x, _ in zs):
                raise Bad(f"{what}: the result is not returned unchanged")
        return s, p

    cons = side_call("self._distribute_consume_power", "distribute_power: consume call")
    supp = side_call("self._distribute_supply_power", "distribute_power: supply call")
    if len(cons[1]) != 2 or len(supp[1]) != 2 or cons[1][0] != supp[1][0] or cons[1][1][0] is not supp[1][1][0]:
        raise Bad("distribute_power: expected zero test, then side test")
    add("zeroRequest", _cond(cons[1][:1], "zero request", negate=True), 1, "prop")
    add("consumeRequest", _cond(cons[1], "consume request", last_only=True), 1, "prop")

    # ---- battery manager: reporting and admission
    fm2 = norm(mgr, "_distribute_power")
    dv = _one([s for s, p in _stmts_in(fm2.body) if isinstance(s, ast.Assign) and isinstance(s.value, ast.BinOp)
               and isinstance(s.value.op, ast.Sub) and "as_watts()" in ast.unparse(s.value.left)], "manager: distributed value")
    fm2_flow = flows[-1]

    def is_remaining(src: str) -> bool:
        """the `remaining_power` attribute of the algorithm's result, or a local whose only definition is that attribute"""
        if src.endswith(".remaining_power"):
            return True
        if src.isidentifier():
            ds = fm2_flow.defs(src)
            return (len(ds) == 1 and isinstance(ds[0], ast.Assign) and isinstance(ds[0].value, ast.Attribute)
                    and ds[0].value.attr == "remaining_power")
        return False

    add("mgrDistributed", dv.value, 2, order={1: is_remaining})
    pf = _one([n for n in ast.walk(fm2) if _is_call(n, "PartialFailure")], "PartialFailure(...)")
    su = _one([n for n in ast.walk(fm2) if _is_call(n, "Success")], "Success(...)")
    add("mgrSuccessSucceeded", _strip_from_watts(_kwarg(su, "succeeded_power")), 1)
    add("mgrSuccessExcess", _strip_from_watts(_kwarg(su, "excess_power")), 1, order={0: is_remaining})
    add("mgrPartialSucceeded", _strip_from_watts(_kwarg(pf, "succeeded_power")), 2)
    add("mgrPartialFailed", _strip_from_watts(_kwarg(pf, "failed_power")), 1)
    add("mgrPartialExcess", _strip_from_watts(_kwarg(pf, "excess_power")), 1, order={0: is_remaining})
    gb2 = _func(mgr, "_get_bounds")
    pb = _one([n for n in ast.walk(gb2) if _is_call(n, "PowerBounds")], "_get_bounds: PowerBounds(...)")
    add("advExclLower", _kwarg(pb, "exclusion_lower"), 2)
    add("advExclUpper", _kwarg(pb, "exclusion_upper"), 2)
    cr = norm(mgr, "_check_request")

    def is_flag(e: ast.expr) -> bool:
        return isinstance(e, ast.Attribute) and e.attr == "adjust_power"

    rej = []
    for v, p in _return_paths(cr.body):
        if v is not None and _contains(v, lambda n: _is_call(n, "OutOfBounds")):
            if not _is_call(v, "OutOfBounds"):
                raise Bad("_check_request: OutOfBounds(...) is not returned as it is")
            pols = [pol for t, pol in p if is_flag(nnf(t))] + [not pol for t, pol in p if is_flag(nnf(t, True))]
            if pols == [True]:
                rej.append((v, p))
    rj = _one(rej, "_check_request: rejection with adjust_power")
    if is_flag(nnf(rj[1][-1][0])) or is_flag(nnf(rj[1][-1][0], True)):
        raise Bad("_check_request: the exclusion test must be decided after the adjust_power flag")
    add("rejectedAdjust", _cond(rj[1], "rejection test", last_only=True), 3, "prop")

    # ---- the bounds the battery pool ADVERTISES (PowerBoundsCalculator.calculate): per battery set
    pool = ast.parse((repo / POOL).read_text())
    pc = None
    for n in ast.walk(pool):
        if isinstance(n, ast.ClassDef) and n.name == "PowerBoundsCalculator":
            pc = _func(n, "calculate")
    if pc is None:
        raise Bad("PowerBoundsCalculator.calculate not found")
    pstm = _stmts_in(_norm_block(pc.body))
    sums = [s for s, p in pstm if isinstance(s, ast.AugAssign) and isinstance(s.op, ast.Add) and isinstance(s.target, ast.Name)
            and isinstance(s.value, ast.Call) and ast.unparse(s.value.func) in ("max", "min") and len(s.value.args) == 2]
    res = _one([n for n in ast.walk(pc) if _is_call(n, "SystemBounds") and any(k.arg == "exclusion_bounds" and not
                (isinstance(k.value, ast.Constant) and k.value.value is None) for k in n.keywords)], "SystemBounds(...) result")
    role_of: dict[str, str] = {}
    for kw, nm in (("exclusion_bounds", "Excl"), ("inclusion_bounds", "Incl")):
        b = _kwarg(res, kw)
        if not (isinstance(b, ast.Call) and len(b.args) == 2):
            raise Bad("SystemBounds: bounds are no longer Bounds(lower, upper)")
        for a, lu in zip(b.args, ("Lower", "Upper")):
            role_of[ast.unparse(_strip_from_watts(a))] = nm + lu
    for v, role in role_of.items():
        hit = _one([s for s in sums if _tsrc(s) == v], f"PowerBoundsCalculator.calculate: `{role} += …`")
        init = _one([s for s, p in pstm if isinstance(s, ast.Assign) and _tsrc(s) == v], f"initial value of {role}")
        if ast.unparse(init.value) != "0.0":
            raise Bad("PowerBoundsCalculator.calculate: the running bounds no longer start at 0.0")
        add("poolGroup" + role, hit.value, 2)
    if not any(_is_call(n, "_aggregate_battery_power_bounds", 1) for n in ast.walk(pc)):
        raise Bad("PowerBoundsCalculator.calculate: battery bounds are no longer aggregated by _aggregate_battery_power_bounds")

    # ---- what an algorithm object remembers between two calls
    attrs, state = _instance_state(algo, "BatteryDistributionAlgorithm")
    if attrs != ["_distributor_exponent"]:
        state.append("__init__: instance attributes are " + ", ".join(attrs))

    def lean_list(xs: list[str]) -> str:
        return "[" + ", ".join('"' + x + '"' for x in xs) + "]"

    raw("/-- `BatteryDistributionAlgorithm.__init__`: the attributes of an instance; each is assigned once, from a pure\n"
        "expression of the constructor's parameters -/\n"
        f"def instanceAttrs : List String := {lean_list(attrs)}\n")
    raw("/-- Everything in `BatteryDistributionAlgorithm` that could carry state from one call on an instance to the next:\n"
        "attributes not determined by the constructor's parameters, class-level mutable attributes, base classes, methods\n"
        "that write to / call a method of `self.<attr>`, `global` / `nonlocal`, writes through non-local names, mutable\n"
        "default arguments, decorators.  Empty = a call's result depends on the constructor constants and on the\n"
        "arguments of that call only (used by `C02_history_free`). -/\n"
        f"def perCallState : List String := {lean_list(state)}\n")

    raw("/-- What `BatteryManager.distribute_power` and the methods it reaches write into the manager itself (assignments to /\n"
        "stores into / mutating container calls on `self.<attr>`, also through a local alias).  Empty = the manager keeps no\n"
        "state of its own from one request to the next: every request reads the component data from the latest-value caches\n"
        "(fed by the data streams, not by requests) and the health from the status tracker (used by `C02_manager_request_free`). -/\n"
        f"def managerRequestWrites : List String := {lean_list(_request_writes(mgr, 'BatteryManager', 'distribute_power'))}\n")

    roles = {id(q[2]) for q in queue if q[0] == "def"} | {id(q[1]) for q in queue if q[0] == "role"}
    for q in queue:
        if q[0] == "role":
            continue
        if q[0] == "raw":
            out.append(q[1])
            continue
        _, name, node, arity, kind, order = q
        node = _expand(node, flows, roles)
        if kind == "prop":
            node = nnf(node)
        out.append(lean_def(name, node, arity, kind, ast.unparse(node), order))
    out.append("end Extracted.Dist\n")
    return "\n".join(out)
