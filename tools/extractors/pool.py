"""Battery-pool aggregates (C17, C18): Python source -> `lean/Frequenz/Extracted/Pool.lean`.

What is translated, from which site (all located structurally, by AST shape — never by line number):

  _internal/_math.py                 is_close_to_zero                       -> isCloseToZero (+ default abs_tol)
  _power_distributing/result.py      dataclass PowerBounds (fields)         -> structure PowerBounds
  _battery_distribution_algorithm.py _aggregate_battery_power_bounds        -> aggregateBatteryPowerBounds
                                     AggregatedBatteryData.__init__         -> batteryPowerBounds (BatteryData -> PowerBounds)
  _battery_manager.py                BatteryManager._get_bounds             -> getBounds
                                     BatteryManager._check_request (tail)   -> checkRequest   (true = OutOfBounds)
                                     _get_battery_inverter_data             -> crucialMetricsBat / crucialMetricsInv
  _metric_calculator.py              PowerBoundsCalculator                  -> batteryMetricIds, inverterMetricIds,
                                                                               validatedBounds, calcStep, calcResult
                                     SoCCalculator.calculate                -> socStep, socFinal, socRequired
                                     CapacityCalculator.calculate           -> capStep, capFinal, capRequired
  microgrid_api_source.py            _BatteryDataMethods/_InverterDataMethods -> batteryDataMethods / inverterDataMethods
  timeseries/_base_types.py          Bounds.__contains__ (both ends present), SystemBounds.__contains__
                                                                            -> boundsContains, systemBoundsContains

The translator below handles the loop-free arithmetic subset these sites use (generator expressions inside
`sum`/`max`/`min`, `len`, `math.isclose`, `is_close_to_zero`, chained comparisons, `+=`, if/else with
early `return`/`continue`).  Loops, Optional filtering and dict plumbing are NOT translated: they are the
hand-written glue of `Frequenz/Model/PoolBounds.lean` / `PoolSoc.lean`, tied to the code by the
differential check.  Anything outside the subset raises `Unsupported` — the check then treats the proofs
as broken and searches for a failing input.
"""
from __future__ import annotations

import ast
import pathlib
from fractions import Fraction

NAME = "Pool"
P_MATH = "src/frequenz/sdk/_internal/_math.py"
P_RESULT = "src/frequenz/sdk/microgrid/_power_distributing/result.py"
P_ALGO = "src/frequenz/sdk/microgrid/_power_distributing/_distribution_algorithm/_battery_distribution_algorithm.py"
P_MGR = "src/frequenz/sdk/microgrid/_power_distributing/_component_managers/_battery_manager.py"
P_CALC = "src/frequenz/sdk/timeseries/battery_pool/_metric_calculator.py"
P_SRC = "src/frequenz/sdk/microgrid/_data_sourcing/microgrid_api_source.py"
P_BASE = "src/frequenz/sdk/timeseries/_base_types.py"
SOURCES = [P_MATH, P_RESULT, P_ALGO, P_MGR, P_CALC, P_SRC, P_BASE]


class Unsupported(Exception):
    pass


# --------------------------------------------------------------------------------------- static preamble
PREAMBLE = r"""import Frequenz.Model.Prelude

set_option linter.unusedVariables false

/-! Python built-ins used by the translated code (stdlib semantics: trusted, not extracted). -/
namespace Extracted.Pool

/-- `abs(x)` -/
def pyAbs (x : Rat) : Rat := if x < 0 then -x else x

/-- `sum(xs)`: left fold starting at 0. -/
def pySum (xs : List Rat) : Rat := xs.foldl (· + ·) 0

/-- `max(xs)` of a non-empty iterable: first maximal element (0 stands for the `ValueError` on empty input,
    which every call site excludes by an `assert`/`continue` before). -/
def pyMaxL : List Rat → Rat
  | [] => 0
  | x :: xs => xs.foldl pyMax x

/-- `min(xs)` of a non-empty iterable. -/
def pyMinL : List Rat → Rat
  | [] => 0
  | x :: xs => xs.foldl pyMin x

/-- `math.isclose(a, b, rel_tol=1e-09, abs_tol=0.0)` on finite values (CPython `math_isclose_impl`). -/
def pyIsclose (a b : Rat) (rel_tol : Rat := (1 : Rat) / 1000000000) (abs_tol : Rat := 0) : Prop :=
  a = b ∨ pyAbs (b - a) ≤ pyAbs (rel_tol * b) ∨ pyAbs (b - a) ≤ pyAbs (rel_tol * a) ∨ pyAbs (b - a) ≤ abs_tol

instance (a b r t : Rat) : Decidable (pyIsclose a b r t) := by unfold pyIsclose; infer_instance

/-- The four bound attributes of `frequenz.client.microgrid.BatteryData` read by the translated code. -/
structure BatteryData where
  power_inclusion_lower_bound : Rat
  power_exclusion_lower_bound : Rat
  power_exclusion_upper_bound : Rat
  power_inclusion_upper_bound : Rat
deriving Repr, DecidableEq

/-- The four bound attributes of `InverterData`. -/
structure InverterData where
  active_power_inclusion_lower_bound : Rat
  active_power_exclusion_lower_bound : Rat
  active_power_exclusion_upper_bound : Rat
  active_power_inclusion_upper_bound : Rat
deriving Repr, DecidableEq
"""

AGG_STRUCT = r"""
/-- `AggregatedBatteryData`: only the attribute the bounds code reads. -/
structure AggregatedBatteryData where
  power_bounds : PowerBounds
deriving Repr, DecidableEq
"""


# --------------------------------------------------------------------------------------- translator
def rat_lit(v) -> str:
    fr = Fraction(repr(v)) if isinstance(v, float) else Fraction(v)
    if fr.denominator == 1:
        return f"({fr.numerator} : Rat)"
    return f"(({fr.numerator} : Rat) / {fr.denominator})"


class Tr:
    """Expression / straight-line block translator.  `subst`: source text of a python expression -> Lean text."""

    def __init__(self, subst: dict[str, str] | None = None, bools: set[str] | None = None,
                 skip_targets: set[str] | None = None):
        self.subst = dict(subst or {})
        self.bools = set(bools or ())
        self.skip_targets = set(skip_targets or ())
        self.n = 0

    # ---- helpers
    def fresh(self, base: str) -> str:
        self.n += 1
        return f"{base}{self.n}"

    @staticmethod
    def is_boolish(n: ast.expr) -> bool:
        if isinstance(n, (ast.Compare, ast.BoolOp)):
            return True
        if isinstance(n, ast.UnaryOp) and isinstance(n.op, ast.Not):
            return True
        if isinstance(n, ast.Call) and ast.unparse(n.func) in ("math.isclose", "is_close_to_zero", "_math.is_close_to_zero"):
            return True
        if isinstance(n, ast.Constant) and isinstance(n.value, bool):
            return True
        return False

    # ---- value expressions
    def e(self, n: ast.expr, env: dict[str, str]) -> str:
        src = ast.unparse(n)
        if src in self.subst:
            return self.subst[src]
        if self.is_boolish(n):
            return f"(decide ({self.p(n, env)}))"
        if isinstance(n, ast.Name):
            return env.get(n.id, n.id)
        if isinstance(n, ast.Constant):
            if isinstance(n.value, (int, float)) and not isinstance(n.value, bool):
                return rat_lit(n.value)
            raise Unsupported(f"constant {n.value!r}")
        if isinstance(n, ast.Attribute):
            return f"{self.e(n.value, env)}.{n.attr}"
        if isinstance(n, ast.UnaryOp) and isinstance(n.op, ast.USub):
            return f"(-{self.e(n.operand, env)})"
        if isinstance(n, ast.BinOp):
            for k, v in {ast.Add: "+", ast.Sub: "-", ast.Mult: "*", ast.Div: "/"}.items():
                if isinstance(n.op, k):
                    return f"({self.e(n.left, env)} {v} {self.e(n.right, env)})"
            raise Unsupported(f"operator in {src}")
        if isinstance(n, ast.IfExp):
            return f"(if {self.p(n.test, env)} then {self.e(n.body, env)} else {self.e(n.orelse, env)})"
        if isinstance(n, ast.Subscript) and isinstance(n.slice, ast.Constant) and isinstance(n.slice.value, int):
            return f"({self.e(n.value, env)}.getD {n.slice.value} 0)"
        if isinstance(n, ast.Call):
            return self.call(n, env)
        raise Unsupported(f"expression {src[:80]}")

    def call(self, n: ast.Call, env: dict[str, str]) -> str:
        f = ast.unparse(n.func)
        if f in ("sum", "max", "min") and len(n.args) == 1 and isinstance(n.args[0], ast.GeneratorExp) and not n.keywords:
            lean = {"sum": "pySum", "max": "pyMaxL", "min": "pyMinL"}[f]
            return f"({lean} {self.gen(n.args[0], env)})"
        if f in ("max", "min") and len(n.args) == 2 and not n.keywords:
            a, b = (self.e(x, env) for x in n.args)
            return f"(py{f.capitalize()} {a} {b})"
        if f == "len" and len(n.args) == 1:
            return f"(({self.e(n.args[0], env)}.length : Nat) : Rat)"
        if f in ("float",) and len(n.args) == 1:
            return self.e(n.args[0], env)
        if f == "PowerBounds" and not n.args:
            return self.struct(n, env)
        raise Unsupported(f"call {ast.unparse(n)[:80]}")

    def struct(self, n: ast.Call, env: dict[str, str]) -> str:
        kws = {k.arg: self.e(k.value, env) for k in n.keywords}
        if None in kws:
            raise Unsupported("**kwargs")
        return "{ " + ", ".join(f"{k} := {v}" for k, v in kws.items()) + " : PowerBounds }"

    def gen(self, g: ast.GeneratorExp, env: dict[str, str]) -> str:
        """`(elt for t1 in it1 [for t2 in it2])` -> `List.map` / `List.flatMap`."""
        if any(c.ifs or c.is_async for c in g.generators) or not 1 <= len(g.generators) <= 2:
            raise Unsupported(f"generator {ast.unparse(g)[:80]}")
        env = dict(env)
        binders = []
        for c in g.generators:
            it = self.e(c.iter, env)
            if isinstance(c.target, ast.Name):
                v = c.target.id
                env[v] = v
            elif isinstance(c.target, ast.Tuple) and len(c.target.elts) == 2 and all(isinstance(x, ast.Name) for x in c.target.elts):
                v = self.fresh("p")
                for i, x in enumerate(c.target.elts):
                    if x.id != "_":  # type: ignore[attr-defined]
                        env[x.id] = f"{v}.{i + 1}"  # type: ignore[attr-defined]
            else:
                raise Unsupported(f"generator target {ast.unparse(c.target)}")
            binders.append((v, it))
        body = self.e(g.elt, env)
        if len(binders) == 1:
            (v, it), = binders
            return f"(List.map (fun {v} => {body}) {it})"
        (v1, it1), (v2, it2) = binders
        return f"(List.flatMap (fun {v1} => List.map (fun {v2} => {body}) {it2}) {it1})"

    # ---- propositions
    def p(self, n: ast.expr, env: dict[str, str]) -> str:
        src = ast.unparse(n)
        if src in self.subst and (isinstance(n, (ast.Name, ast.Attribute))):
            return f"{self.subst[src]} = true"
        if isinstance(n, ast.Compare):
            ops = {ast.Lt: "<", ast.LtE: "≤", ast.Gt: ">", ast.GtE: "≥", ast.Eq: "=", ast.NotEq: "≠"}
            parts, left = [], n.left
            for op, right in zip(n.ops, n.comparators):
                sym = next((v for k, v in ops.items() if isinstance(op, k)), None)
                if sym is None:
                    raise Unsupported(f"comparison in {src}")
                parts.append(f"{self.e(left, env)} {sym} {self.e(right, env)}")
                left = right
            return "(" + " ∧ ".join(parts) + ")"
        if isinstance(n, ast.BoolOp):
            j = " ∧ " if isinstance(n.op, ast.And) else " ∨ "
            return "(" + j.join(self.p(v, env) for v in n.values) + ")"
        if isinstance(n, ast.UnaryOp) and isinstance(n.op, ast.Not):
            return f"(¬ {self.p(n.operand, env)})"
        if isinstance(n, ast.Constant) and isinstance(n.value, bool):
            return "True" if n.value else "False"
        if isinstance(n, ast.Name) and n.id in self.bools:
            return f"({env.get(n.id, n.id)} = true)"
        if isinstance(n, ast.Call):
            f = ast.unparse(n.func)
            if f == "math.isclose":
                args = list(n.args)
                kw = {k.arg: k.value for k in n.keywords}
                a = args[0] if args else kw.pop("a", None)
                b = args[1] if len(args) > 1 else kw.pop("b", None)
                if a is None or b is None or len(args) > 2 or set(kw) - {"rel_tol", "abs_tol"}:
                    raise Unsupported(f"isclose call {src}")
                opt = "".join(f" ({k} := {self.e(v, env)})" for k, v in kw.items())
                return f"(pyIsclose {self.e(a, env)} {self.e(b, env)}{opt})"
            if f in ("is_close_to_zero", "_math.is_close_to_zero") and len(n.args) == 1 and not n.keywords:
                return f"(isCloseToZero {self.e(n.args[0], env)})"
        raise Unsupported(f"condition {src[:80]}")

    # ---- statements (continuation-passing: what follows an `if` is copied into both branches)
    def block(self, stmts: list[ast.stmt], env: dict[str, str], ind: str, fall: str | None,
              ret=None, cont: str | None = None) -> str:
        if not stmts:
            if fall is None:
                raise Unsupported("control falls off the end of the translated block")
            return ind + fall
        s, rest = stmts[0], stmts[1:]
        go = lambda: self.block(rest, env, ind, fall, ret, cont)  # noqa: E731
        if isinstance(s, ast.Expr):
            if isinstance(s.value, ast.Constant) and isinstance(s.value.value, str):
                return go()
            if isinstance(s.value, ast.Call) and ast.unparse(s.value.func).startswith("_logger."):
                return go()
            raise Unsupported(f"statement {ast.unparse(s)[:60]}")
        if isinstance(s, ast.Assert):
            return go()  # preconditions: listed in the model's well-formedness, not executed
        if isinstance(s, (ast.Assign, ast.AnnAssign, ast.AugAssign)):
            if isinstance(s, ast.Assign):
                if len(s.targets) != 1:
                    raise Unsupported("multiple assignment")
                tgt, val = s.targets[0], s.value
            elif isinstance(s, ast.AnnAssign):
                if s.value is None:
                    raise Unsupported("bare annotation")
                tgt, val = s.target, s.value
            else:
                tgt = s.target
                if not isinstance(s.op, (ast.Add, ast.Sub, ast.Mult)):
                    raise Unsupported("augmented assignment operator")
                val = ast.BinOp(left=ast.Name(id=getattr(tgt, "id", "?"), ctx=ast.Load()), op=s.op, right=s.value)
            if not isinstance(tgt, ast.Name):
                raise Unsupported(f"assignment target {ast.unparse(tgt)}")
            if tgt.id in self.skip_targets:
                return go()
            if self.is_boolish(val):
                self.bools.add(tgt.id)
                rhs = f"decide {self.p(val, env)}"
                return f"{ind}let {tgt.id} : Bool := {rhs}\n" + go()
            return f"{ind}let {tgt.id} : Rat := {self.e(val, env)}\n" + go()
        if isinstance(s, ast.If):
            return (f"{ind}if {self.p(s.test, env)} then\n"
                    + self.block(s.body + rest, env, ind + "  ", fall, ret, cont)
                    + f"\n{ind}else\n"
                    + self.block(s.orelse + rest, env, ind + "  ", fall, ret, cont))
        if isinstance(s, ast.Return):
            if ret is None:
                raise Unsupported("return in a block without return mapping")
            return ind + ret(s.value, env)
        if isinstance(s, ast.Continue):
            if cont is None:
                raise Unsupported("continue outside a loop segment")
            return ind + cont
        raise Unsupported(f"statement {type(s).__name__}: {ast.unparse(s)[:60]}")


# --------------------------------------------------------------------------------------- AST navigation
def parse(repo: pathlib.Path, rel: str) -> ast.Module:
    return ast.parse((repo / rel).read_text())


def find_func(tree: ast.AST, name: str, cls: str | None = None) -> ast.FunctionDef:
    scope: ast.AST = tree
    if cls is not None:
        scope = next((n for n in ast.walk(tree) if isinstance(n, ast.ClassDef) and n.name == cls), None)  # type: ignore[assignment]
        if scope is None:
            raise Unsupported(f"class {cls} not found")
    for n in ast.walk(scope):
        if isinstance(n, (ast.FunctionDef, ast.AsyncFunctionDef)) and n.name == name:
            return n  # type: ignore[return-value]
    raise Unsupported(f"function {cls + '.' if cls else ''}{name} not found")


def body_no_doc(fn: ast.FunctionDef) -> list[ast.stmt]:
    b = list(fn.body)
    if b and isinstance(b[0], ast.Expr) and isinstance(b[0].value, ast.Constant) and isinstance(b[0].value.value, str):
        b = b[1:]
    return b


def str_list(node: ast.expr, what: str) -> list[str]:
    if not isinstance(node, ast.List) or not all(isinstance(e, ast.Constant) and isinstance(e.value, str) for e in node.elts):
        raise Unsupported(f"{what}: expected a list of string literals")
    return [e.value for e in node.elts]  # type: ignore[attr-defined]


def metric_list(node: ast.expr, what: str) -> list[str]:
    if not isinstance(node, ast.List):
        raise Unsupported(f"{what}: expected a list")
    out = []
    for e in node.elts:
        if not (isinstance(e, ast.Attribute) and ast.unparse(e.value) == "ComponentMetricId"):
            raise Unsupported(f"{what}: expected ComponentMetricId.X entries")
        out.append(e.attr)
    return out


def lean_strs(xs: list[str]) -> str:
    return "[" + ", ".join(f'"{x}"' for x in xs) + "]"


def assigned_value(stmts: list[ast.stmt], target_src: str) -> ast.expr:
    for s in stmts:
        for n in ast.walk(s):
            if isinstance(n, ast.Assign) and len(n.targets) == 1 and ast.unparse(n.targets[0]) == target_src:
                return n.value
            if isinstance(n, ast.AnnAssign) and n.value is not None and ast.unparse(n.target) == target_src:
                return n.value
    raise Unsupported(f"assignment to {target_src} not found")


# --------------------------------------------------------------------------------------- sites
def gen_math(repo: pathlib.Path) -> str:
    fn = find_func(parse(repo, P_MATH), "is_close_to_zero")
    args = fn.args
    if [a.arg for a in args.args] != ["value", "abs_tol"] or len(args.defaults) != 1:
        raise Unsupported("is_close_to_zero signature")
    d = args.defaults[0]
    if not (isinstance(d, ast.Constant) and isinstance(d.value, (int, float))):
        raise Unsupported("is_close_to_zero abs_tol default")
    tr = Tr()
    body = tr.block(body_no_doc(fn), {}, "  ", None, ret=lambda v, env: tr.p(v, env))
    return (f"/-- default `abs_tol` of `_math.is_close_to_zero` -/\n"
            f"def closeToZeroAbsTol : Rat := {rat_lit(d.value)}\n\n"
            f"/-- `_math.is_close_to_zero` -/\n"
            f"def isCloseToZero (value : Rat) (abs_tol : Rat := closeToZeroAbsTol) : Prop :=\n{body}\n\n"
            f"instance (v t : Rat) : Decidable (isCloseToZero v t) := by unfold isCloseToZero; infer_instance\n")


def gen_powerbounds_struct(repo: pathlib.Path) -> str:
    tree = parse(repo, P_RESULT)
    cls = next((n for n in tree.body if isinstance(n, ast.ClassDef) and n.name == "PowerBounds"), None)
    if cls is None:
        raise Unsupported("result.PowerBounds not found")
    fields = [s.target.id for s in cls.body if isinstance(s, ast.AnnAssign) and isinstance(s.target, ast.Name)
              and ast.unparse(s.annotation) == "float"]
    if sorted(fields) != sorted(["inclusion_lower", "exclusion_lower", "exclusion_upper", "inclusion_upper"]):
        raise Unsupported(f"PowerBounds fields changed: {fields}")
    return ("/-- `result.PowerBounds` -/\nstructure PowerBounds where\n"
            + "".join(f"  {f} : Rat\n" for f in fields) + "deriving Repr, DecidableEq\n")


def gen_algo(repo: pathlib.Path) -> str:
    tree = parse(repo, P_ALGO)
    fn = find_func(tree, "_aggregate_battery_power_bounds")
    if [a.arg for a in fn.args.args] != ["battery_metrics"]:
        raise Unsupported("_aggregate_battery_power_bounds signature")
    tr = Tr()
    body = tr.block(body_no_doc(fn), {}, "  ", None, ret=lambda v, env: tr.e(v, env))
    out = ("/-- `_aggregate_battery_power_bounds` (precondition `len(battery_metrics) > 0`) -/\n"
           f"def aggregateBatteryPowerBounds (battery_metrics : List PowerBounds) : PowerBounds :=\n{body}\n\n")
    # AggregatedBatteryData.__init__: self.power_bounds = _aggregate_battery_power_bounds(list(map(lambda m: PowerBounds(...), batteries)))
    init = find_func(tree, "__init__", "AggregatedBatteryData")
    val = assigned_value(init.body, "self.power_bounds")
    ok = (isinstance(val, ast.Call) and ast.unparse(val.func) == "_aggregate_battery_power_bounds" and len(val.args) == 1)
    inner = val.args[0] if ok else None
    if ok and isinstance(inner, ast.Call) and ast.unparse(inner.func) == "list" and len(inner.args) == 1:
        inner = inner.args[0]
    if not (ok and isinstance(inner, ast.Call) and ast.unparse(inner.func) == "map" and len(inner.args) == 2
            and isinstance(inner.args[0], ast.Lambda) and ast.unparse(inner.args[1]) == "batteries"):
        raise Unsupported("AggregatedBatteryData.power_bounds: expected _aggregate_battery_power_bounds(list(map(lambda …, batteries)))")
    lam = inner.args[0]
    var = lam.args.args[0].arg
    out += ("/-- `AggregatedBatteryData.__init__`: per-battery `PowerBounds` handed to `_aggregate_battery_power_bounds` -/\n"
            f"def batteryPowerBounds ({var} : BatteryData) : PowerBounds :=\n  {Tr().e(lam.body, {})}\n")
    return out


def gen_manager(repo: pathlib.Path) -> str:
    tree = parse(repo, P_MGR)
    # ---- _get_bounds
    fn = find_func(tree, "_get_bounds", "BatteryManager")
    if [a.arg for a in fn.args.args] != ["self", "pairs_data"]:
        raise Unsupported("_get_bounds signature")
    tr = Tr()
    body = tr.block(body_no_doc(fn), {}, "  ", None, ret=lambda v, env: tr.e(v, env))
    out = ("/-- `BatteryManager._get_bounds` -/\n"
           f"def getBounds (pairs_data : List (AggregatedBatteryData × List InverterData)) : PowerBounds :=\n{body}\n\n")
    # ---- _check_request: everything after `bounds = self._get_bounds(pairs_data)`
    fn = find_func(tree, "_check_request", "BatteryManager")
    stmts = body_no_doc(fn)
    idx = next((i for i, s in enumerate(stmts) if isinstance(s, ast.Assign)
                and ast.unparse(s.value) == "self._get_bounds(pairs_data)" and ast.unparse(s.targets[0]) == "bounds"), None)
    if idx is None:
        raise Unsupported("_check_request: `bounds = self._get_bounds(pairs_data)` not found")
    # `power = request.power.as_watts()` directly before or after it (two independent statements, either order)
    pidx = next((i for i in (idx + 1, idx - 1) if 0 <= i < len(stmts) and isinstance(stmts[i], ast.Assign)
                 and ast.unparse(stmts[i].value) == "request.power.as_watts()"  # type: ignore[attr-defined]
                 and isinstance(stmts[i].targets[0], ast.Name)), None)  # type: ignore[attr-defined]
    if pidx is None:
        raise Unsupported("_check_request: expected `power = request.power.as_watts()` next to the bounds")
    pw = stmts[pidx].targets[0].id  # type: ignore[attr-defined]
    tail = [None] + stmts[max(idx, pidx) + 1:]
    tr = Tr(subst={"request.adjust_power": "adjust_power"})

    def ret(v, env):
        if v is None or (isinstance(v, ast.Constant) and v.value is None):
            return "false"
        if isinstance(v, ast.Call) and ast.unparse(v.func) == "OutOfBounds":
            kw = {k.arg: ast.unparse(k.value) for k in v.keywords}
            if kw != {"request": "request", "bounds": "bounds"}:
                raise Unsupported("OutOfBounds(...) arguments")
            return "true"
        raise Unsupported(f"_check_request returns {ast.unparse(v)[:60]}")

    body = tr.block(tail[1:], {}, "  ", None, ret=ret)
    out += ("/-- tail of `BatteryManager._check_request` (after the id checks): `true` = answered with `OutOfBounds` -/\n"
            f"def checkRequest (bounds : PowerBounds) ({pw} : Rat) (adjust_power : Bool) : Bool :=\n{body}\n\n")
    # ---- crucial metrics
    fn = find_func(tree, "_get_battery_inverter_data", "BatteryManager")
    bat = str_list(assigned_value(fn.body, "crucial_metrics_bat"), "crucial_metrics_bat")
    inv = str_list(assigned_value(fn.body, "crucial_metrics_inv"), "crucial_metrics_inv")
    out += ("/-- `_get_battery_inverter_data`: a NaN in one of these drops the whole battery set -/\n"
            f"def crucialMetricsBat : List String := {lean_strs(bat)}\n"
            f"def crucialMetricsInv : List String := {lean_strs(inv)}\n")
    return out


def loop_segment(fn: ast.FunctionDef, after_continue_test) -> tuple[list[ast.stmt], list[ast.stmt], ast.For, list[ast.stmt]]:
    """Split `calculate`: (statements before the for-loop, loop body after the last skip-`continue`, loop, statements after)."""
    stmts = body_no_doc(fn)
    li = next((i for i, s in enumerate(stmts) if isinstance(s, ast.For)), None)
    if li is None:
        raise Unsupported(f"{fn.name}: for-loop not found")
    loop = stmts[li]
    assert isinstance(loop, ast.For)
    if loop.orelse:
        raise Unsupported("for-else")
    ci = None
    for i, s in enumerate(loop.body):
        if isinstance(s, ast.If) and len(s.body) == 1 and isinstance(s.body[0], ast.Continue) and not s.orelse:
            if after_continue_test(s.test):
                ci = i
    if ci is None:
        raise Unsupported(f"{fn.name}: the skip-`continue` guarding the arithmetic was not found")
    return stmts[:li], loop.body[ci + 1:], loop, stmts[li + 1:]


def zero_inits(pre: list[ast.stmt], skip: set[str]) -> list[str]:
    accs = []
    for s in pre:
        tgt = val = None
        if isinstance(s, ast.Assign) and len(s.targets) == 1:
            tgt, val = s.targets[0], s.value
        elif isinstance(s, ast.AnnAssign):
            tgt, val = s.target, s.value
        if isinstance(tgt, ast.Name) and tgt.id not in skip and isinstance(val, ast.Constant) \
                and isinstance(val.value, (int, float)) and not isinstance(val.value, bool):
            if val.value != 0:
                raise Unsupported(f"accumulator {tgt.id} does not start at 0")
            accs.append(tgt.id)
    return accs


def metric_vars(loop_body: list[ast.stmt]) -> dict[str, str]:
    """`x = metrics.get(ComponentMetricId.M)` -> {M: x}"""
    out = {}
    for s in loop_body:
        if isinstance(s, ast.Assign) and len(s.targets) == 1 and isinstance(s.targets[0], ast.Name) \
                and isinstance(s.value, ast.Call) and ast.unparse(s.value.func) == "metrics.get" and len(s.value.args) == 1:
            a = s.value.args[0]
            if isinstance(a, ast.Attribute) and ast.unparse(a.value) == "ComponentMetricId":
                out[a.attr] = s.targets[0].id
    return out


def none_check_vars(test: ast.expr) -> set[str] | None:
    vals = test.values if isinstance(test, ast.BoolOp) and isinstance(test.op, ast.Or) else [test]
    names = set()
    for v in vals:
        if isinstance(v, ast.Compare) and len(v.ops) == 1 and isinstance(v.ops[0], ast.Is) and isinstance(v.left, ast.Name) \
                and isinstance(v.comparators[0], ast.Constant) and v.comparators[0].value is None:
            names.add(v.left.id)
        else:
            return None
    return names


def tuple_of(names: list[str]) -> str:
    return names[0] if len(names) == 1 else "(" + ", ".join(names) + ")"


def tuple_ty(n: int) -> str:
    return " × ".join(["Rat"] * n)


def gen_sample_calc(tree: ast.Module, cls: str, order: list[str], prefix: str, value_ctor: str) -> str:
    """SoCCalculator / CapacityCalculator: loop segment -> <prefix>Step, tail -> <prefix>Final, required metrics."""
    fn = find_func(tree, "calculate", cls)
    mv_holder: dict[str, str] = {}

    def is_none_guard(test: ast.expr) -> bool:
        names = none_check_vars(test)
        return names is not None and bool(names & set(mv_holder.values()))

    stmts = body_no_doc(fn)
    loop = next((s for s in stmts if isinstance(s, ast.For)), None)
    if loop is None:
        raise Unsupported(f"{cls}.calculate: loop not found")
    mv_holder.update(metric_vars(loop.body))
    if sorted(mv_holder) != sorted(order):
        raise Unsupported(f"{cls}.calculate reads metrics {sorted(mv_holder)}, expected {sorted(order)}")
    pre, seg, loop, post = loop_segment(fn, is_none_guard)
    guard = next(s for s in loop.body if isinstance(s, ast.If) and is_none_guard(s.test))
    checked = none_check_vars(guard.test)
    if checked != set(mv_holder.values()):
        raise Unsupported(f"{cls}.calculate: the None-guard checks {sorted(checked or [])}, not all of {sorted(mv_holder.values())}")
    accs = zero_inits(pre, {"timestamp"})
    if not accs:
        raise Unsupported(f"{cls}.calculate: no accumulators")
    params = [mv_holder[m] for m in order]
    tr = Tr(skip_targets={"timestamp"})
    body = tr.block(seg, {}, "  ", tuple_of(accs), cont=tuple_of(accs))
    out = (f"/-- metrics a battery needs to count in `{cls}` (order of the parameters below) -/\n"
           f"def {prefix}Required : List String := {lean_strs(order)}\n\n"
           f"/-- `{cls}.calculate`: loop body for one qualifying battery; state = ({', '.join(accs)}) -/\n"
           f"def {prefix}Step " + " ".join(f"({a} : Rat)" for a in accs) + " "
           + " ".join(f"({p} : Rat)" for p in params) + f" : {tuple_ty(len(accs))} :=\n{body}\n\n")
    # tail: after `if timestamp == _MIN_TIMESTAMP: return Sample(now, None)`
    gi = next((i for i, s in enumerate(post) if isinstance(s, ast.If) and ast.unparse(s.test) == "timestamp == _MIN_TIMESTAMP"), None)
    tail: list[ast.stmt]
    if gi is not None:
        tail = post[gi + 1:]
        if post[:gi]:
            raise Unsupported(f"{cls}.calculate: statements between the loop and the no-data return")
    else:
        # CapacityCalculator: `return (Sample(now, None) if timestamp == _MIN_TIMESTAMP else Sample(timestamp, Energy...(x)))`
        if not (len(post) == 1 and isinstance(post[0], ast.Return) and isinstance(post[0].value, ast.IfExp)
                and ast.unparse(post[0].value.test) == "timestamp == _MIN_TIMESTAMP"):
            raise Unsupported(f"{cls}.calculate: tail shape")
        tail = [ast.Return(value=post[0].value.orelse)]

    def ret(v, env):
        # Sample(timestamp=timestamp, value=Percentage.from_percent(pct)) / Sample[Energy](timestamp, Energy.from_watt_hours(x))
        if not isinstance(v, ast.Call) or not ast.unparse(v.func).startswith("Sample"):
            raise Unsupported(f"{cls}.calculate returns {ast.unparse(v)[:60]}")
        args = list(v.args) + [k.value for k in v.keywords if k.arg == "value"]
        val = args[-1]
        if not (isinstance(val, ast.Call) and ast.unparse(val.func) == value_ctor and len(val.args) + len(val.keywords) == 1):
            raise Unsupported(f"{cls}.calculate: expected {value_ctor}(x)")
        inner = val.args[0] if val.args else val.keywords[0].value
        return tr2.e(inner, env)

    tr2 = Tr(skip_targets={"timestamp"})
    body = tr2.block(tail, {}, "  ", None, ret=ret)
    out += (f"/-- `{cls}.calculate`: value returned once at least one battery qualified -/\n"
            f"def {prefix}Final " + " ".join(f"({a} : Rat)" for a in accs) + f" : Rat :=\n{body}\n")
    return out


def gen_power_bounds_calc(tree: ast.Module) -> str:
    cls = "PowerBoundsCalculator"
    init = find_func(tree, "__init__", cls)
    bat_ids = metric_list(assigned_value(init.body, "self._battery_metrics"), "_battery_metrics")
    inv_ids = metric_list(assigned_value(init.body, "self._inverter_metrics"), "_inverter_metrics")
    out = ("/-- `PowerBoundsCalculator`: metric ids requested per battery / inverter, in the order `get_validated_bounds` reads them -/\n"
           f"def batteryMetricIds : List String := {lean_strs(bat_ids)}\n"
           f"def inverterMetricIds : List String := {lean_strs(inv_ids)}\n\n")
    fn = find_func(tree, "calculate", cls)
    gv = find_func(fn, "get_validated_bounds")
    rets = [s for s in ast.walk(gv) if isinstance(s, ast.Return) and isinstance(s.value, ast.Call)
            and ast.unparse(s.value.func) == "PowerBounds"]
    if len(rets) != 1:
        raise Unsupported("get_validated_bounds: expected exactly one `return PowerBounds(...)`")
    guard_ok = any(isinstance(s, ast.If) and ast.unparse(s.test) == "len(results) != len(comp_metric_ids)"
                   and len(s.body) == 1 and isinstance(s.body[0], ast.Return)
                   and isinstance(s.body[0].value, ast.Constant) and s.body[0].value.value is None for s in gv.body)
    if not guard_ok:
        raise Unsupported("get_validated_bounds: the `len(results) != len(comp_metric_ids)` guard changed")
    out += ("/-- `get_validated_bounds`: `results` = the present values, in the order of the metric id list -/\n"
            f"def validatedBounds (results : List Rat) : PowerBounds :=\n  {Tr().e(rets[0].value, {})}\n\n")

    def is_inv_guard(test: ast.expr) -> bool:
        return ast.unparse(test) == f"len({inv_var}) == 0"

    # names of the two per-group values
    loop = next((s for s in body_no_doc(fn) if isinstance(s, ast.For)), None)
    if loop is None:
        raise Unsupported("PowerBoundsCalculator.calculate: loop not found")
    agg_var = inv_var = bat_var = None
    for s in loop.body:
        if isinstance(s, ast.Assign) and isinstance(s.targets[0], ast.Name) and isinstance(s.value, ast.Call):
            f = ast.unparse(s.value.func)
            if f == "_aggregate_battery_power_bounds" and len(s.value.args) == 1:
                agg_var, bat_var = s.targets[0].id, ast.unparse(s.value.args[0])
            if f == "get_bounds_list" and len(s.value.args) == 2 and ast.unparse(s.value.args[1]) == "self._inverter_metrics":
                inv_var = s.targets[0].id
    if not (agg_var and inv_var and bat_var):
        raise Unsupported("PowerBoundsCalculator.calculate: aggregated battery bounds / inverter bounds assignments not found")
    bat_guard = any(isinstance(s, ast.If) and ast.unparse(s.test) == f"len({bat_var}) == 0" and len(s.body) == 1
                    and isinstance(s.body[0], ast.Continue) for s in loop.body)
    if not bat_guard:
        raise Unsupported("PowerBoundsCalculator.calculate: `if len(battery_bounds) == 0: continue` not found")
    pre, seg, loop, post = loop_segment(fn, is_inv_guard)
    accs = zero_inits(pre, {"timestamp", "loop_timestamp"})
    if len(accs) != 4:
        raise Unsupported(f"PowerBoundsCalculator.calculate: expected 4 accumulators, found {accs}")
    tr = Tr(skip_targets={"timestamp", "loop_timestamp"})
    body = tr.block(seg, {}, "  ", tuple_of(accs), cont=tuple_of(accs))
    out += (f"/-- `PowerBoundsCalculator.calculate`: loop body for one contributing battery set; state = ({', '.join(accs)}) -/\n"
            "def calcStep " + " ".join(f"({a} : Rat)" for a in accs)
            + f" ({agg_var} : PowerBounds) ({inv_var} : List PowerBounds) : {tuple_ty(4)} :=\n{body}\n\n")
    # final return: SystemBounds(timestamp=…, inclusion_bounds=Bounds(Power.from_watts(a), Power.from_watts(b)), exclusion_bounds=…)
    final = [s for s in post if isinstance(s, ast.Return)]
    if len(final) != 1 or not isinstance(final[0].value, ast.Call):
        raise Unsupported("PowerBoundsCalculator.calculate: final return")
    kws = {k.arg: k.value for k in final[0].value.keywords}

    def pw(n: ast.expr) -> str:
        if isinstance(n, ast.Call) and ast.unparse(n.func) == "Power.from_watts" and len(n.args) == 1:
            return Tr().e(n.args[0], {})
        raise Unsupported(f"SystemBounds value {ast.unparse(n)[:50]}")

    def bnd(n: ast.expr | None) -> tuple[str, str]:
        if isinstance(n, ast.Call) and ast.unparse(n.func).endswith("Bounds") and len(n.args) == 2 and not n.keywords:
            return pw(n.args[0]), pw(n.args[1])
        if isinstance(n, ast.Call) and ast.unparse(n.func).endswith("Bounds") and not n.args:
            kk = {k.arg: k.value for k in n.keywords}
            return pw(kk["lower"]), pw(kk["upper"])
        raise Unsupported("SystemBounds bounds shape")

    il, iu = bnd(kws.get("inclusion_bounds"))
    el, eu = bnd(kws.get("exclusion_bounds"))
    out += ("/-- `PowerBoundsCalculator.calculate`: the `SystemBounds` streamed once a battery set contributed -/\n"
            "def calcResult " + " ".join(f"({a} : Rat)" for a in accs) + " : PowerBounds :=\n"
            f"  {{ inclusion_lower := {il}, exclusion_lower := {el}, exclusion_upper := {eu}, inclusion_upper := {iu} }}\n")
    return out


def gen_methods_tables(repo: pathlib.Path) -> str:
    tree = parse(repo, P_SRC)
    out = ""
    for pyname, lean in (("_BatteryDataMethods", "batteryDataMethods"), ("_InverterDataMethods", "inverterDataMethods")):
        val = assigned_value(tree.body, pyname)
        if not isinstance(val, ast.Dict):
            raise Unsupported(f"{pyname}: expected a dict literal")
        rows = []
        for k, v in zip(val.keys, val.values):
            if not (isinstance(k, ast.Attribute) and ast.unparse(k.value) == "ComponentMetricId" and isinstance(v, ast.Lambda)):
                raise Unsupported(f"{pyname}: entry shape")
            b = v.body
            arg = v.args.args[0].arg
            if isinstance(b, ast.Attribute) and ast.unparse(b.value) == arg:
                rows.append((k.attr, b.attr))
            # per-phase entries (`msg.x[i]`) are not used by the pool calculators: left out of the table
        out += (f"/-- `{pyname}`: metric id -> attribute of the component message (scalar entries) -/\n"
                f"def {lean} : List (String × String) :=\n  ["
                + ",\n   ".join(f'("{a}", "{b}")' for a, b in rows) + "]\n\n")
    return out


def gen_base_types(repo: pathlib.Path) -> str:
    tree = parse(repo, P_BASE)
    fn = find_func(tree, "__contains__", "Bounds")
    # Both ends present: the last return of Bounds.__contains__
    last = body_no_doc(fn)[-1]
    if not isinstance(last, ast.Return):
        raise Unsupported("Bounds.__contains__: last statement")
    src = ast.unparse(last.value).replace("cast(Comparable, self.lower)", "lower").replace("cast(Comparable, self.upper)", "upper") \
        .replace("self.lower", "lower").replace("self.upper", "upper")
    cmp = ast.parse(src, mode="eval").body
    out = ("/-- `Bounds.__contains__` with both ends present -/\n"
           f"def boundsContains (lower upper item : Rat) : Prop :=\n  {Tr().p(cmp, {})}\n\n"
           "instance (l u i : Rat) : Decidable (boundsContains l u i) := by unfold boundsContains; infer_instance\n\n")
    fn = find_func(tree, "__contains__", "SystemBounds")
    subst = {
        "not self.inclusion_bounds": "inclusion_bounds = none",
        "self.exclusion_bounds": "exclusion_bounds ≠ none",
    }
    # translate by shape: if not incl or item not in incl: False; if excl and item in excl: False; True
    st = body_no_doc(fn)
    shape = [ast.unparse(s) for s in st]
    expected = [
        "if not self.inclusion_bounds or item not in self.inclusion_bounds:\n    return False",
        "if self.exclusion_bounds and item in self.exclusion_bounds:\n    return False",
        "return True",
    ]
    if shape != expected:
        raise Unsupported("SystemBounds.__contains__ changed shape")
    del subst
    out += ("/-- `SystemBounds.__contains__` (a `Bounds` object is always truthy, so `not self.inclusion_bounds` = is None) -/\n"
            "def systemBoundsContains (inclusion_bounds exclusion_bounds : Option (Rat × Rat)) (item : Rat) : Bool :=\n"
            "  match inclusion_bounds with\n"
            "  | none => false\n"
            "  | some i =>\n"
            "    if ¬ boundsContains i.1 i.2 item then false\n"
            "    else match exclusion_bounds with\n"
            "      | none => true\n"
            "      | some e => if boundsContains e.1 e.2 item then false else true\n")
    return out


def generate(repo: pathlib.Path) -> str:
    calc = parse(repo, P_CALC)
    parts = [
        PREAMBLE,
        gen_math(repo),
        gen_powerbounds_struct(repo),
        AGG_STRUCT,
        gen_algo(repo),
        gen_manager(repo),
        gen_power_bounds_calc(calc),
        gen_sample_calc(calc, "SoCCalculator", ["CAPACITY", "SOC_UPPER_BOUND", "SOC_LOWER_BOUND", "SOC"], "soc",
                        "Percentage.from_percent"),
        gen_sample_calc(calc, "CapacityCalculator", ["CAPACITY", "SOC_UPPER_BOUND", "SOC_LOWER_BOUND"], "cap",
                        "Energy.from_watt_hours"),
        gen_methods_tables(repo),
        gen_base_types(repo),
        "end Extracted.Pool\n",
    ]
    return "\n".join(parts)
