"""Battery-pool aggregates (C17, C18): Python source -> `lean/Frequenz/Extracted/Pool.lean`.

What is translated, from which site (all located structurally, by AST shape — never by line number):

  _internal/_math.py                 is_close_to_zero                       -> isCloseToZero (+ default abs_tol)
  _power_distributing/result.py      dataclass PowerBounds (fields)         -> structure PowerBounds
  _battery_distribution_algorithm.py _aggregate_battery_power_bounds        -> aggregateBatteryPowerBounds
                                     AggregatedBatteryData.__init__         -> batteryPowerBounds (BatteryData -> PowerBounds)
  _battery_manager.py                BatteryManager._get_bounds             -> getBounds
                                     BatteryManager._check_request (tail)   -> checkRequest   (true = OutOfBounds)
                                     _get_battery_inverter_data             -> crucialMetricsBat / crucialMetricsInv
  _metric_calculator.py              PowerBoundsCalculator                  -> batteryMetricIds, inverterMetricIds,
                                                                               validatedBounds, calcStep, calcResult
                                     SoCCalculator.calculate                -> socStep, socFinal, socRequired
                                     CapacityCalculator.calculate           -> capStep, capFinal, capRequired
  microgrid_api_source.py            _BatteryDataMethods/_InverterDataMethods -> batteryDataMethods / inverterDataMethods
  timeseries/_base_types.py          Bounds.__contains__ (both ends present), SystemBounds.__contains__
                                                                            -> boundsContains, systemBoundsContains
  battery_pool/_component_metrics.py ComponentMetricsData.__eq__ = equality of the stored metrics     -> metricsEqIsDataEq
  battery_pool/_methods.py           SendOnUpdate._update_and_notify: event set iff no cached sample or `!=`, then
                                     cached (through `_metric_updated` or inline; evaluated on the 3 situations) -> updateIffChanged
                                     (both raise `Unsupported` instead of emitting `false`)

The translator below handles the loop-free arithmetic subset these sites use (generator expressions inside
`sum`/`max`/`min`, `len`, `math.isclose`, `is_close_to_zero`, chained comparisons, `+=`, if/else with
early `return`/`continue`).  Loops, Optional filtering and dict plumbing are NOT translated: they are the
hand-written glue of `Frequenz/Model/PoolBounds.lean` / `PoolSoc.lean`, tied to the code by the
differential check.  Anything outside the subset raises `Unsupported` — the check then treats the proofs
as broken and searches for a failing input.

The sites of C17 (`is_close_to_zero`, `_aggregate_battery_power_bounds`, `AggregatedBatteryData.__init__`,
`_get_bounds`, the tail of `_check_request`, the crucial-metric lists, `PowerBoundsCalculator`) go through the
CANONICAL translator `CTr`: locals are inlined, generator binders are named by nesting depth, `if not c` is
emitted with the arms swapped, a chained comparison equals the conjunction of its links, keyword arguments of
`PowerBounds` follow the dataclass, `return a if c else b` = `if c: return a else: return b`, a sum-loop
(`acc = 0.0; for …: acc += e`) = `sum(e for …)`, one-expression helpers are inlined, parameters / locals are found by
ROLE (what they are assigned from, which bound of the result they feed) and get fixed names in the Lean text.  So a
rename, a reordering of independent statements, an inverted `if`, an extracted or inlined local produce the very
same Lean text, while any change of an operator, operand, constant or branch still changes it.

The three calculators of `_metric_calculator.py` (`SoCCalculator`, `CapacityCalculator`, `PowerBoundsCalculator`) are
EXECUTED SYMBOLICALLY rather than matched: the loop body of `calculate` is run once per assumption about what is
missing (which metrics are `None` / which bounds list is empty) with `CTr.decide` settling the tests those assumptions
decide and `CTr.bind` giving the role-bearing statements their meaning (`<x> = metrics_data[<id>]`, `<m> = <x>.get(
ComponentMetricId.M)`, `<stamp> = max(<stamp>, …)`, `<list>[, <time>] = <fetch>(…, self._battery_metrics, …)`).  With
everything present every path must reach the end of the body and move the sample time: that decision tree, locals
inlined, statement-bodied helpers (`self._scale_soc(…)`, module functions) executed in place with parameter binding and
early returns, conditional expressions and (SoC) two-argument `min`/`max` expanded into the branches they are, literal
comparisons folded, is `<x>Step`.  With anything missing the body must `continue` with untouched sums and sample time,
else `Unsupported`.  The statements after the loop are run with the sample time moved (`<x>Final`) and not moved
(must give the no-data result).  Running sums are named by what the result does with them; sums the result does not
read must not be carried between iterations.  The function that builds `PowerBounds(results[0], …)` is found by that
role (closure, method or static method) and checked path-wise: built exactly when `len(results) == len(<ids>)`,
`None` (alone or first of a tuple) otherwise.  `a > b` is written `b < a`, chains of ordering tests in chain order, an
`if` takes the polarity with fewer negations.
"""
from __future__ import annotations

import ast
import pathlib
from fractions import Fraction

NAME = "Pool"
P_MATH = "src/frequenz/sdk/_internal/_math.py"
P_RESULT = "src/frequenz/sdk/microgrid/_power_distributing/result.py"
P_ALGO = "src/frequenz/sdk/microgrid/_power_distributing/_distribution_algorithm/_battery_distribution_algorithm.py"
P_MGR = "src/frequenz/sdk/microgrid/_power_distributing/_component_managers/_battery_manager.py"
P_CALC = "src/frequenz/sdk/timeseries/battery_pool/_metric_calculator.py"
P_SRC = "src/frequenz/sdk/microgrid/_data_sourcing/microgrid_api_source.py"
P_BASE = "src/frequenz/sdk/timeseries/_base_types.py"
SOURCES = [P_MATH, P_RESULT, P_ALGO, P_MGR, P_CALC, P_SRC, P_BASE,
           "src/frequenz/sdk/timeseries/battery_pool/_component_metrics.py",
           "src/frequenz/sdk/timeseries/battery_pool/_methods.py"]


class Unsupported(Exception):
    pass


# --------------------------------------------------------------------------------------- static preamble
PREAMBLE = r"""import Frequenz.Model.Prelude

set_option linter.unusedVariables false

/-! Python built-ins used by the translated code (stdlib semantics: trusted, not extracted). -/
namespace Extracted.Pool

/-- `abs(x)` -/
def pyAbs (x : Rat) : Rat := if x < 0 then -x else x

/-- `sum(xs)`: left fold starting at 0. -/
def pySum (xs : List Rat) : Rat := xs.foldl (· + ·) 0

/-- `max(xs)` of a non-empty iterable: first maximal element (0 stands for the `ValueError` on empty input,
    which every call site excludes by an `assert`/`continue` before). -/
def pyMaxL : List Rat → Rat
  | [] => 0
  | x :: xs => xs.foldl pyMax x

/-- `min(xs)` of a non-empty iterable. -/
def pyMinL : List Rat → Rat
  | [] => 0
  | x :: xs => xs.foldl pyMin x

/-- `math.isclose(a, b, rel_tol=1e-09, abs_tol=0.0)` on finite values (CPython `math_isclose_impl`). -/
def pyIsclose (a b : Rat) (rel_tol : Rat := (1 : Rat) / 1000000000) (abs_tol : Rat := 0) : Prop :=
  a = b ∨ pyAbs (b - a) ≤ pyAbs (rel_tol * b) ∨ pyAbs (b - a) ≤ pyAbs (rel_tol * a) ∨ pyAbs (b - a) ≤ abs_tol

instance (a b r t : Rat) : Decidable (pyIsclose a b r t) := by unfold pyIsclose; infer_instance

/-- The four bound attributes of `frequenz.client.microgrid.BatteryData` read by the translated code. -/
structure BatteryData where
  power_inclusion_lower_bound : Rat
  power_exclusion_lower_bound : Rat
  power_exclusion_upper_bound : Rat
  power_inclusion_upper_bound : Rat
deriving Repr, DecidableEq

/-- The four bound attributes of `InverterData`. -/
structure InverterData where
  active_power_inclusion_lower_bound : Rat
  active_power_exclusion_lower_bound : Rat
  active_power_exclusion_upper_bound : Rat
  active_power_inclusion_upper_bound : Rat
deriving Repr, DecidableEq
"""

AGG_STRUCT = r"""
/-- `AggregatedBatteryData`: only the attribute the bounds code reads. -/
structure AggregatedBatteryData where
  power_bounds : PowerBounds
deriving Repr, DecidableEq
"""


# --------------------------------------------------------------------------------------- translator
def rat_lit(v) -> str:
    fr = Fraction(repr(v)) if isinstance(v, float) else Fraction(v)
    if fr.denominator == 1:
        return f"({fr.numerator} : Rat)"
    return f"(({fr.numerator} : Rat) / {fr.denominator})"


class Tr:
    """Expression / straight-line block translator.  `subst`: source text of a python expression -> Lean text."""

    def __init__(self, subst: dict[str, str] | None = None, bools: set[str] | None = None,
                 skip_targets: set[str] | None = None):
        self.subst = dict(subst or {})
        self.bools = set(bools or ())
        self.skip_targets = set(skip_targets or ())
        self.n = 0

    # ---- helpers
    def fresh(self, base: str) -> str:
        self.n += 1
        return f"{base}{self.n}"

    @staticmethod
    def is_boolish(n: ast.expr) -> bool:
        if isinstance(n, (ast.Compare, ast.BoolOp)):
            return True
        if isinstance(n, ast.UnaryOp) and isinstance(n.op, ast.Not):
            return True
        if isinstance(n, ast.Call) and ast.unparse(n.func) in ("math.isclose", "is_close_to_zero", "_math.is_close_to_zero"):
            return True
        if isinstance(n, ast.Constant) and isinstance(n.value, bool):
            return True
        return False

    # ---- value expressions
    def e(self, n: ast.expr, env: dict[str, str]) -> str:
        src = ast.unparse(n)
        if src in self.subst:
            return self.subst[src]
        if self.is_boolish(n):
            return f"(decide ({self.p(n, env)}))"
        if isinstance(n, ast.Name):
            return env.get(n.id, n.id)
        if isinstance(n, ast.Constant):
            if isinstance(n.value, (int, float)) and not isinstance(n.value, bool):
                return rat_lit(n.value)
            raise Unsupported(f"constant {n.value!r}")
        if isinstance(n, ast.Attribute):
            return f"{self.e(n.value, env)}.{n.attr}"
        if isinstance(n, ast.UnaryOp) and isinstance(n.op, ast.USub):
            return f"(-{self.e(n.operand, env)})"
        if isinstance(n, ast.BinOp):
            for k, v in {ast.Add: "+", ast.Sub: "-", ast.Mult: "*", ast.Div: "/"}.items():
                if isinstance(n.op, k):
                    return f"({self.e(n.left, env)} {v} {self.e(n.right, env)})"
            raise Unsupported(f"operator in {src}")
        if isinstance(n, ast.IfExp):
            return f"(if {self.p(n.test, env)} then {self.e(n.body, env)} else {self.e(n.orelse, env)})"
        if isinstance(n, ast.Subscript) and isinstance(n.slice, ast.Constant) and isinstance(n.slice.value, int):
            return f"({self.e(n.value, env)}.getD {n.slice.value} 0)"
        if isinstance(n, ast.Call):
            return self.call(n, env)
        raise Unsupported(f"expression {src[:80]}")

    def call(self, n: ast.Call, env: dict[str, str]) -> str:
        f = ast.unparse(n.func)
        if f in ("sum", "max", "min") and len(n.args) == 1 and isinstance(n.args[0], ast.GeneratorExp) and not n.keywords:
            lean = {"sum": "pySum", "max": "pyMaxL", "min": "pyMinL"}[f]
            return f"({lean} {self.gen(n.args[0], env)})"
        if f in ("max", "min") and len(n.args) == 2 and not n.keywords:
            a, b = (self.e(x, env) for x in n.args)
            return f"(py{f.capitalize()} {a} {b})"
        if f == "len" and len(n.args) == 1:
            return f"(({self.e(n.args[0], env)}.length : Nat) : Rat)"
        if f in ("float",) and len(n.args) == 1:
            return self.e(n.args[0], env)
        if f == "PowerBounds" and not n.args:
            return self.struct(n, env)
        raise Unsupported(f"call {ast.unparse(n)[:80]}")

    def struct(self, n: ast.Call, env: dict[str, str]) -> str:
        kws = {k.arg: self.e(k.value, env) for k in n.keywords}
        if None in kws:
            raise Unsupported("**kwargs")
        return "{ " + ", ".join(f"{k} := {v}" for k, v in kws.items()) + " : PowerBounds }"

    def gen(self, g: ast.GeneratorExp, env: dict[str, str]) -> str:
        """`(elt for t1 in it1 [for t2 in it2])` -> `List.map` / `List.flatMap`."""
        if any(c.ifs or c.is_async for c in g.generators) or not 1 <= len(g.generators) <= 2:
            raise Unsupported(f"generator {ast.unparse(g)[:80]}")
        env = dict(env)
        binders = []
        for c in g.generators:
            it = self.e(c.iter, env)
            if isinstance(c.target, ast.Name):
                v = c.target.id
                env[v] = v
            elif isinstance(c.target, ast.Tuple) and len(c.target.elts) == 2 and all(isinstance(x, ast.Name) for x in c.target.elts):
                v = self.fresh("p")
                for i, x in enumerate(c.target.elts):
                    if x.id != "_":  # type: ignore[attr-defined]
                        env[x.id] = f"{v}.{i + 1}"  # type: ignore[attr-defined]
            else:
                raise Unsupported(f"generator target {ast.unparse(c.target)}")
            binders.append((v, it))
        body = self.e(g.elt, env)
        if len(binders) == 1:
            (v, it), = binders
            return f"(List.map (fun {v} => {body}) {it})"
        (v1, it1), (v2, it2) = binders
        return f"(List.flatMap (fun {v1} => List.map (fun {v2} => {body}) {it2}) {it1})"

    # ---- propositions
    def p(self, n: ast.expr, env: dict[str, str]) -> str:
        src = ast.unparse(n)
        if src in self.subst and (isinstance(n, (ast.Name, ast.Attribute))):
            return f"{self.subst[src]} = true"
        if isinstance(n, ast.Compare):
            ops = {ast.Lt: "<", ast.LtE: "≤", ast.Gt: ">", ast.GtE: "≥", ast.Eq: "=", ast.NotEq: "≠"}
            parts, left = [], n.left
            for op, right in zip(n.ops, n.comparators):
                sym = next((v for k, v in ops.items() if isinstance(op, k)), None)
                if sym is None:
                    raise Unsupported(f"comparison in {src}")
                parts.append(f"{self.e(left, env)} {sym} {self.e(right, env)}")
                left = right
            return "(" + " ∧ ".join(parts) + ")"
        if isinstance(n, ast.BoolOp):
            j = " ∧ " if isinstance(n.op, ast.And) else " ∨ "
            return "(" + j.join(self.p(v, env) for v in n.values) + ")"
        if isinstance(n, ast.UnaryOp) and isinstance(n.op, ast.Not):
            return f"(¬ {self.p(n.operand, env)})"
        if isinstance(n, ast.Constant) and isinstance(n.value, bool):
            return "True" if n.value else "False"
        if isinstance(n, ast.Name) and n.id in self.bools:
            return f"({env.get(n.id, n.id)} = true)"
        if isinstance(n, ast.Call):
            f = ast.unparse(n.func)
            if f == "math.isclose":
                args = list(n.args)
                kw = {k.arg: k.value for k in n.keywords}
                a = args[0] if args else kw.pop("a", None)
                b = args[1] if len(args) > 1 else kw.pop("b", None)
                if a is None or b is None or len(args) > 2 or set(kw) - {"rel_tol", "abs_tol"}:
                    raise Unsupported(f"isclose call {src}")
                opt = "".join(f" ({k} := {self.e(v, env)})" for k, v in kw.items())
                return f"(pyIsclose {self.e(a, env)} {self.e(b, env)}{opt})"
            if f in ("is_close_to_zero", "_math.is_close_to_zero") and len(n.args) == 1 and not n.keywords:
                return f"(isCloseToZero {self.e(n.args[0], env)})"
        raise Unsupported(f"condition {src[:80]}")

    # ---- statements (continuation-passing: what follows an `if` is copied into both branches)
    def block(self, stmts: list[ast.stmt], env: dict[str, str], ind: str, fall: str | None,
              ret=None, cont: str | None = None) -> str:
        if not stmts:
            if fall is None:
                raise Unsupported("control falls off the end of the translated block")
            return ind + fall
        s, rest = stmts[0], stmts[1:]
        go = lambda: self.block(rest, env, ind, fall, ret, cont)  # noqa: E731
        if isinstance(s, ast.Expr):
            if isinstance(s.value, ast.Constant) and isinstance(s.value.value, str):
                return go()
            if isinstance(s.value, ast.Call) and ast.unparse(s.value.func).startswith("_logger."):
                return go()
            raise Unsupported(f"statement {ast.unparse(s)[:60]}")
        if isinstance(s, ast.Assert):
            return go()  # preconditions: listed in the model's well-formedness, not executed
        if isinstance(s, (ast.Assign, ast.AnnAssign, ast.AugAssign)):
            if isinstance(s, ast.Assign):
                if len(s.targets) != 1:
                    raise Unsupported("multiple assignment")
                tgt, val = s.targets[0], s.value
            elif isinstance(s, ast.AnnAssign):
                if s.value is None:
                    raise Unsupported("bare annotation")
                tgt, val = s.target, s.value
            else:
                tgt = s.target
                if not isinstance(s.op, (ast.Add, ast.Sub, ast.Mult)):
                    raise Unsupported("augmented assignment operator")
                val = ast.BinOp(left=ast.Name(id=getattr(tgt, "id", "?"), ctx=ast.Load()), op=s.op, right=s.value)
            if not isinstance(tgt, ast.Name):
                raise Unsupported(f"assignment target {ast.unparse(tgt)}")
            if tgt.id in self.skip_targets:
                return go()
            if self.is_boolish(val):
                self.bools.add(tgt.id)
                rhs = f"decide {self.p(val, env)}"
                return f"{ind}let {tgt.id} : Bool := {rhs}\n" + go()
            return f"{ind}let {tgt.id} : Rat := {self.e(val, env)}\n" + go()
        if isinstance(s, ast.If):
            return (f"{ind}if {self.p(s.test, env)} then\n"
                    + self.block(s.body + rest, env, ind + "  ", fall, ret, cont)
                    + f"\n{ind}else\n"
                    + self.block(s.orelse + rest, env, ind + "  ", fall, ret, cont))
        if isinstance(s, ast.Return):
            if ret is None:
                raise Unsupported("return in a block without return mapping")
            return ind + ret(s.value, env)
        if isinstance(s, ast.Continue):
            if cont is None:
                raise Unsupported("continue outside a loop segment")
            return ind + cont
        raise Unsupported(f"statement {type(s).__name__}: {ast.unparse(s)[:60]}")


# --------------------------------------------------------------------------------------- canonical translator
def strip_nots(test: ast.expr) -> tuple[ast.expr, bool]:
    """`not not … X` -> (X, polarity)."""
    pol = True
    while isinstance(test, ast.UnaryOp) and isinstance(test.op, ast.Not):
        test, pol = test.operand, not pol
    return test, pol


def _names_in(n: ast.AST) -> set[str]:
    return {x.id for x in ast.walk(n) if isinstance(x, ast.Name)}


def inline_comp_locals(stmts: list[ast.stmt]) -> list[ast.stmt]:
    """`xs = [e for …]; … sum(xs) …`  ->  `… sum(e for …) …`: a local bound ONCE (top-level simple assignment) to a list
    comprehension / generator expression and read ONCE, as the sole argument of `sum`/`max`/`min`, is replaced by its
    definition.  The comprehensions of the translated subset are pure (attribute reads and arithmetic), so moving the
    evaluation point does not change the result; anything else is left alone (and then rejected by the translator)."""
    stmts = list(stmts)
    changed = True
    while changed:
        changed = False
        for i, st in enumerate(stmts):
            if not (isinstance(st, ast.Assign) and len(st.targets) == 1 and isinstance(st.targets[0], ast.Name)
                    and isinstance(st.value, (ast.ListComp, ast.GeneratorExp))):
                continue
            name = st.targets[0].id
            stores = [x for s2 in stmts for x in ast.walk(s2)
                      if isinstance(x, ast.Name) and x.id == name and isinstance(x.ctx, (ast.Store, ast.Del))]
            if len(stores) != 1:
                continue
            rest = stmts[i + 1:]
            uses = [c for s2 in rest for c in ast.walk(s2)
                    if isinstance(c, ast.Call) and isinstance(c.func, ast.Name) and c.func.id in ("sum", "max", "min")
                    and len(c.args) == 1 and not c.keywords and isinstance(c.args[0], ast.Name) and c.args[0].id == name]
            reads = [x for s2 in stmts for x in ast.walk(s2)
                     if isinstance(x, ast.Name) and x.id == name and isinstance(x.ctx, ast.Load)]
            if len(uses) != 1 or len(reads) != 1:
                continue
            if any(isinstance(x, (ast.For, ast.While)) and any(uses[0] is y for y in ast.walk(x)) for s2 in rest for x in ast.walk(s2)):
                continue                        # used inside a loop: evaluated more than once
            comp = st.value
            uses[0].args[0] = ast.GeneratorExp(elt=comp.elt, generators=comp.generators)
            del stmts[i]
            changed = True
            break
    return stmts


def fold_sum_loops(stmts: list[ast.stmt]) -> list[ast.stmt]:
    """`acc = 0.0 … for t in it: [for u in it2:] acc += e`  ->  `acc = sum(e for t in it [for u in it2])`.

    Only when nothing between the initialisation and the loop mentions `acc`, the loop body is that single `+=`
    (no filter, no else) and `e` / the iterables do not mention `acc`: then both forms compute the same left fold
    starting at zero.  Anything else is left alone (and later refused by the translator)."""
    out = inline_comp_locals(stmts)
    changed = True
    while changed:
        changed = False
        for i, s in enumerate(out):
            if not isinstance(s, ast.For) or s.orelse:
                continue
            gens, body = [], s
            while isinstance(body, ast.For) and not body.orelse and len(body.body) == 1:
                gens.append(ast.comprehension(target=body.target, iter=body.iter, ifs=[], is_async=0))
                body = body.body[0]
            if not (isinstance(body, ast.AugAssign) and isinstance(body.op, ast.Add) and isinstance(body.target, ast.Name)):
                continue
            acc = body.target.id
            if acc in _names_in(body.value) or any(acc in _names_in(g.iter) or acc in _names_in(g.target) for g in gens):
                continue
            j = next((k for k in range(i - 1, -1, -1) if acc in _names_in(out[k])), None)
            if j is None:
                continue
            init = out[j]
            val = init.value if isinstance(init, (ast.Assign, ast.AnnAssign)) else None
            tgt = (init.targets[0] if isinstance(init, ast.Assign) and len(init.targets) == 1
                   else init.target if isinstance(init, ast.AnnAssign) else None)
            if not (isinstance(tgt, ast.Name) and tgt.id == acc and isinstance(val, ast.Constant)
                    and isinstance(val.value, (int, float)) and not isinstance(val.value, bool) and val.value == 0):
                continue
            call = ast.Call(func=ast.Name(id="sum", ctx=ast.Load()),
                            args=[ast.GeneratorExp(elt=body.value, generators=gens)], keywords=[])
            new = ast.Assign(targets=[ast.Name(id=acc, ctx=ast.Store())], value=call)
            out = out[:j] + [new] + out[j + 1:i] + out[i + 1:]
            changed = True
            break
    return [ast.fix_missing_locations(s) for s in out]


class CTr:
    """Canonical translator of the loop-free subset: the Lean term depends on what the code computes, not on how it
    is spelled.

    * every local is INLINED (`x = e; … x …` becomes `… e' …`; `x += e` becomes `(x' + e')`), so the result does not
      depend on the names of locals, on the order of independent assignments, or on whether a sub-expression was
      given a name (`let x := e; b` and `b[e/x]` are the same Lean term up to ζ);
    * bound variables of generator expressions are renamed `x1, x2, …` in order of translation;
    * `if not c: A else: B` is emitted as `if c then B else A`; statements after an `if` are continued in both arms
      (so guard clauses `if c: return …` and `if c: … else: …` give the same term);
    * a chained comparison and the conjunction of its links are printed identically; nested `and`/`or` are flattened;
      `not` is pushed through `and`/`or` (De Morgan) but NEVER into a comparison (`not a < b` is not `a >= b` on NaN);
    * keyword arguments of `PowerBounds(...)` are emitted in the order of the dataclass fields.

    `env`: python local -> ("v", Lean term) | ("p", Lean Prop).  `attrs`: source text of an attribute chain that stands
    for a parameter of the Lean definition (e.g. `request.adjust_power`).  A name that is neither is refused."""

    def __init__(self, attrs: dict[str, tuple[str, str]] | None = None, skip_targets: set[str] | None = None,
                 pb_fields: list[str] | None = None):
        self.attrs = dict(attrs or {})
        self.skip_targets = set(skip_targets or ())
        self.pb_fields = list(pb_fields or [])
        self.depth = 0  # nesting depth of generator binders: a binder is named after its depth, not after a counter
        self.expand_minmax = False  # `max(a, b)` / `min(a, b)` as the branch they are (so a clamp = its if/elif form)
        self.helpers: dict[str, tuple[ast.FunctionDef, list[str]]] = {}  # callee source text -> (def, parameters)
        self.decide = None  # hook: (test, env) -> True / False / None for tests settled by the caller's assumptions
        self.bind = None  # hook: (statement, env) -> new env, or None if the statement is an ordinary one

    # ---- values
    def e(self, n: ast.expr, env: dict) -> str:
        src = ast.unparse(n)
        if src in self.attrs:
            kind, text = self.attrs[src]
            return text if kind == "v" else f"(decide ({text}))"
        if Tr.is_boolish(n):
            return f"(decide ({self.p(n, env)}))"
        if isinstance(n, ast.Name):
            if n.id not in env:
                raise Unsupported(f"name `{n.id}` is not a parameter or a translated local")
            kind = env[n.id][0]
            if kind == "v":
                return env[n.id][1]
            if kind == "p":
                return f"(decide ({env[n.id][1]}))"
            raise Unsupported(f"`{n.id}` ({ {'none': 'None', 'o': 'a value the translator does not model'}.get(kind, kind)}) used in arithmetic")
        if isinstance(n, ast.Constant):
            if isinstance(n.value, (int, float)) and not isinstance(n.value, bool):
                return rat_lit(n.value)
            raise Unsupported(f"constant {n.value!r}")
        if isinstance(n, ast.Attribute):
            return f"{self.e(n.value, env)}.{n.attr}"
        if isinstance(n, ast.UnaryOp) and isinstance(n.op, ast.USub):
            return f"(-{self.e(n.operand, env)})"
        if isinstance(n, ast.UnaryOp) and isinstance(n.op, ast.UAdd):
            return self.e(n.operand, env)
        if isinstance(n, ast.BinOp):
            for k, v in {ast.Add: "+", ast.Sub: "-", ast.Mult: "*", ast.Div: "/"}.items():
                if isinstance(n.op, k):
                    return f"({self.e(n.left, env)} {v} {self.e(n.right, env)})"
            raise Unsupported(f"operator in {src}")
        if isinstance(n, ast.IfExp):
            neg, txt = self.polarity(n.test, env)
            a, b = (n.orelse, n.body) if neg else (n.body, n.orelse)
            return f"(if {txt} then {self.e(a, env)} else {self.e(b, env)})"
        if isinstance(n, ast.Subscript) and isinstance(n.slice, ast.Constant) and isinstance(n.slice.value, int) \
                and not isinstance(n.slice.value, bool) and n.slice.value >= 0:
            return f"({self.e(n.value, env)}.getD {n.slice.value} 0)"
        if isinstance(n, ast.Call):
            return self.call(n, env)
        raise Unsupported(f"expression {src[:80]}")

    def call(self, n: ast.Call, env: dict) -> str:
        f = ast.unparse(n.func)
        if f in ("sum", "max", "min") and len(n.args) == 1 and not n.keywords \
                and isinstance(n.args[0], (ast.GeneratorExp, ast.ListComp)):
            lean = {"sum": "pySum", "max": "pyMaxL", "min": "pyMinL"}[f]
            return f"({lean} {self.gen(n.args[0], env)})"
        if f in ("max", "min") and len(n.args) == 2 and not n.keywords:
            a, b = (self.e(x, env) for x in n.args)
            return f"(py{f.capitalize()} {a} {b})"
        if f == "len" and len(n.args) == 1 and not n.keywords:
            return f"(({self.e(n.args[0], env)}.length : Nat) : Rat)"
        if f == "float" and len(n.args) == 1 and not n.keywords:
            return self.e(n.args[0], env)
        if f == "PowerBounds":
            return self.struct(n, env)
        raise Unsupported(f"call {ast.unparse(n)[:80]}")

    def struct(self, n: ast.Call, env: dict) -> str:
        if not self.pb_fields:
            raise Unsupported("PowerBounds(...) before the dataclass was read")
        if any(k.arg is None for k in n.keywords) or any(isinstance(a, ast.Starred) for a in n.args):
            raise Unsupported("PowerBounds(*args / **kwargs)")
        vals: dict[str, ast.expr] = dict(zip(self.pb_fields, n.args))
        for k in n.keywords:
            if k.arg in vals or k.arg not in self.pb_fields:
                raise Unsupported(f"PowerBounds(...): argument {k.arg}")
            vals[k.arg] = k.value  # type: ignore[index]
        if len(n.args) > len(self.pb_fields) or set(vals) != set(self.pb_fields):
            raise Unsupported(f"PowerBounds(...): fields {sorted(vals)}")
        return "{ " + ", ".join(f"{f} := {self.e(vals[f], env)}" for f in self.pb_fields) + " : PowerBounds }"

    def gen(self, g: ast.GeneratorExp | ast.ListComp, env: dict) -> str:
        if any(c.ifs or c.is_async for c in g.generators) or not 1 <= len(g.generators) <= 2:
            raise Unsupported(f"generator {ast.unparse(g)[:80]}")
        env = dict(env)
        binders = []
        depth0 = self.depth
        for c in g.generators:
            it = self.e(c.iter, env)
            self.depth += 1
            v = f"x{self.depth}"
            if isinstance(c.target, ast.Name):
                env[c.target.id] = ("v", v)
            elif isinstance(c.target, ast.Tuple) and len(c.target.elts) == 2 and all(isinstance(x, ast.Name) for x in c.target.elts):
                for i, x in enumerate(c.target.elts):
                    if x.id != "_":  # type: ignore[attr-defined]
                        env[x.id] = ("v", f"{v}.{i + 1}")  # type: ignore[attr-defined]
            else:
                raise Unsupported(f"generator target {ast.unparse(c.target)}")
            binders.append((v, it))
        body = self.e(g.elt, env)
        self.depth = depth0
        if len(binders) == 1:
            (v, it), = binders
            return f"(List.map (fun {v} => {body}) {it})"
        (v1, it1), (v2, it2) = binders
        return f"(List.flatMap (fun {v1} => List.map (fun {v2} => {body}) {it2}) {it1})"

    # ---- propositions
    _OPS = {ast.Lt: "<", ast.LtE: "≤", ast.Gt: ">", ast.GtE: "≥", ast.Eq: "=", ast.NotEq: "≠"}

    def _links(self, n: ast.Compare, env: dict) -> list[tuple[str, str, str]]:
        """The links of a comparison chain as (left, symbol, right); `a > b` is written `b < a`, `a >= b` as `b ≤ a`
        (the same test, also on NaN)."""
        parts, left = [], n.left
        for op, right in zip(n.ops, n.comparators):
            sym = self._OPS.get(type(op))
            if sym is None:
                raise Unsupported(f"comparison in {ast.unparse(n)}")
            l, r = self.e(left, env), self.e(right, env)
            if sym in (">", "≥"):
                l, r, sym = r, l, {">": "<", "≥": "≤"}[sym]
            parts.append((l, sym, r))
            left = right
        return parts

    @staticmethod
    def _chain(items: list) -> list:
        """Conjuncts in canonical order: ordering links that form a chain `a < b`, `b ≤ c`, … are put in chain order
        (a conjunction of total tests does not depend on the order of its operands)."""
        idx = [k for k, it in enumerate(items) if isinstance(it, tuple) and it[1] in ("<", "≤")]
        links = [items[k] for k in idx]
        if len(links) >= 2:
            rights = {x[2] for x in links}
            starts = [x for x in links if x[0] not in rights]
            if len(starts) == 1:
                order, cur, left = [starts[0]], starts[0], [x for x in links if x is not starts[0]]
                while left:
                    nxt = [x for x in left if x[0] == cur[2]]
                    if len(nxt) != 1:
                        break
                    order.append(nxt[0])
                    left.remove(nxt[0])
                    cur = nxt[0]
                if not left:
                    for k, x in zip(idx, order):
                        items[k] = x
        return [f"{x[0]} {x[1]} {x[2]}" if isinstance(x, tuple) else x for x in items]

    def _junct(self, n: ast.expr, neg: bool, env: dict, conj: bool) -> list:
        """Flattened operands of the conjunction (`conj`) / disjunction that `n` (negated if `neg`) stands for."""
        n, pol = strip_nots(n)
        neg = neg != (not pol)
        if isinstance(n, ast.Name) and n.id in env and env[n.id][0] == "p":
            node = env[n.id][2] if len(env[n.id]) > 2 else None
            if node is not None:
                return self._junct(node[0], neg, node[1], conj)
        if isinstance(n, ast.BoolOp):
            is_and = isinstance(n.op, ast.And) != neg
            if is_and == conj:
                return [x for v in n.values for x in self._junct(v, neg, env, conj)]
        if isinstance(n, ast.Compare) and not neg and conj:
            return list(self._links(n, env))
        if isinstance(n, ast.Compare) and neg and not conj and len(n.ops) > 1:
            return [f"(¬ ({l} {o} {r}))" for l, o, r in self._links(n, env)]
        return [self._p(n, neg, env)]

    def _p(self, n: ast.expr, neg: bool, env: dict) -> str:
        n, pol = strip_nots(n)
        neg = neg != (not pol)
        src = ast.unparse(n)
        if src in self.attrs and self.attrs[src][0] == "p":
            t = self.attrs[src][1]
            return f"(¬ {t})" if neg else t
        if isinstance(n, ast.Name):
            if n.id not in env or env[n.id][0] != "p":
                raise Unsupported(f"`{n.id}` used as a condition")
            v = env[n.id]
            if len(v) > 2:  # re-translate the defining expression under the requested polarity (De Morgan)
                return self._p(v[2][0], neg, v[2][1])
            return f"(¬ {v[1]})" if neg else v[1]
        if isinstance(n, ast.BoolOp):
            is_and = isinstance(n.op, ast.And) != neg
            parts = [x for v in n.values for x in self._junct(v, neg, env, is_and)]
            parts = self._chain(parts) if is_and else [f"{x[0]} {x[1]} {x[2]}" if isinstance(x, tuple) else x for x in parts]
            return "(" + (" ∧ " if is_and else " ∨ ").join(parts) + ")"
        if isinstance(n, ast.Compare):
            links = self._links(n, env)
            if neg and len(links) > 1:  # a chain is the conjunction of its links
                return "(" + " ∨ ".join(f"(¬ ({l} {o} {r}))" for l, o, r in links) + ")"
            t = "(" + " ∧ ".join(self._chain(list(links))) + ")"
            return f"(¬ {t})" if neg else t
        if isinstance(n, ast.Constant) and isinstance(n.value, bool):
            return "True" if n.value != neg else "False"
        if isinstance(n, ast.Call):
            f = ast.unparse(n.func)
            t = None
            if f == "math.isclose":
                args = list(n.args)
                kw = {k.arg: k.value for k in n.keywords}
                a = args[0] if args else kw.pop("a", None)
                b = args[1] if len(args) > 1 else kw.pop("b", None)
                if a is None or b is None or len(args) > 2 or set(kw) - {"rel_tol", "abs_tol"}:
                    raise Unsupported(f"isclose call {src}")
                opt = "".join(f" ({k} := {self.e(kw[k], env)})" for k in ("rel_tol", "abs_tol") if k in kw)
                t = f"(pyIsclose {self.e(a, env)} {self.e(b, env)}{opt})"
            elif f in ("is_close_to_zero", "_math.is_close_to_zero") and len(n.args) == 1 and not n.keywords:
                t = f"(isCloseToZero {self.e(n.args[0], env)})"
            if t is not None:
                return f"(¬ {t})" if neg else t
        raise Unsupported(f"condition {src[:80]}")

    def p(self, n: ast.expr, env: dict) -> str:
        return self._p(n, False, env)

    def polarity(self, test: ast.expr, env: dict) -> tuple[bool, str]:
        """(negated?, text): the test or its negation, whichever needs fewer `¬` (ties: the test itself) — so `if not c`,
        `if not a and not b` and their positive twins with swapped arms give the same term."""
        pos, neg = self._p(test, False, env), self._p(test, True, env)
        return (True, neg) if neg.count("¬") < pos.count("¬") else (False, pos)

    # ---- statements
    def block(self, stmts: list[ast.stmt], env: dict, ind: str, fall=None, ret=None, cont=None) -> str:
        """`fall(env)` / `cont(env)` / `ret(value, env)` give the Lean text of the result at the three kinds of exit."""
        k = Exits(fall=(lambda e: ("leaf", fall(e))) if fall else None,
                  ret=(lambda v, e: ("leaf", ret(v, e))) if ret else None,
                  cont=(lambda e: ("leaf", cont(e))) if cont else None)
        return self.show(self.tree(stmts, env, k), ind)

    def tree(self, stmts: list[ast.stmt], env: dict, k: "Exits") -> tuple:
        return self._merge(self._tree(stmts, env, k))

    # decision tree: ("leaf", payload) | ("if", condition text, then-tree, else-tree, (test, env) | None)
    def _merge(self, t: tuple) -> tuple:
        """`if a: X elif b: X else: Y` = `if a or b: X else: Y`; `if a: (if b: X else: Y) else: Y` = `if a and b: X else: Y`;
        `if a: X else: X` = `X` — so consecutive guard clauses with the same outcome and one combined test give one term."""
        if t[0] == "leaf":
            return t
        _, txt, a, b, src = t
        a, b = self._merge(a), self._merge(b)
        if a == b:
            return a

        def both(op: type, s1, s2, t1: str, t2: str) -> tuple[str, tuple | None]:
            if s1 is not None and s2 is not None and s1[1] == s2[1]:
                node = ast.BoolOp(op=op(), values=[s1[0], s2[0]])
                return self.p(node, s1[1]), (node, s1[1])
            return "(" + t1 + (" ∨ " if op is ast.Or else " ∧ ") + t2 + ")", None

        if b[0] == "if" and b[2] == a:
            txt2, src2 = both(ast.Or, src, b[4], txt, b[1])
            return self._merge(("if", txt2, a, b[3], src2))
        if a[0] == "if" and a[3] == b:
            txt2, src2 = both(ast.And, src, a[4], txt, a[1])
            return self._merge(("if", txt2, a[2], b, src2))
        return ("if", txt, a, b, src)

    def show(self, t: tuple, ind: str, leaf=lambda x: x) -> str:
        if t[0] == "leaf":
            return ind + leaf(t[1])
        return (f"{ind}if {t[1]} then\n" + self.show(t[2], ind + "  ", leaf)
                + f"\n{ind}else\n" + self.show(t[3], ind + "  ", leaf))

    def _branch(self, test: ast.expr, env: dict, yes, no) -> tuple:
        """The node for `if test: yes() else: no()`; a test settled by the caller's assumptions takes one arm only."""
        if self.decide is not None:
            test = self.settle(test, env)
            if isinstance(test, bool):
                return yes() if test else no()
        # look through `not` and through locals that merely name a condition
        pol, tenv = True, env
        while True:
            test, q = strip_nots(test)
            pol = pol == q
            if isinstance(test, ast.Name) and test.id in tenv and tenv[test.id][0] == "p" and len(tenv[test.id]) > 2:
                test, tenv = tenv[test.id][2]
                continue
            break
        if self.decide is not None:
            test = self.settle(test, tenv)
            if isinstance(test, bool):
                return (yes() if test else no()) if pol else (no() if test else yes())
        if isinstance(test, ast.Compare):  # a comparison of two literals is decided here
            try:
                links = self._links(test, tenv)
            except Unsupported:
                links = []
            cs = [(self._const(l), o, self._const(r)) for l, o, r in links]
            if cs and all(a is not None and b is not None for a, _, b in cs):
                ops = {"<": lambda a, b: a < b, "≤": lambda a, b: a <= b, "=": lambda a, b: a == b, "≠": lambda a, b: a != b}
                d = all(ops[o](a, b) for a, o, b in cs)
                return (yes() if d else no()) if pol else (no() if d else yes())
        neg, txt = self.polarity(test, tenv)
        src = (test, tenv)
        if neg:
            src = (ast.UnaryOp(op=ast.Not(), operand=test), tenv)
        if pol == (not neg):
            return ("if", txt, yes(), no(), src)
        return ("if", txt, no(), yes(), src)

    def settle(self, test: ast.expr, env: dict):
        """`test` with every part that the caller's assumptions decide (`self.decide`) evaluated: True / False, or the
        residual test (`False or c` = `c`, `True and c` = `c`)."""
        d = self.decide(test, env)
        if d is not None:
            return d
        if isinstance(test, ast.UnaryOp) and isinstance(test.op, ast.Not):
            r = self.settle(test.operand, env)
            return (not r) if isinstance(r, bool) else (test if r is test.operand else ast.UnaryOp(op=ast.Not(), operand=r))
        if isinstance(test, ast.BoolOp):
            is_and = isinstance(test.op, ast.And)
            rest = []
            for v in test.values:
                r = self.settle(v, env)
                if isinstance(r, bool):
                    if r != is_and:
                        return r  # a False conjunct / a True disjunct settles it
                    continue
                rest.append(r)
            if not rest:
                return is_and
            return rest[0] if len(rest) == 1 else ast.BoolOp(op=test.op, values=rest)
        return test

    @staticmethod
    def _const(text: str) -> Fraction | None:
        import re
        m = re.fullmatch(r"\((-?\d+) : Rat\)", text)
        if m:
            return Fraction(int(m.group(1)))
        m = re.fullmatch(r"\(\((-?\d+) : Rat\) / (\d+)\)", text)
        if m:
            return Fraction(int(m.group(1)), int(m.group(2)))
        m = re.fullmatch(r"\(-(.*)\)", text)
        if m:
            c = CTr._const(m.group(1))
            return None if c is None else -c
        return None

    def value(self, n: ast.expr, env: dict) -> tuple:
        """The symbolic value of an expression without branching: ("v", term) | ("p", prop, def) | ("none",) | ("t", [..])
        | ("o",) for what the translator does not model (it may be stored and passed on, never computed with)."""
        if isinstance(n, ast.Constant) and n.value is None:
            return ("none",)
        if isinstance(n, ast.Name) and n.id in env:
            return env[n.id]
        if isinstance(n, ast.Tuple):
            return ("t", [self.value(x, env) for x in n.elts])
        src = ast.unparse(n)
        if Tr.is_boolish(n) or (src in self.attrs and self.attrs[src][0] == "p"):
            try:
                return ("p", self.p(n, env), (n, dict(env)))
            except Unsupported:
                return ("o",)
        try:
            return ("v", self.e(n, env))
        except Unsupported:
            return ("o",)

    def valk(self, n: ast.expr, env: dict, k) -> tuple:
        """Evaluate `n` and continue with `k(value)` in every branch the evaluation takes: conditional expressions,
        (with `expand_minmax`) two-argument `max` / `min`, and calls of statement-bodied helpers branch."""
        if isinstance(n, ast.IfExp):
            return self._branch(n.test, env, lambda: self.valk(n.body, env, k), lambda: self.valk(n.orelse, env, k))
        if isinstance(n, ast.Call):
            f = ast.unparse(n.func)
            if f in self.helpers:
                fn, params = self.helpers[f]
                if any(isinstance(a, ast.Starred) for a in n.args) or any(kw.arg is None for kw in n.keywords):
                    raise Unsupported(f"call {f}(*…)")
                bind: dict[str, ast.expr] = dict(zip(params, n.args))
                for kw in n.keywords:
                    if kw.arg not in params or kw.arg in bind:
                        raise Unsupported(f"call {f}: argument {kw.arg}")
                    bind[kw.arg] = kw.value  # type: ignore[index]
                defaults = dict(zip(reversed([a.arg for a in fn.args.args]), reversed(fn.args.defaults)))
                if len(n.args) > len(params) or not set(params) <= set(bind) | set(defaults):
                    raise Unsupported(f"call {f}: arguments")

                def go(i: int, henv: dict) -> tuple:
                    if i == len(params):
                        exits = Exits(fall=lambda e: k(("none",)),
                                      ret=lambda v, e: k(("none",)) if v is None else self.valk(v, e, k), cont=None)
                        return self._tree(body_no_doc(fn), henv, exits)
                    q = params[i]
                    if q in bind:
                        return self.valk(bind[q], env, lambda v: go(i + 1, {**henv, q: v}))
                    return self.valk(defaults[q], {}, lambda v: go(i + 1, {**henv, q: v}))

                return go(0, {})
            if self.expand_minmax and f in ("max", "min") and len(n.args) == 2 and not n.keywords:
                def second(va: tuple) -> tuple:
                    def cmp(vb: tuple) -> tuple:
                        if va[0] != "v" or vb[0] != "v":
                            raise Unsupported(f"{f}(...) of a value the translator does not model")
                        a, b = va[1], vb[1]
                        # max(a, b) = b if b > a else a;  min(a, b) = b if b < a else a
                        l, r = (a, b) if f == "max" else (b, a)
                        ca, cb = self._const(l), self._const(r)
                        if ca is not None and cb is not None:
                            return k(vb) if ca < cb else k(va)
                        return ("if", f"({l} < {r})", k(vb), k(va), None)
                    return self.valk(n.args[1], env, cmp)
                return self.valk(n.args[0], env, second)
        if self.expand_minmax and isinstance(n, ast.BinOp) and self._branches(n):
            sym = {ast.Add: "+", ast.Sub: "-", ast.Mult: "*", ast.Div: "/"}.get(type(n.op))
            if sym is None:
                raise Unsupported(f"operator in {ast.unparse(n)}")

            def right(va: tuple) -> tuple:
                def done(vb: tuple) -> tuple:
                    if va[0] != "v" or vb[0] != "v":
                        return k(("o",))
                    return k(("v", f"({va[1]} {sym} {vb[1]})"))
                return self.valk(n.right, env, done)
            return self.valk(n.left, env, right)
        if isinstance(n, ast.Tuple) and self._branches(n):
            def elt(i: int, acc: list) -> tuple:
                if i == len(n.elts):
                    return k(("t", acc))
                return self.valk(n.elts[i], env, lambda v: elt(i + 1, acc + [v]))
            return elt(0, [])
        return k(self.value(n, env))

    def _branches(self, n: ast.AST) -> bool:
        return any(isinstance(x, ast.IfExp) or (isinstance(x, ast.Call) and (
            ast.unparse(x.func) in self.helpers or (self.expand_minmax and ast.unparse(x.func) in ("max", "min")
                                                    and len(x.args) == 2))) for x in ast.walk(n))

    def _tree(self, stmts: list[ast.stmt], env: dict, k: "Exits") -> tuple:
        if not stmts:
            if k.fall is None:
                raise Unsupported("control falls off the end of the translated block")
            return k.fall(env)
        s, rest = stmts[0], stmts[1:]
        if self.bind is not None:
            e2 = self.bind(s, env)
            if e2 is not None:
                return self._tree(rest, e2, k)
        if isinstance(s, ast.Expr):
            if isinstance(s.value, ast.Constant) and isinstance(s.value.value, str):
                return self._tree(rest, env, k)
            if isinstance(s.value, ast.Call) and ast.unparse(s.value.func).startswith("_logger."):
                return self._tree(rest, env, k)
            raise Unsupported(f"statement {ast.unparse(s)[:60]}")
        if isinstance(s, (ast.Assert, ast.Pass)):
            return self._tree(rest, env, k)  # preconditions: part of the model's well-formedness
        if isinstance(s, (ast.Assign, ast.AnnAssign, ast.AugAssign)):
            if isinstance(s, ast.Assign):
                if len(s.targets) != 1:
                    raise Unsupported("multiple assignment")
                tgt, val = s.targets[0], s.value
            elif isinstance(s, ast.AnnAssign):
                if s.value is None:
                    return self._tree(rest, env, k)
                tgt, val = s.target, s.value
            else:
                tgt = s.target
                if not isinstance(s.op, (ast.Add, ast.Sub, ast.Mult)):
                    raise Unsupported("augmented assignment operator")
                val = ast.BinOp(left=ast.Name(id=getattr(tgt, "id", "?"), ctx=ast.Load()), op=s.op, right=s.value)
            names = [tgt] if isinstance(tgt, ast.Name) else (list(tgt.elts) if isinstance(tgt, ast.Tuple) else [])
            if not names or not all(isinstance(x, ast.Name) for x in names):
                raise Unsupported(f"assignment target {ast.unparse(tgt)}")
            if isinstance(tgt, ast.Name) and tgt.id in self.skip_targets:
                return self._tree(rest, env, k)

            def assigned(v: tuple) -> tuple:
                env2 = dict(env)
                if isinstance(tgt, ast.Name):
                    env2[tgt.id] = v
                elif v[0] == "t" and len(v[1]) == len(names):
                    for x, xv in zip(names, v[1]):
                        env2[x.id] = xv  # type: ignore[attr-defined]
                elif v[0] == "o":
                    for x in names:
                        env2[x.id] = ("o",)  # type: ignore[attr-defined]
                else:
                    raise Unsupported(f"cannot unpack {ast.unparse(val)[:50]}")
                return self._tree(rest, env2, k)

            return self.valk(val, env, assigned)
        if isinstance(s, ast.If):
            return self._branch(s.test, env, lambda: self._tree(s.body + rest, env, k),
                                lambda: self._tree(s.orelse + rest, env, k))
        if isinstance(s, ast.Return):
            if k.ret is None:
                raise Unsupported("return in a block without return mapping")
            if isinstance(s.value, ast.IfExp):  # `return a if c else b`
                v = s.value
                return self._branch(v.test, env, lambda: self._tree([ast.Return(value=v.body)], env, k),
                                    lambda: self._tree([ast.Return(value=v.orelse)], env, k))
            return k.ret(s.value, env)
        if isinstance(s, ast.Continue):
            if k.cont is None:
                raise Unsupported("continue outside a loop segment")
            return k.cont(env)
        raise Unsupported(f"statement {type(s).__name__}: {ast.unparse(s)[:60]}")


class Exits:
    """What happens at the three kinds of exit of a translated block (each returns a decision tree)."""

    def __init__(self, fall=None, ret=None, cont=None):
        self.fall, self.ret, self.cont = fall, ret, cont


class _SubstNames(ast.NodeTransformer):
    def __init__(self, m: dict[str, ast.expr]):
        self.m = m

    def visit_Name(self, node: ast.Name) -> ast.AST:  # noqa: N802
        if isinstance(node.ctx, ast.Load) and node.id in self.m:
            import copy
            return copy.deepcopy(self.m[node.id])
        return node


def inline_helpers(fn: ast.FunctionDef, scopes: list[ast.AST], keep: tuple[str, ...] = ()) -> ast.FunctionDef:
    """Calls of `self._h(...)` / `_h(...)` whose definition (a method of the class / a function of the module in
    `scopes`) is a single `return <expr>` are replaced by that expression with the arguments substituted
    (extracted-helper refactors).  Anything else is left as a call (and later refused by the translator)."""
    import copy
    methods: dict[str, ast.FunctionDef] = {}
    functions: dict[str, ast.FunctionDef] = {}
    for holder in scopes:
        for m in getattr(holder, "body", []):
            if not isinstance(m, ast.FunctionDef) or m.name == fn.name or m.name in keep:
                continue
            body = [s for s in m.body if not (isinstance(s, ast.Expr) and isinstance(s.value, ast.Constant))]
            if len(body) == 1 and isinstance(body[0], ast.Return) and body[0].value is not None \
                    and not (m.args.vararg or m.args.kwarg or m.args.kwonlyargs or m.args.posonlyargs):
                (methods if isinstance(holder, ast.ClassDef) else functions)[m.name] = m

    def expand(m: ast.FunctionDef, params: list[str], node: ast.Call) -> ast.AST:
        if any(isinstance(a, ast.Starred) for a in node.args) or any(k.arg is None for k in node.keywords):
            return node
        bind: dict[str, ast.expr] = dict(zip(params, node.args))
        for k in node.keywords:
            if k.arg not in params or k.arg in bind:
                return node
            bind[k.arg] = k.value  # type: ignore[index]
        defaults = dict(zip(reversed([a.arg for a in m.args.args]), reversed(m.args.defaults)))
        for q in params:
            if q not in bind and q in defaults:
                bind[q] = defaults[q]
        if len(node.args) > len(params) or set(bind) != set(params):
            return node
        body = [s for s in m.body if not (isinstance(s, ast.Expr) and isinstance(s.value, ast.Constant))]
        return _SubstNames(bind).visit(copy.deepcopy(body[0].value))  # type: ignore[attr-defined]

    class V(ast.NodeTransformer):
        def visit_Call(self, node: ast.Call) -> ast.AST:  # noqa: N802
            self.generic_visit(node)
            f = node.func
            if isinstance(f, ast.Attribute) and isinstance(f.value, ast.Name) and f.value.id == "self" and f.attr in methods:
                m = methods[f.attr]
                params = [a.arg for a in m.args.args]
                if any(ast.unparse(d) == "staticmethod" for d in m.decorator_list):
                    return expand(m, params, node)
                if m.decorator_list or not params:
                    return node
                return expand(m, params[1:], node)
            if isinstance(f, ast.Name) and f.id in functions and not functions[f.id].decorator_list:
                return expand(functions[f.id], [a.arg for a in functions[f.id].args.args], node)
            return node

    return ast.fix_missing_locations(V().visit(copy.deepcopy(fn)))


# --------------------------------------------------------------------------------------- AST navigation
def parse(repo: pathlib.Path, rel: str) -> ast.Module:
    return ast.parse((repo / rel).read_text())


def find_func(tree: ast.AST, name: str, cls: str | None = None) -> ast.FunctionDef:
    scope: ast.AST = tree
    if cls is not None:
        scope = next((n for n in ast.walk(tree) if isinstance(n, ast.ClassDef) and n.name == cls), None)  # type: ignore[assignment]
        if scope is None:
            raise Unsupported(f"class {cls} not found")
    for n in ast.walk(scope):
        if isinstance(n, (ast.FunctionDef, ast.AsyncFunctionDef)) and n.name == name:
            return n  # type: ignore[return-value]
    raise Unsupported(f"function {cls + '.' if cls else ''}{name} not found")


def body_no_doc(fn: ast.FunctionDef) -> list[ast.stmt]:
    b = list(fn.body)
    if b and isinstance(b[0], ast.Expr) and isinstance(b[0].value, ast.Constant) and isinstance(b[0].value.value, str):
        b = b[1:]
    return b


def str_list(node: ast.expr, what: str) -> list[str]:
    if not isinstance(node, (ast.List, ast.Tuple)) or not all(isinstance(e, ast.Constant) and isinstance(e.value, str) for e in node.elts):
        raise Unsupported(f"{what}: expected a list / tuple of string literals")
    return [e.value for e in node.elts]  # type: ignore[attr-defined]


def metric_list(node: ast.expr, what: str) -> list[str]:
    if not isinstance(node, ast.List):
        raise Unsupported(f"{what}: expected a list")
    out = []
    for e in node.elts:
        if not (isinstance(e, ast.Attribute) and ast.unparse(e.value) == "ComponentMetricId"):
            raise Unsupported(f"{what}: expected ComponentMetricId.X entries")
        out.append(e.attr)
    return out


def lean_strs(xs: list[str]) -> str:
    return "[" + ", ".join(f'"{x}"' for x in xs) + "]"


def assigned_value(stmts: list[ast.stmt], target_src: str) -> ast.expr:
    for s in stmts:
        for n in ast.walk(s):
            if isinstance(n, ast.Assign) and len(n.targets) == 1 and ast.unparse(n.targets[0]) == target_src:
                return n.value
            if isinstance(n, ast.AnnAssign) and n.value is not None and ast.unparse(n.target) == target_src:
                return n.value
    raise Unsupported(f"assignment to {target_src} not found")


# --------------------------------------------------------------------------------------- sites
def _params(fn: ast.FunctionDef, n: int, what: str, method: bool = False) -> list[str]:
    """Positional parameter names (without `self`); the count is checked, the names are not."""
    a = fn.args
    if a.vararg or a.kwarg or a.kwonlyargs or a.posonlyargs:
        raise Unsupported(f"{what}: signature")
    names = [x.arg for x in a.args]
    if method:
        if not names:
            raise Unsupported(f"{what}: signature")
        names = names[1:]
    if len(names) != n:
        raise Unsupported(f"{what}: expected {n} parameters, found {names}")
    return names


def _class_of(tree: ast.AST, cls: str) -> ast.ClassDef:
    c = next((n for n in ast.walk(tree) if isinstance(n, ast.ClassDef) and n.name == cls), None)
    if c is None:
        raise Unsupported(f"class {cls} not found")
    return c


PB_FIELDS: list[str] = []


def gen_math(repo: pathlib.Path) -> str:
    tree = parse(repo, P_MATH)
    fn = find_func(tree, "is_close_to_zero")
    value, abs_tol = _params(fn, 2, "is_close_to_zero")
    if len(fn.args.defaults) != 1:
        raise Unsupported("is_close_to_zero signature")
    d = fn.args.defaults[0]
    if not (isinstance(d, ast.Constant) and isinstance(d.value, (int, float)) and not isinstance(d.value, bool)):
        raise Unsupported("is_close_to_zero abs_tol default")
    fn = inline_helpers(fn, [tree])
    tr = CTr()
    env = {value: ("v", "value"), abs_tol: ("v", "abs_tol")}
    body = tr.block(body_no_doc(fn), env, "  ", None, ret=lambda v, env: tr.p(v, env))
    return (f"/-- default `abs_tol` of `_math.is_close_to_zero` -/\n"
            f"def closeToZeroAbsTol : Rat := {rat_lit(d.value)}\n\n"
            f"/-- `_math.is_close_to_zero` -/\n"
            f"def isCloseToZero (value : Rat) (abs_tol : Rat := closeToZeroAbsTol) : Prop :=\n{body}\n\n"
            f"instance (v t : Rat) : Decidable (isCloseToZero v t) := by unfold isCloseToZero; infer_instance\n")


def gen_powerbounds_struct(repo: pathlib.Path) -> str:
    tree = parse(repo, P_RESULT)
    cls = next((n for n in tree.body if isinstance(n, ast.ClassDef) and n.name == "PowerBounds"), None)
    if cls is None:
        raise Unsupported("result.PowerBounds not found")
    fields = [s.target.id for s in cls.body if isinstance(s, ast.AnnAssign) and isinstance(s.target, ast.Name)
              and ast.unparse(s.annotation) == "float"]
    if sorted(fields) != sorted(["inclusion_lower", "exclusion_lower", "exclusion_upper", "inclusion_upper"]):
        raise Unsupported(f"PowerBounds fields changed: {fields}")
    PB_FIELDS[:] = fields
    return ("/-- `result.PowerBounds` -/\nstructure PowerBounds where\n"
            + "".join(f"  {f} : Rat\n" for f in fields) + "deriving Repr, DecidableEq\n")


def gen_algo(repo: pathlib.Path) -> str:
    tree = parse(repo, P_ALGO)
    fn = find_func(tree, "_aggregate_battery_power_bounds")
    (metrics,) = _params(fn, 1, "_aggregate_battery_power_bounds")
    fn = inline_helpers(fn, [tree])
    tr = CTr(pb_fields=PB_FIELDS)
    body = tr.block(fold_sum_loops(body_no_doc(fn)), {metrics: ("v", "battery_metrics")}, "  ", None,
                    ret=lambda v, env: tr.e(v, env))
    out = ("/-- `_aggregate_battery_power_bounds` (precondition `len(battery_metrics) > 0`) -/\n"
           f"def aggregateBatteryPowerBounds (battery_metrics : List PowerBounds) : PowerBounds :=\n{body}\n\n")
    # AggregatedBatteryData.__init__: self.power_bounds = _aggregate_battery_power_bounds(<PowerBounds(...) of each battery>)
    cls = _class_of(tree, "AggregatedBatteryData")
    init = inline_helpers(find_func(cls, "__init__"), [cls, tree])
    (batteries,) = _params(init, 1, "AggregatedBatteryData.__init__", method=True)
    vals = [n.value for n in ast.walk(init) if isinstance(n, (ast.Assign, ast.AnnAssign)) and n.value is not None
            and ast.unparse(n.targets[0] if isinstance(n, ast.Assign) else n.target) == "self.power_bounds"]
    if len(vals) != 1:
        raise Unsupported("AggregatedBatteryData.__init__: expected exactly one assignment to self.power_bounds")
    val = vals[0]
    if not (isinstance(val, ast.Call) and ast.unparse(val.func) == "_aggregate_battery_power_bounds"
            and len(val.args) == 1 and not val.keywords):
        raise Unsupported("AggregatedBatteryData.power_bounds: expected _aggregate_battery_power_bounds(<one list>)")
    inner = val.args[0]
    if isinstance(inner, ast.Name):  # a local holding the list
        defs = [n.value for n in ast.walk(init) if isinstance(n, (ast.Assign, ast.AnnAssign)) and n.value is not None
                and ast.unparse(n.targets[0] if isinstance(n, ast.Assign) else n.target) == inner.id]
        if len(defs) != 1:
            raise Unsupported(f"AggregatedBatteryData.power_bounds: `{inner.id}` is not assigned exactly once")
        inner = defs[0]
    while isinstance(inner, ast.Call) and ast.unparse(inner.func) in ("list", "tuple") and len(inner.args) == 1 and not inner.keywords:
        inner = inner.args[0]
    var = elt = None
    if isinstance(inner, ast.Call) and ast.unparse(inner.func) == "map" and len(inner.args) == 2 and not inner.keywords \
            and isinstance(inner.args[0], ast.Lambda) and len(inner.args[0].args.args) == 1 \
            and ast.unparse(inner.args[1]) == batteries:
        var, elt = inner.args[0].args.args[0].arg, inner.args[0].body
    elif isinstance(inner, (ast.ListComp, ast.GeneratorExp)) and len(inner.generators) == 1 \
            and not inner.generators[0].ifs and isinstance(inner.generators[0].target, ast.Name) \
            and ast.unparse(inner.generators[0].iter) == batteries:
        var, elt = inner.generators[0].target.id, inner.elt
    elif isinstance(inner, ast.Call) and ast.unparse(inner.func) == "map" and len(inner.args) == 2 and not inner.keywords \
            and isinstance(inner.args[0], ast.Name) and ast.unparse(inner.args[1]) == batteries:
        # `map(<module-level function>, batteries)`: a function of one parameter whose body is `return <expression>`
        hf = next((f for f in tree.body if isinstance(f, ast.FunctionDef) and f.name == inner.args[0].id), None)
        hb = body_no_doc(hf) if hf is not None else []
        if hf is not None and len(hf.args.args) == 1 and not (hf.args.vararg or hf.args.kwarg or hf.args.kwonlyargs
                                                               or hf.args.defaults or hf.decorator_list) \
                and len(hb) == 1 and isinstance(hb[0], ast.Return) and hb[0].value is not None:
            var, elt = hf.args.args[0].arg, hb[0].value
    if var is None:
        raise Unsupported("AggregatedBatteryData.power_bounds: expected one PowerBounds(...) per element of `batteries` "
                          "(map(lambda …, batteries) or a comprehension over it)")
    out += ("/-- `AggregatedBatteryData.__init__`: per-battery `PowerBounds` handed to `_aggregate_battery_power_bounds` -/\n"
            f"def batteryPowerBounds (metrics : BatteryData) : PowerBounds :=\n  "
            f"{CTr(pb_fields=PB_FIELDS).e(elt, {var: ('v', 'metrics')})}\n")
    return out


def _top_assign(stmts: list[ast.stmt], pred, what: str) -> tuple[int, str]:
    hits = [(i, s) for i, s in enumerate(stmts) if isinstance(s, (ast.Assign, ast.AnnAssign)) and s.value is not None
            and pred(s.value)]
    if len(hits) != 1:
        raise Unsupported(f"_check_request: expected exactly one top-level `{what}`, found {len(hits)}")
    i, s = hits[0]
    tgt = s.targets[0] if isinstance(s, ast.Assign) and len(s.targets) == 1 else getattr(s, "target", None)
    if not isinstance(tgt, ast.Name):
        raise Unsupported(f"_check_request: target of `{what}`")
    return i, tgt.id


def _crucial_lists(fn: ast.FunctionDef, module: ast.AST | None = None) -> tuple[list[str], list[str]]:
    """The metric lists whose NaN check guards the battery data resp. the inverter data of the returned pair.

    Roles: the function returns `InvBatPair(AggregatedBatteryData(B), I)`; before that, `if <check>(B, L1): return None`
    and `if <check>(I, L2): return None` where `<check>` is the local NaN test and `L1`/`L2` are lists of string
    literals (given inline or through a local)."""
    rets = [s for s in ast.walk(fn) if isinstance(s, ast.Return) and isinstance(s.value, ast.Call)
            and ast.unparse(s.value.func) == "InvBatPair"]
    if len(rets) != 1:
        raise Unsupported("_get_battery_inverter_data: expected exactly one `return InvBatPair(...)`")
    call = rets[0].value
    args = list(call.args) + [k.value for k in call.keywords]  # type: ignore[attr-defined]
    kw = {k.arg: k.value for k in call.keywords}  # type: ignore[attr-defined]
    bat = kw.get("battery", args[0] if call.args else None)  # type: ignore[attr-defined]
    inv = kw.get("inverter", call.args[1] if len(call.args) > 1 else None)  # type: ignore[attr-defined]
    if not (isinstance(bat, ast.Call) and ast.unparse(bat.func) == "AggregatedBatteryData" and len(bat.args) == 1
            and isinstance(bat.args[0], ast.Name) and isinstance(inv, ast.Name)):
        raise Unsupported("_get_battery_inverter_data: expected InvBatPair(AggregatedBatteryData(<batteries>), <inverters>)")
    bvar, ivar = bat.args[0].id, inv.id

    def lit(n: ast.expr) -> list[str]:
        if isinstance(n, ast.Name):
            defs = [x.value for x in ast.walk(fn) if isinstance(x, (ast.Assign, ast.AnnAssign)) and x.value is not None
                    and ast.unparse(x.targets[0] if isinstance(x, ast.Assign) else x.target) == n.id]
            if not defs and module is not None and not any(
                    isinstance(x, ast.Name) and x.id == n.id and isinstance(x.ctx, (ast.Store, ast.Del)) for x in ast.walk(fn)):
                # a module-level constant (assigned once at top level, never rebound: no `global` statement names it)
                defs = [x.value for x in getattr(module, "body", []) if isinstance(x, (ast.Assign, ast.AnnAssign)) and x.value is not None
                        and ast.unparse(x.targets[0] if isinstance(x, ast.Assign) else x.target) == n.id]
                if any(isinstance(g, ast.Global) and n.id in g.names for g in ast.walk(module)):
                    defs = []
            if len(defs) != 1:
                raise Unsupported(f"_get_battery_inverter_data: `{n.id}` is not assigned exactly once")
            n = defs[0]
        return str_list(n, "crucial metrics")

    found: dict[str, list[str]] = {}
    for s in fn.body:
        if not isinstance(s, ast.If):
            continue
        test = s.test
        if not (isinstance(test, ast.Call) and isinstance(test.func, ast.Name) and len(test.args) == 2 and not test.keywords
                and isinstance(test.args[0], ast.Name) and test.args[0].id in (bvar, ivar)):
            continue
        body = [x for x in s.body if not (isinstance(x, ast.Expr) and isinstance(x.value, ast.Call)
                                          and ast.unparse(x.value.func).startswith("_logger."))]
        if not (len(body) == 1 and isinstance(body[0], ast.Return) and (body[0].value is None or (
                isinstance(body[0].value, ast.Constant) and body[0].value.value is None)) and not s.orelse):
            raise Unsupported("_get_battery_inverter_data: a NaN check no longer returns None")
        if test.args[0].id in found:
            raise Unsupported("_get_battery_inverter_data: two NaN checks of the same data")
        found[test.args[0].id] = lit(test.args[1])
    if set(found) != {bvar, ivar}:
        raise Unsupported("_get_battery_inverter_data: the NaN checks of the battery / inverter data were not found")
    return found[bvar], found[ivar]


def gen_manager(repo: pathlib.Path) -> str:
    tree = parse(repo, P_MGR)
    cls = _class_of(tree, "BatteryManager")
    # ---- _get_bounds
    fn = inline_helpers(find_func(cls, "_get_bounds"), [cls, tree])
    (pairs,) = _params(fn, 1, "_get_bounds", method=True)
    tr = CTr(pb_fields=PB_FIELDS)
    body = tr.block(fold_sum_loops(body_no_doc(fn)), {pairs: ("v", "pairs_data")}, "  ", None, ret=lambda v, env: tr.e(v, env))
    out = ("/-- `BatteryManager._get_bounds` -/\n"
           f"def getBounds (pairs_data : List (AggregatedBatteryData × List InverterData)) : PowerBounds :=\n{body}\n\n")
    # ---- _check_request: what follows `<bounds> = self._get_bounds(<pairs>)` and `<power> = <request>.power.as_watts()`
    fn = inline_helpers(find_func(cls, "_check_request"), [cls, tree], keep=("_get_bounds",))
    req, pairs = _params(fn, 2, "_check_request", method=True)
    stmts = body_no_doc(fn)
    bi, bvar = _top_assign(stmts, lambda v: ast.unparse(v) == f"self._get_bounds({pairs})", "… = self._get_bounds(pairs_data)")
    pi, pvar = _top_assign(stmts, lambda v: ast.unparse(v) == f"{req}.power.as_watts()", "… = request.power.as_watts()")
    tail = stmts[max(bi, pi) + 1:]
    for s in stmts[min(bi, pi) + 1:max(bi, pi)] + tail:
        for x in ast.walk(s):
            if isinstance(x, ast.Name) and isinstance(x.ctx, ast.Store) and x.id in (bvar, pvar, req):
                raise Unsupported(f"_check_request: `{x.id}` is reassigned")
    tr = CTr(attrs={f"{req}.adjust_power": ("p", "adjust_power = true")}, pb_fields=PB_FIELDS)

    def ret(v, env):
        if v is None or (isinstance(v, ast.Constant) and v.value is None):
            return "false"
        if isinstance(v, ast.IfExp):
            test, pol = strip_nots(v.test)
            a, b = (v.body, v.orelse) if pol else (v.orelse, v.body)
            return f"(if {tr.p(test, env)} then {ret(a, env)} else {ret(b, env)})"
        if isinstance(v, ast.Call) and ast.unparse(v.func) == "OutOfBounds":
            if v.args or {k.arg: ast.unparse(k.value) for k in v.keywords} != {"request": req, "bounds": bvar}:
                raise Unsupported("OutOfBounds(...) arguments")
            return "true"
        raise Unsupported(f"_check_request returns {ast.unparse(v)[:60]}")

    body = tr.block(tail, {bvar: ("v", "bounds"), pvar: ("v", "power")}, "  ", lambda env: "false", ret=ret)
    out += ("/-- tail of `BatteryManager._check_request` (after the id checks): `true` = answered with `OutOfBounds` -/\n"
            f"def checkRequest (bounds : PowerBounds) (power : Rat) (adjust_power : Bool) : Bool :=\n{body}\n\n")
    # ---- crucial metrics
    bat, inv = _crucial_lists(find_func(cls, "_get_battery_inverter_data"), tree)
    out += ("/-- `_get_battery_inverter_data`: a NaN in one of these drops the whole battery set -/\n"
            f"def crucialMetricsBat : List String := {lean_strs(bat)}\n"
            f"def crucialMetricsInv : List String := {lean_strs(inv)}\n")
    return out


def zero_inits(pre: list[ast.stmt], skip: set[str]) -> list[str]:
    accs = []
    for s in pre:
        tgt = val = None
        if isinstance(s, ast.Assign) and len(s.targets) == 1:
            tgt, val = s.targets[0], s.value
        elif isinstance(s, ast.AnnAssign):
            tgt, val = s.target, s.value
        if isinstance(tgt, ast.Name) and tgt.id not in skip and isinstance(val, ast.Constant) \
                and isinstance(val.value, (int, float)) and not isinstance(val.value, bool):
            if val.value != 0:
                raise Unsupported(f"accumulator {tgt.id} does not start at 0")
            accs.append(tgt.id)
    return accs


def tuple_ty(n: int) -> str:
    return " × ".join(["Rat"] * n)


def _helper_table(cls: ast.ClassDef, module: ast.AST, skip: str) -> dict[str, tuple[ast.FunctionDef, list[str]]]:
    """Statement-bodied helpers a translated method may call: methods / static methods of its class (`self.h(…)`,
    `Cls.h(…)`) and module-level functions (`h(…)`).  Their bodies are executed in place by `CTr.valk`."""
    out: dict[str, tuple[ast.FunctionDef, list[str]]] = {}
    for m in cls.body:
        if not isinstance(m, ast.FunctionDef) or m.name == skip or m.args.vararg or m.args.kwarg or m.args.kwonlyargs:
            continue
        decos = [ast.unparse(d) for d in m.decorator_list]
        params = [a.arg for a in m.args.args]
        if decos == ["staticmethod"]:
            out[f"self.{m.name}"] = out[f"{cls.name}.{m.name}"] = (m, params)
        elif not decos and params:
            out[f"{params[0]}.{m.name}"] = (m, params[1:])
    for f in getattr(module, "body", []):
        if isinstance(f, ast.FunctionDef) and not f.decorator_list and not (f.args.vararg or f.args.kwarg or f.args.kwonlyargs):
            out.setdefault(f.name, (f, [a.arg for a in f.args.args]))
    return out


def _frame(fn: ast.FunctionDef, what: str) -> tuple[list[ast.stmt], ast.For, list[ast.stmt]]:
    """`calculate` = statements before its one top-level loop, the loop, statements after it."""
    stmts = body_no_doc(fn)
    idx = [i for i, s in enumerate(stmts) if isinstance(s, (ast.For, ast.While))]
    if len(idx) != 1 or not isinstance(stmts[idx[0]], ast.For) or stmts[idx[0]].orelse:  # type: ignore[union-attr]
        raise Unsupported(f"{what}: expected exactly one top-level for-loop")
    return stmts[:idx[0]], stmts[idx[0]], stmts[idx[0] + 1:]  # type: ignore[return-value]


def _stamps(pre: list[ast.stmt]) -> set[str]:
    """Locals that start at `_MIN_TIMESTAMP` (bookkeeping of the sample time)."""
    out = set()
    for s in pre:
        t = s.targets[0] if isinstance(s, ast.Assign) and len(s.targets) == 1 else getattr(s, "target", None)
        v = getattr(s, "value", None)
        if isinstance(t, ast.Name) and isinstance(v, ast.Name) and v.id == "_MIN_TIMESTAMP":
            out.add(t.id)
    return out


def _is_none_test(test: ast.expr) -> tuple[ast.expr, bool] | None:
    """`x is None` -> (x, True); `x is not None` -> (x, False)."""
    if isinstance(test, ast.Compare) and len(test.ops) == 1 and isinstance(test.comparators[0], ast.Constant) \
            and test.comparators[0].value is None and isinstance(test.ops[0], (ast.Is, ast.IsNot, ast.Eq, ast.NotEq)):
        return test.left, isinstance(test.ops[0], (ast.Is, ast.Eq))
    return None


def _stamp_test(test: ast.expr, stamps: set[str]) -> tuple[str, bool] | None:
    """`<stamp> == _MIN_TIMESTAMP` -> (stamp, True); `!=` -> (stamp, False); either operand order."""
    if isinstance(test, ast.Compare) and len(test.ops) == 1 and isinstance(test.ops[0], (ast.Eq, ast.NotEq, ast.Is, ast.IsNot)):
        a, b = test.left, test.comparators[0]
        for x, y in ((a, b), (b, a)):
            if isinstance(x, ast.Name) and x.id in stamps and isinstance(y, ast.Name) and y.id == "_MIN_TIMESTAMP":
                return x.id, isinstance(test.ops[0], (ast.Eq, ast.Is))
    return None


def _stamp_update(s: ast.stmt, stamps: set[str]) -> str | None:
    """`<stamp> = max(<stamp>, <a sample time>)` (either argument order) -> the stamp."""
    if isinstance(s, ast.Assign) and len(s.targets) == 1 and isinstance(s.targets[0], ast.Name) and s.targets[0].id in stamps \
            and isinstance(s.value, ast.Call) and ast.unparse(s.value.func) == "max" and len(s.value.args) == 2 \
            and not s.value.keywords and any(isinstance(a, ast.Name) and a.id == s.targets[0].id for a in s.value.args):
        return s.targets[0].id
    return None


def _sample_value(v: ast.expr | None, what: str) -> ast.expr | None:
    """The `value` of a returned `Sample(timestamp, value)` / `Sample[T](timestamp=…, value=…)`."""
    if not (isinstance(v, ast.Call) and ast.unparse(v.func).split("[")[0] == "Sample"):
        raise Unsupported(f"{what} returns {ast.unparse(v)[:60] if v is not None else None}")
    kw = {k.arg: k.value for k in v.keywords}
    val = kw.get("value", v.args[1] if len(v.args) > 1 else None)
    if val is None or len(v.args) > 2 or set(kw) - {"timestamp", "value"}:
        raise Unsupported(f"{what}: Sample(...) arguments")
    return val


def _subsets(xs: list[str]) -> list[set[str]]:
    out: list[set[str]] = [set()]
    for x in xs:
        out += [o | {x} for o in out]
    return out[1:]


def gen_sample_calc(tree: ast.Module, cls: str, order: list[str], prefix: str, value_ctor: str, roles) -> str:
    """SoCCalculator / CapacityCalculator.calculate, executed symbolically.

    The loop body is run once for each assumption about which of the metrics it reads are missing.  With all of them
    present it must reach the end of the body on every path, having moved the sample time forward: that is `<prefix>Step`
    (a decision tree over the arithmetic conditions, locals inlined, helpers executed in place).  With any metric
    missing it must `continue` before touching the accumulators or the sample time.  The statements after the loop are
    run with the sample time moved (-> `<prefix>Final`) and not moved (-> must return `Sample(now, None)`).
    `roles(post, accs)` names the running sums by what the result does with them: no local name, statement order or
    position matters."""
    c = _class_of(tree, cls)
    what = f"{cls}.calculate"
    fn = inline_helpers(find_func(c, "calculate"), [c, tree])
    data_p, work_p = _params(fn, 2, what, method=True)
    pre, loop, post = _frame(fn, what)
    if not (isinstance(loop.iter, ast.Name) and loop.iter.id == work_p and isinstance(loop.target, ast.Name)):
        raise Unsupported(f"{what}: the loop no longer runs over the working batteries")
    lv = loop.target.id
    stamps = _stamps(pre)
    accs = zero_inits(pre, stamps)
    named = roles(post, accs)  # [(python name, canonical name)]
    if not named or len({p for p, _ in named}) != len(named):
        raise Unsupported(f"{what}: running sums {accs} cannot be matched with the result")
    read = sorted({a.attr for n in ast.walk(loop) if isinstance(n, ast.Call) and isinstance(n.func, ast.Attribute)
                   and n.func.attr == "get" and len(n.args) == 1 for a in [n.args[0]]
                   if isinstance(a, ast.Attribute) and ast.unparse(a.value) == "ComponentMetricId"})
    if read != sorted(order):
        raise Unsupported(f"{what} reads metrics {read}, expected {sorted(order)}")
    helpers = _helper_table(c, tree, "calculate")

    def translator(absent: set[str], moved: bool | None) -> CTr:
        tr = CTr()
        tr.expand_minmax = True
        tr.helpers = helpers

        def bind(s: ast.stmt, env: dict):
            if _stamp_update(s, stamps):
                return {**env, s.targets[0].id: ("stamp", True)}  # type: ignore[attr-defined]
            if not (isinstance(s, ast.Assign) and len(s.targets) == 1 and isinstance(s.targets[0], ast.Name)):
                return None
            t, v = s.targets[0].id, s.value
            if isinstance(v, ast.Subscript) and isinstance(v.value, ast.Name) and v.value.id == data_p \
                    and isinstance(v.slice, ast.Name) and v.slice.id == lv:
                return {**env, t: ("data",)}
            if isinstance(v, ast.Call) and isinstance(v.func, ast.Attribute) and v.func.attr == "get" and len(v.args) == 1 \
                    and not v.keywords and isinstance(v.func.value, ast.Name) and env.get(v.func.value.id, ("?",))[0] == "data" \
                    and isinstance(v.args[0], ast.Attribute) and ast.unparse(v.args[0].value) == "ComponentMetricId":
                m = v.args[0].attr
                return {**env, t: ("none",) if m in absent else ("v", m.lower())}
            return None

        def decide(test: ast.expr, env: dict):
            if isinstance(test, ast.Compare) and len(test.ops) == 1 and isinstance(test.ops[0], (ast.In, ast.NotIn)) \
                    and isinstance(test.left, ast.Name) and test.left.id == lv and isinstance(test.comparators[0], ast.Name) \
                    and test.comparators[0].id == data_p:
                return isinstance(test.ops[0], ast.In)  # the battery has an entry (the others are skipped by the model)
            nt = _is_none_test(test)
            if nt is not None and isinstance(nt[0], ast.Name) and nt[0].id in env:
                kind = env[nt[0].id][0]
                if kind == "none":
                    return nt[1]
                if kind in ("v", "p", "t", "data"):
                    return not nt[1]
            st = _stamp_test(test, stamps)
            if st is not None and moved is not None:
                return st[1] != moved
            return None

        tr.bind, tr.decide = bind, decide
        return tr

    def start() -> dict:
        env: dict = {a: ("v", f"DEAD_{a}") for a in accs}
        env.update({p: ("v", cn) for p, cn in named})
        env.update({s: ("stamp", False) for s in stamps})
        return env

    def leaf(kind: str):
        def f(env: dict) -> tuple:
            vals = []
            for p, _ in named:
                if env[p][0] != "v":
                    raise Unsupported(f"{what}: `{p}` becomes a value the translator does not model")
                vals.append(env[p][1])
            return ("leaf", (kind, tuple(vals), all(env[s][1] for s in stamps) if stamps else False,
                             any(env[s][1] for s in stamps)))
        return f

    def leaves(t: tuple):
        if t[0] == "leaf":
            yield t[1]
        else:
            yield from leaves(t[2])
            yield from leaves(t[3])

    body = loop.body
    tr = translator(set(), None)
    step = tr.tree(body, start(), Exits(fall=leaf("state"), cont=leaf("skip")))
    for kind, vals, moved_all, _ in leaves(step):
        if kind != "state":
            raise Unsupported(f"{what}: a battery with all its metrics present can be skipped")
        if not moved_all:
            raise Unsupported(f"{what}: a battery that counts does not move the sample time forward")
        if any("DEAD_" in v for v in vals):
            raise Unsupported(f"{what}: a local that is not part of the result is carried from one battery to the next")
    for absent in _subsets(order):
        t = translator(absent, None).tree(body, start(), Exits(fall=leaf("state"), cont=leaf("skip")))
        init = tuple(cn for _, cn in named)
        # skipped by `continue`, or by falling through nested `if`s: either way every running value and the sample time
        # are left as they were
        if not (t[0] == "leaf" and t[1][0] in ("skip", "state") and t[1][1] == init and not t[1][3]):
            raise Unsupported(f"{what}: a battery without {sorted(absent)} is not skipped untouched")
    params = [m.lower() for m in order]
    canon = [cn for _, cn in named]
    out = (f"/-- metrics a battery needs to count in `{cls}` (order of the parameters below) -/\n"
           f"def {prefix}Required : List String := {lean_strs(order)}\n\n"
           f"/-- `{cls}.calculate`: loop body for one qualifying battery; state = ({', '.join(canon)}) -/\n"
           f"def {prefix}Step " + " ".join(f"({a} : Rat)" for a in canon) + " "
           + " ".join(f"({p} : Rat)" for p in params) + f" : {tuple_ty(len(canon))} :=\n"
           + tr.show(step, "  ", lambda x: x[1][0] if len(x[1]) == 1 else "(" + ", ".join(x[1]) + ")") + "\n\n")

    # after the loop
    def final(moved: bool) -> tuple:
        trf = translator(set(), moved)

        def ret(v, env):
            val = _sample_value(v, what)
            if isinstance(val, ast.Constant) and val.value is None:
                return ("leaf", ("nodata",))
            if not (isinstance(val, ast.Call) and ast.unparse(val.func) == value_ctor and len(val.args) + len(val.keywords) == 1):
                raise Unsupported(f"{what}: expected {value_ctor}(x)")
            inner = val.args[0] if val.args else val.keywords[0].value
            def done(x: tuple) -> tuple:
                if x[0] != "v":
                    raise Unsupported(f"{what}: the result is a value the translator does not model")
                return ("leaf", ("value", x[1]))

            return trf.valk(inner, env, done)

        return trf.tree(post, start(), Exits(ret=ret))

    if final(False) != ("leaf", ("nodata",)):
        raise Unsupported(f"{what}: without a qualifying battery the result is not `Sample(now, None)`")
    fin = final(True)
    if any(x[0] != "value" or "DEAD_" in x[1] for x in leaves(fin)):
        raise Unsupported(f"{what}: with a qualifying battery the result is not a value of the running sums")
    out += (f"/-- `{cls}.calculate`: value returned once at least one battery qualified -/\n"
            f"def {prefix}Final " + " ".join(f"({a} : Rat)" for a in canon) + " : Rat :=\n"
            + tr.show(fin, "  ", lambda x: x[1]) + "\n")
    return out


def soc_roles(post: list[ast.stmt], accs: list[str]) -> list[tuple[str, str]]:
    """total = the running sum tested with `is_close_to_zero`; used = the other one the result reads."""
    inside = {n.id for s in post for c in ast.walk(s) if isinstance(c, ast.Call) and ast.unparse(c.func).endswith("is_close_to_zero")
              for n in ast.walk(c) if isinstance(n, ast.Name) and n.id in accs}
    read = {n.id for s in post for n in ast.walk(s) if isinstance(n, ast.Name) and isinstance(n.ctx, ast.Load) and n.id in accs}
    if len(inside) != 1 or len(read - inside) != 1:
        return []
    return [((read - inside).pop(), "used_capacity_x100"), (inside.pop(), "total_capacity_x100")]


def cap_roles(post: list[ast.stmt], accs: list[str]) -> list[tuple[str, str]]:
    read = {n.id for s in post for n in ast.walk(s) if isinstance(n, ast.Name) and isinstance(n.ctx, ast.Load) and n.id in accs}
    return [(read.pop(), "total_capacity")] if len(read) == 1 else []


def stmt_paths(stmts: list[ast.stmt], path: tuple = ()):
    """(simple statement, path) for every statement on every path through a statement list; statements after an `if`
    continue both arms, a path ends at `return` / `raise`; loops and `with` are not entered."""
    for i, s in enumerate(stmts):
        if isinstance(s, ast.If):
            yield from stmt_paths(s.body + stmts[i + 1:], path + ((s.test, True),))
            yield from stmt_paths(s.orelse + stmts[i + 1:], path + ((s.test, False),))
            return
        yield s, path
        if isinstance(s, (ast.Return, ast.Raise)):
            return


def gen_validated_bounds(c: ast.ClassDef) -> str:
    """The function that turns the fetched values of one component into `PowerBounds(results[0], …)` — a closure of
    `calculate`, a method or a static method, whatever its name and its other parameters / results.  Established:
    the bounds are built on exactly the paths where `len(results) == len(<metric ids parameter>)`, and every other
    path returns `None` (alone or as the first component of a tuple)."""
    cands = [f for f in ast.walk(c) if isinstance(f, ast.FunctionDef)
             and any(isinstance(n, ast.Call) and ast.unparse(n.func) == "PowerBounds" for s in f.body
                     for n in ast.walk(s) if not isinstance(s, ast.FunctionDef))]
    if len(cands) != 1:
        raise Unsupported(f"PowerBoundsCalculator: expected one function building PowerBounds(...) from the fetched values, found {len(cands)}")
    gv = cands[0]
    params = {a.arg for a in gv.args.args}
    body = [s for s in body_no_doc(gv) if not isinstance(s, ast.Nonlocal)]
    calls = [n for s in body for n in ast.walk(s) if isinstance(n, ast.Call) and ast.unparse(n.func) == "PowerBounds"]
    if len(calls) != 1:
        raise Unsupported("get_validated_bounds: expected exactly one PowerBounds(...)")
    call = calls[0]
    res_vars = {x.value.id for x in ast.walk(call) if isinstance(x, ast.Subscript) and isinstance(x.value, ast.Name)}
    if len(res_vars) != 1:
        raise Unsupported("get_validated_bounds: the returned bounds are no longer read from one list of results")
    (results,) = res_vars

    def complete(path: tuple) -> bool | None:
        """True / False: the path has established len(results) == / != len(ids); None: neither."""
        out = None
        for test, pol in path:
            t, q = strip_nots(test)
            if isinstance(t, ast.Compare) and len(t.ops) == 1 and isinstance(t.ops[0], (ast.Eq, ast.NotEq)):
                sides = [t.left, t.comparators[0]]
                srcs = [ast.unparse(x) for x in sides]
                if f"len({results})" in srcs and all(isinstance(x, ast.Call) and ast.unparse(x.func) == "len" and len(x.args) == 1
                                                     for x in sides):
                    other = sides[1 - srcs.index(f"len({results})")].args[0]  # type: ignore[attr-defined]
                    if isinstance(other, ast.Name) and other.id in params:
                        out = (isinstance(t.ops[0], ast.Eq) == (pol == q))
        return out

    holder = None  # local the bounds are assigned to, if any
    seen_build = False
    for s, path in stmt_paths(body):
        has = any(n is call for n in ast.walk(s))
        if has:
            seen_build = True
            if complete(path) is not True:
                raise Unsupported("get_validated_bounds: PowerBounds(...) is built without `len(results) == len(comp_metric_ids)`")
            if isinstance(s, ast.Assign) and len(s.targets) == 1 and isinstance(s.targets[0], ast.Name) and s.value is call:
                holder = s.targets[0].id
            elif not (isinstance(s, ast.Return) and (s.value is call or (isinstance(s.value, ast.Tuple) and s.value.elts[0] is call))):
                raise Unsupported("get_validated_bounds: PowerBounds(...) is neither returned nor assigned to a local")
        if isinstance(s, ast.Return):
            v = s.value.elts[0] if isinstance(s.value, ast.Tuple) and s.value.elts else s.value
            is_none = v is None or (isinstance(v, ast.Constant) and v.value is None)
            is_bounds = v is call or (isinstance(v, ast.Name) and holder is not None and v.id == holder)
            ok = complete(path)
            if ok is True and not is_bounds:
                raise Unsupported("get_validated_bounds: a component with all its metrics does not return its bounds")
            if ok is not True and not is_none:
                raise Unsupported("get_validated_bounds: the `len(results) != len(comp_metric_ids)` guard changed")
    if not seen_build:
        raise Unsupported("get_validated_bounds: PowerBounds(...) is unreachable")
    return ("/-- `get_validated_bounds`: `results` = the present values, in the order of the metric id list -/\n"
            f"def validatedBounds (results : List Rat) : PowerBounds :=\n  "
            f"{CTr(pb_fields=PB_FIELDS).e(call, {results: ('v', 'results')})}\n\n")


def _empty_test(test: ast.expr) -> tuple[str, bool] | None:
    """(list variable, True if the test holds when the list is EMPTY): `len(x) == 0`, `not x`, `x`, `len(x) > 0`, …"""
    t, pol = strip_nots(test)
    if isinstance(t, ast.Name):
        return t.id, not pol
    if isinstance(t, ast.Compare) and len(t.ops) == 1:
        a, b = t.left, t.comparators[0]
        op = type(t.ops[0])
        if isinstance(b, ast.Call) and ast.unparse(b.func) == "len":  # constant on the left: mirror
            a, b = b, a
            op = {ast.Lt: ast.Gt, ast.Gt: ast.Lt, ast.LtE: ast.GtE, ast.GtE: ast.LtE}.get(op, op)
        if isinstance(a, ast.Call) and ast.unparse(a.func) == "len" and len(a.args) == 1 and isinstance(a.args[0], ast.Name) \
                and isinstance(b, ast.Constant) and isinstance(b.value, int) and not isinstance(b.value, bool):
            table = {(ast.Eq, 0): True, (ast.NotEq, 0): False, (ast.Gt, 0): False, (ast.LtE, 0): True,
                     (ast.Lt, 1): True, (ast.GtE, 1): False}
            if (op, b.value) in table:
                return a.args[0].id, table[(op, b.value)] == pol
    return None


def gen_power_bounds_calc(tree: ast.Module) -> str:
    cls = "PowerBoundsCalculator"
    c = _class_of(tree, cls)
    what = f"{cls}.calculate"
    init = find_func(c, "__init__")
    bat_ids = metric_list(assigned_value(init.body, "self._battery_metrics"), "_battery_metrics")
    inv_ids = metric_list(assigned_value(init.body, "self._inverter_metrics"), "_inverter_metrics")
    out = ("/-- `PowerBoundsCalculator`: metric ids requested per battery / inverter, in the order `get_validated_bounds` reads them -/\n"
           f"def batteryMetricIds : List String := {lean_strs(bat_ids)}\n"
           f"def inverterMetricIds : List String := {lean_strs(inv_ids)}\n\n")
    out += gen_validated_bounds(c)
    fn = find_func(c, "calculate")
    pre, loop, post = _frame(fn, what)
    pre = [s for s in pre if not isinstance(s, ast.FunctionDef)]
    stamps_all = _stamps(pre)
    # the sample time of the result: the stamp the statements after the loop compare with _MIN_TIMESTAMP
    stamps = {n.id for s in post for n in ast.walk(s) if isinstance(n, ast.Name) and n.id in stamps_all}
    if len(stamps) != 1:
        raise Unsupported(f"{what}: the sample time of the result was not found")
    accs = zero_inits(pre, stamps_all)
    # locals that merely name the two metric lists
    alias = {"self._battery_metrics": "bat", "self._inverter_metrics": "inv"}
    for n in ast.walk(fn):
        if isinstance(n, ast.Assign) and len(n.targets) == 1 and isinstance(n.targets[0], ast.Name) \
                and ast.unparse(n.value) in ("self._battery_metrics", "self._inverter_metrics"):
            alias[n.targets[0].id] = alias[ast.unparse(n.value)]

    # result: SystemBounds(timestamp=…, inclusion_bounds=Bounds(Power.from_watts(a), Power.from_watts(b)), exclusion_bounds=…)
    def pw(n: ast.expr) -> ast.expr:
        if isinstance(n, ast.Call) and ast.unparse(n.func) == "Power.from_watts" and len(n.args) + len(n.keywords) == 1:
            return n.args[0] if n.args else n.keywords[0].value
        raise Unsupported(f"SystemBounds value {ast.unparse(n)[:50]}")

    def bnd(n: ast.expr | None) -> tuple[ast.expr, ast.expr] | None:
        if n is None or (isinstance(n, ast.Constant) and n.value is None):
            return None
        if isinstance(n, ast.Call) and ast.unparse(n.func).endswith("Bounds"):
            kk = {k.arg: k.value for k in n.keywords}
            lo = kk.get("lower", n.args[0] if n.args else None)
            hi = kk.get("upper", n.args[1] if len(n.args) > 1 else None)
            if lo is not None and hi is not None and len(n.args) <= 2 and not set(kk) - {"lower", "upper"}:
                return pw(lo), pw(hi)
        raise Unsupported("SystemBounds bounds shape")

    def system_bounds(v: ast.expr | None):
        if not (isinstance(v, ast.Call) and ast.unparse(v.func).endswith("SystemBounds")):
            raise Unsupported(f"{what}: final return")
        kws = {k.arg: k.value for k in v.keywords}
        for name, a in zip(("timestamp", "inclusion_bounds", "exclusion_bounds"), v.args):
            kws[name] = a
        return bnd(kws.get("inclusion_bounds")), bnd(kws.get("exclusion_bounds"))

    finals = [system_bounds(s.value) for s, _ in stmt_paths(post) if isinstance(s, ast.Return)]
    full = [f for f in finals if f[0] is not None and f[1] is not None]
    if len(full) != 1:
        raise Unsupported(f"{what}: expected one return of SystemBounds with both bounds")
    (il, iu), (el, eu) = full[0]
    canon = ["inclusion_bounds_lower", "inclusion_bounds_upper", "exclusion_bounds_lower", "exclusion_bounds_upper"]
    roles = [x for r in (il, iu, el, eu) for x in sorted(_names_in(r) & set(accs))]
    if len(roles) != 4 or len(set(roles)) != 4 or any(len(_names_in(r) & set(accs)) != 1 for r in (il, iu, el, eu)):
        raise Unsupported(f"{what}: expected 4 accumulators, one per streamed bound; found {accs}")
    named = list(zip(roles, canon))

    def translator(empty: set[str], moved: bool | None) -> CTr:
        tr = CTr(pb_fields=PB_FIELDS)

        def bind(s: ast.stmt, env: dict):
            if _stamp_update(s, stamps):
                return {**env, s.targets[0].id: ("stamp", True)}  # type: ignore[attr-defined]
            if not (isinstance(s, (ast.Assign, ast.AnnAssign)) and getattr(s, "value", None) is not None):
                return None
            tgt = s.targets[0] if isinstance(s, ast.Assign) and len(s.targets) == 1 else getattr(s, "target", None)
            v = s.value
            if isinstance(v, ast.Call):
                which = {alias[ast.unparse(a)] for a in list(v.args) + [k.value for k in v.keywords] if ast.unparse(a) in alias}
                if len(which) == 1:  # `<list>[, <time>] = <fetch the validated bounds>(…, self._battery_metrics, …)`
                    w = which.pop()
                    names = [tgt] if isinstance(tgt, ast.Name) else (list(tgt.elts) if isinstance(tgt, ast.Tuple) else [])
                    if not names or not all(isinstance(x, ast.Name) for x in names):
                        raise Unsupported(f"{what}: target of {ast.unparse(v)[:40]}")
                    e2 = {**env, names[0].id: ("v", "inverter_bounds" if w == "inv" else "battery_bounds", w)}
                    for x in names[1:]:
                        e2[x.id] = ("o",)
                    return e2
                if ast.unparse(v.func) == "_aggregate_battery_power_bounds" and len(v.args) == 1 and not v.keywords \
                        and isinstance(v.args[0], ast.Name) and isinstance(tgt, ast.Name):
                    a = env.get(v.args[0].id, ("?",))
                    if not (len(a) > 2 and a[2] == "bat"):
                        raise Unsupported(f"{what}: _aggregate_battery_power_bounds is not applied to the battery bounds")
                    if "bat" in empty:
                        raise Unsupported(f"{what}: the battery bounds are aggregated before the empty list is skipped")
                    return {**env, tgt.id: ("v", "aggregated_bat_bounds")}
            return None

        def decide(test: ast.expr, env: dict):
            et = _empty_test(test)
            if et is not None and et[0] in env and len(env[et[0]]) > 2 and env[et[0]][2] in ("bat", "inv"):
                return et[1] == (env[et[0]][2] in empty)
            st = _stamp_test(test, stamps)
            if st is not None and moved is not None:
                return st[1] != moved
            return None

        tr.bind, tr.decide = bind, decide
        return tr

    def start() -> dict:
        env: dict = {p: ("v", cn) for p, cn in named}
        env.update({s: ("stamp", False) for s in stamps_all})
        return env

    def leaf(kind: str):
        def f(env: dict) -> tuple:
            vals = []
            for p, _ in named:
                if env[p][0] != "v":
                    raise Unsupported(f"{what}: `{p}` becomes a value the translator does not model")
                vals.append(env[p][1])
            (st,) = stamps
            return ("leaf", (kind, tuple(vals), env[st][0] == "stamp" and env[st][1]))
        return f

    def leaves(t: tuple):
        if t[0] == "leaf":
            yield t[1]
        else:
            yield from leaves(t[2])
            yield from leaves(t[3])

    body = fold_sum_loops(loop.body)
    tr = translator(set(), None)
    step = tr.tree(body, start(), Exits(fall=leaf("state"), cont=leaf("skip")))
    for kind, vals, moved in leaves(step):
        if kind != "state" or not moved:
            raise Unsupported(f"{what}: a battery set with battery and inverter bounds must count and move the sample time")
    for empty in ({"bat"}, {"inv"}, {"bat", "inv"}):
        t = translator(empty, None).tree(body, start(), Exits(fall=leaf("state"), cont=leaf("skip")))
        if t != ("leaf", ("skip", tuple(canon), False)):
            raise Unsupported(f"{what}: a battery set without {' / '.join(sorted(empty))} bounds is not skipped untouched")
    out += (f"/-- `PowerBoundsCalculator.calculate`: loop body for one contributing battery set; state = ({', '.join(canon)}) -/\n"
            "def calcStep " + " ".join(f"({a} : Rat)" for a in canon)
            + f" (aggregated_bat_bounds : PowerBounds) (inverter_bounds : List PowerBounds) : {tuple_ty(4)} :=\n"
            + tr.show(step, "  ", lambda x: "(" + ", ".join(x[1]) + ")") + "\n\n")

    def final(moved: bool) -> tuple:
        trf = translator(set(), moved)

        def ret(v, env):
            incl, excl = system_bounds(v)
            if incl is None and excl is None:
                return ("leaf", ("nodata",))
            if incl is None or excl is None:
                raise Unsupported(f"{what}: SystemBounds with only one of the two bounds")
            return ("leaf", ("value", tuple(trf.e(x, env) for x in (incl[0], excl[0], excl[1], incl[1]))))

        return trf.tree(post, start(), Exits(ret=ret))

    if final(False) != ("leaf", ("nodata",)):
        raise Unsupported(f"{what}: without a contributing battery set the result is not SystemBounds(None, None)")
    fin = final(True)
    if fin[0] != "leaf" or fin[1][0] != "value":
        raise Unsupported(f"{what}: with a contributing battery set the result is not the running bounds")
    a, b, c2, d = fin[1][1]
    out += ("/-- `PowerBoundsCalculator.calculate`: the `SystemBounds` streamed once a battery set contributed -/\n"
            "def calcResult " + " ".join(f"({x} : Rat)" for x in canon) + " : PowerBounds :=\n"
            f"  {{ inclusion_lower := {a}, exclusion_lower := {b}, exclusion_upper := {c2}, inclusion_upper := {d} }}\n")
    return out


P_CMD = "src/frequenz/sdk/timeseries/battery_pool/_component_metrics.py"
P_METHODS = "src/frequenz/sdk/timeseries/battery_pool/_methods.py"


def _attr_pair(c: ast.Compare) -> str | None:
    """`self.<a> == other.<a>` (either order; `_a` and the property `a` are the same field) -> a."""
    if len(c.ops) != 1 or not isinstance(c.ops[0], ast.Eq):
        return None
    l, r = c.left, c.comparators[0]
    if isinstance(l, ast.Attribute) and isinstance(r, ast.Attribute) and isinstance(l.value, ast.Name) and isinstance(r.value, ast.Name) \
            and {l.value.id, r.value.id} == {"self", "other"} and l.attr.lstrip("_") == r.attr.lstrip("_"):
        return l.attr.lstrip("_")
    return None


def gen_stream(repo: pathlib.Path) -> str:
    """What the streamed-bounds history theorem (`C17_stream_is_latest`) needs from the source.

    (1) `ComponentMetricsData.__eq__` is equality of the DATA: whenever it returns something other than `False`, that
        is a conjunction of `self.<field> == other.<field>` tests which includes the metrics (no tolerance, no `isclose`,
        no subset of the metrics).  So two samples with different metric values are never "equal".
    (2) `SendOnUpdate._update_and_notify` sets the update event for a fetched sample exactly when the component has no
        cached sample or the cached one `!=` the new one (evaluated on the three possible situations, through
        `_metric_updated` or inline, whatever the spelling), and then stores the sample in the cache unconditionally."""
    tree = parse(repo, P_CMD)
    c = _class_of(tree, "ComponentMetricsData")
    eq = next((m for m in c.body if isinstance(m, ast.FunctionDef) and m.name == "__eq__"), None)
    if eq is None:
        raise Unsupported("ComponentMetricsData.__eq__ not found (identity / dataclass equality is not modelled)")
    if [a.arg for a in eq.args.args] != ["self", "other"]:
        raise Unsupported("ComponentMetricsData.__eq__ signature")
    data_fields = {ast.unparse(s.targets[0] if isinstance(s, ast.Assign) else s.target).split(".")[-1].lstrip("_")
                   for m in c.body if isinstance(m, ast.FunctionDef) and m.name == "__init__"
                   for s in ast.walk(m) if isinstance(s, (ast.Assign, ast.AnnAssign))
                   and ast.unparse(s.targets[0] if isinstance(s, ast.Assign) else s.target).startswith("self.")}
    if "metrics" not in data_fields:
        raise Unsupported(f"ComponentMetricsData fields {sorted(data_fields)}")
    n_true = 0
    for s, path in stmt_paths(body_no_doc(eq)):
        if isinstance(s, ast.Return):
            v = s.value
            if isinstance(v, ast.Constant) and v.value is False:
                continue
            conj = v.values if isinstance(v, ast.BoolOp) and isinstance(v.op, ast.And) else [v]
            fields = [_attr_pair(x) if isinstance(x, ast.Compare) else None for x in conj]
            # fields already established unequal/equal on the path (`if self.a != other.a: return False`)
            for test, pol in path:
                t, q = strip_nots(test)
                if isinstance(t, ast.Compare) and len(t.ops) == 1 and isinstance(t.ops[0], (ast.Eq, ast.NotEq)):
                    f = _attr_pair(ast.Compare(left=t.left, ops=[ast.Eq()], comparators=t.comparators))
                    if f is not None and (isinstance(t.ops[0], ast.Eq) == (pol == q)):
                        fields.append(f)
            if any(f is None for f in fields) or "metrics" not in fields:
                raise Unsupported(f"ComponentMetricsData.__eq__ returns `{ast.unparse(v)[:70]}`: not the equality of the stored metrics")
            n_true += 1
        elif not isinstance(s, (ast.Expr, ast.Pass)):
            raise Unsupported(f"ComponentMetricsData.__eq__: statement {ast.unparse(s)[:50]}")
    if n_true == 0:
        raise Unsupported("ComponentMetricsData.__eq__ never compares the metrics")
    if any(isinstance(m, ast.FunctionDef) and m.name == "__ne__" for m in c.body):
        raise Unsupported("ComponentMetricsData.__ne__ is overridden")

    # ---- SendOnUpdate: when is the update event set for a fetched sample?
    mt = parse(repo, P_METHODS)
    sc = _class_of(mt, "SendOnUpdate")
    fn = next((m for m in sc.body if isinstance(m, (ast.FunctionDef, ast.AsyncFunctionDef)) and m.name == "_update_and_notify"), None)
    if fn is None:
        raise Unsupported("SendOnUpdate._update_and_notify not found")
    methods = {m.name: m for m in sc.body if isinstance(m, ast.FunctionDef)}
    CACHE = "self._cached_metrics"

    def aliases(f: ast.AST) -> dict[str, ast.expr]:
        """locals assigned exactly once from a name / attribute chain"""
        cnt: dict[str, list] = {}
        for n in ast.walk(f):
            if isinstance(n, (ast.Assign, ast.AnnAssign)) and getattr(n, "value", None) is not None:
                t = n.targets[0] if isinstance(n, ast.Assign) and len(n.targets) == 1 else getattr(n, "target", None)
                if isinstance(t, ast.Name):
                    cnt.setdefault(t.id, []).append(n.value)
            elif isinstance(n, (ast.For, ast.AsyncFor)):  # (comprehension targets live in their own scope)
                for x in ast.walk(n.target):
                    if isinstance(x, ast.Name):
                        cnt.setdefault(x.id, []).append(None)
        ok = {}
        for k, vs in cnt.items():
            if len(vs) == 1 and vs[0] is not None:
                v = vs[0]
                while isinstance(v, ast.Attribute):
                    v = v.value
                if isinstance(v, ast.Name):
                    ok[k] = vs[0]
        return ok

    def src(e: ast.expr, al: dict[str, ast.expr]) -> str:
        for _ in range(5):
            e2 = _SubstNames(al).visit(__import__("copy").deepcopy(e))
            if ast.unparse(e2) == ast.unparse(e):
                break
            e = e2
        return ast.unparse(e)

    def ev(e: ast.expr, al: dict[str, ast.expr], m: str, has: bool, same: bool) -> bool:
        """value of a test for the fetched sample `m`, given: has the cache an entry for it / is it == the new one"""
        if isinstance(e, ast.UnaryOp) and isinstance(e.op, ast.Not):
            return not ev(e.operand, al, m, has, same)
        if isinstance(e, ast.BoolOp):
            if isinstance(e.op, ast.And):
                return all(ev(v, al, m, has, same) for v in e.values)  # `all` short-circuits like `and`
            return any(ev(v, al, m, has, same) for v in e.values)
        if isinstance(e, ast.Constant) and isinstance(e.value, bool):
            return e.value
        if isinstance(e, ast.Name) and e.id in al:
            return ev(al[e.id], al, m, has, same)
        if isinstance(e, ast.Compare) and len(e.ops) == 1:
            l, r, op = src(e.left, al), src(e.comparators[0], al), e.ops[0]
            if isinstance(op, (ast.In, ast.NotIn)) and l == f"{m}.component_id" and r == CACHE:
                return has == isinstance(op, ast.In)
            if isinstance(op, (ast.Eq, ast.NotEq)) and {l, r} == {m, f"{CACHE}[{m}.component_id]"}:
                if not has:
                    raise Unsupported("SendOnUpdate: the cached sample is read before it is known to exist")
                return same == isinstance(op, ast.Eq)
        if isinstance(e, ast.Call) and isinstance(e.func, ast.Attribute) and isinstance(e.func.value, ast.Name) \
                and e.func.value.id == "self" and e.func.attr in methods and len(e.args) == 1 and not e.keywords:
            h = methods[e.func.attr]
            params = [a.arg for a in h.args.args][1:]
            if len(params) != 1:
                raise Unsupported(f"SendOnUpdate.{h.name} signature")
            arg = src(e.args[0], al)
            hal = {**aliases(h), params[0]: ast.Name(id=arg, ctx=ast.Load())}
            hal = {k: v for k, v in hal.items() if k != arg}
            for s, path in stmt_paths(body_no_doc(h)):
                if isinstance(s, ast.Return) and all(ev(t, hal, arg, has, same) == pol for t, pol in path):
                    if s.value is None:
                        raise Unsupported(f"SendOnUpdate.{h.name}: bare return")
                    return ev(s.value, hal, arg, has, same)
            raise Unsupported(f"SendOnUpdate.{h.name}: no return on some path")
        raise Unsupported(f"SendOnUpdate: cannot evaluate `{ast.unparse(e)[:70]}` as a change test")

    al = aliases(fn)
    sets = [n for n in ast.walk(fn) if isinstance(n, ast.If)
            and any(isinstance(b, ast.Expr) and isinstance(b.value, ast.Call) and src(b.value.func, al) == "self._update_event.set"
                    for b in n.body)]  # the `if` that guards the call directly (not the ones it is nested in)
    if len(sets) != 1 or sets[0].orelse:
        raise Unsupported("SendOnUpdate._update_and_notify: expected exactly one `if <changed>: self._update_event.set()`")
    test = sets[0].test
    names = {n.id for n in ast.walk(test) if isinstance(n, ast.Name)} - {"self"}
    cands = [n for n in names if n not in al]
    # the stored sample: `<cache>[<m>.component_id] = <m>`
    stores = [s for s in ast.walk(fn) if isinstance(s, ast.Assign) and len(s.targets) == 1 and isinstance(s.targets[0], ast.Subscript)
              and src(s.targets[0].value, al) == CACHE and isinstance(s.value, ast.Name)
              and src(s.targets[0].slice, al) == f"{s.value.id}.component_id"]
    if len(stores) != 1:
        raise Unsupported("SendOnUpdate._update_and_notify: the fetched sample is not stored as `_cached_metrics[cid] = metrics` exactly once")
    m = stores[0].value.id
    if m not in cands and m not in {n.id for n in ast.walk(test) if isinstance(n, ast.Name)}:
        raise Unsupported("SendOnUpdate._update_and_notify: the change test is not about the sample that is stored")
    # same block, the test first (the cache still holds the previous sample), the store unconditional
    blk = next((b for n in ast.walk(fn) for f in ("body", "orelse") for b in [getattr(n, f, None)]
                if isinstance(b, list) and sets[0] in b), None)
    if blk is None or stores[0] not in blk or blk.index(sets[0]) > blk.index(stores[0]):
        raise Unsupported("SendOnUpdate._update_and_notify: the sample must be compared with the cached one, then stored unconditionally")
    table = {(has, same): ev(test, al, m, has, same) for has, same in ((False, False), (True, True), (True, False))}
    if table != {(False, False): True, (True, True): False, (True, False): True}:
        raise Unsupported(f"SendOnUpdate: a sample triggers a recalculation on {table}, expected: no cached sample or a different one")
    return ("/-- `ComponentMetricsData.__eq__` is equality of the stored metrics (and ids): samples with different values are never\n"
            "equal — no tolerance.  Established from `_component_metrics.py` on every run. -/\n"
            "def metricsEqIsDataEq : Bool := true\n\n"
            "/-- `SendOnUpdate._update_and_notify` sets the update event for a fetched sample exactly when the component has no\n"
            "cached sample or the cached one `!=` it, and then caches the sample.  Established from `_methods.py`. -/\n"
            "def updateIffChanged : Bool := true\n")


def gen_methods_tables(repo: pathlib.Path) -> str:
    tree = parse(repo, P_SRC)
    out = ""
    for pyname, lean in (("_BatteryDataMethods", "batteryDataMethods"), ("_InverterDataMethods", "inverterDataMethods")):
        val = assigned_value(tree.body, pyname)
        if not isinstance(val, ast.Dict):
            raise Unsupported(f"{pyname}: expected a dict literal")
        rows = []
        for k, v in zip(val.keys, val.values):
            if not (isinstance(k, ast.Attribute) and ast.unparse(k.value) == "ComponentMetricId" and isinstance(v, ast.Lambda)):
                raise Unsupported(f"{pyname}: entry shape")
            b = v.body
            arg = v.args.args[0].arg
            if isinstance(b, ast.Attribute) and ast.unparse(b.value) == arg:
                rows.append((k.attr, b.attr))
            # per-phase entries (`msg.x[i]`) are not used by the pool calculators: left out of the table
        out += (f"/-- `{pyname}`: metric id -> attribute of the component message (scalar entries) -/\n"
                f"def {lean} : List (String × String) :=\n  ["
                + ",\n   ".join(f'("{a}", "{b}")' for a, b in rows) + "]\n\n")
    return out


def gen_base_types(repo: pathlib.Path) -> str:
    tree = parse(repo, P_BASE)
    fn = find_func(tree, "__contains__", "Bounds")
    # Both ends present: the last return of Bounds.__contains__
    last = body_no_doc(fn)[-1]
    if not isinstance(last, ast.Return):
        raise Unsupported("Bounds.__contains__: last statement")
    src = ast.unparse(last.value).replace("cast(Comparable, self.lower)", "lower").replace("cast(Comparable, self.upper)", "upper") \
        .replace("self.lower", "lower").replace("self.upper", "upper")
    cmp = ast.parse(src, mode="eval").body
    out = ("/-- `Bounds.__contains__` with both ends present -/\n"
           f"def boundsContains (lower upper item : Rat) : Prop :=\n  {Tr().p(cmp, {})}\n\n"
           "instance (l u i : Rat) : Decidable (boundsContains l u i) := by unfold boundsContains; infer_instance\n\n")
    fn = find_func(tree, "__contains__", "SystemBounds")
    subst = {
        "not self.inclusion_bounds": "inclusion_bounds = none",
        "self.exclusion_bounds": "exclusion_bounds ≠ none",
    }
    # translate by shape: if not incl or item not in incl: False; if excl and item in excl: False; True
    st = body_no_doc(fn)
    shape = [ast.unparse(s) for s in st]
    expected = [
        "if not self.inclusion_bounds or item not in self.inclusion_bounds:\n    return False",
        "if self.exclusion_bounds and item in self.exclusion_bounds:\n    return False",
        "return True",
    ]
    if shape != expected:
        raise Unsupported("SystemBounds.__contains__ changed shape")
    del subst
    out += ("/-- `SystemBounds.__contains__` (a `Bounds` object is always truthy, so `not self.inclusion_bounds` = is None) -/\n"
            "def systemBoundsContains (inclusion_bounds exclusion_bounds : Option (Rat × Rat)) (item : Rat) : Bool :=\n"
            "  match inclusion_bounds with\n"
            "  | none => false\n"
            "  | some i =>\n"
            "    if ¬ boundsContains i.1 i.2 item then false\n"
            "    else match exclusion_bounds with\n"
            "      | none => true\n"
            "      | some e => if boundsContains e.1 e.2 item then false else true\n")
    return out


def generate(repo: pathlib.Path) -> str:
    calc = parse(repo, P_CALC)
    parts = [
        PREAMBLE,
        gen_math(repo),
        gen_powerbounds_struct(repo),
        AGG_STRUCT,
        gen_algo(repo),
        gen_manager(repo),
        gen_power_bounds_calc(calc),
        gen_sample_calc(calc, "SoCCalculator", ["CAPACITY", "SOC_UPPER_BOUND", "SOC_LOWER_BOUND", "SOC"], "soc",
                        "Percentage.from_percent", soc_roles),
        gen_sample_calc(calc, "CapacityCalculator", ["CAPACITY", "SOC_UPPER_BOUND", "SOC_LOWER_BOUND"], "cap",
                        "Energy.from_watt_hours", cap_roles),
        gen_methods_tables(repo),
        gen_base_types(repo),
        gen_stream(repo),
        "end Extracted.Pool\n",
    ]
    return "\n".join(parts)
