"""Battery-pool aggregates (C17, C18): Python source -> `lean/Frequenz/Extracted/Pool.lean`.

What is translated, from which site (all located structurally, by AST shape — never by line number):

  _internal/_math.py                 is_close_to_zero                       -> isCloseToZero (+ default abs_tol)
  _power_distributing/result.py      dataclass PowerBounds (fields)         -> structure PowerBounds
  _battery_distribution_algorithm.py _aggregate_battery_power_bounds        -> aggregateBatteryPowerBounds
                                     AggregatedBatteryData.__init__         -> batteryPowerBounds (BatteryData -> PowerBounds)
  _battery_manager.py                BatteryManager._get_bounds             -> getBounds
                                     BatteryManager._check_request (tail)   -> checkRequest   (true = OutOfBounds)
                                     _get_battery_inverter_data             -> crucialMetricsBat / crucialMetricsInv
  _metric_calculator.py              PowerBoundsCalculator                  -> batteryMetricIds, inverterMetricIds,
                                                                               validatedBounds, calcStep, calcResult
                                     SoCCalculator.calculate                -> socStep, socFinal, socRequired
                                     CapacityCalculator.calculate           -> capStep, capFinal, capRequired
  microgrid_api_source.py            _BatteryDataMethods/_InverterDataMethods -> batteryDataMethods / inverterDataMethods
  timeseries/_base_types.py          Bounds.__contains__ (both ends present), SystemBounds.__contains__
                                                                            -> boundsContains, systemBoundsContains

The translator below handles the loop-free arithmetic subset these sites use (generator expressions inside
`sum`/`max`/`min`, `len`, `math.isclose`, `is_close_to_zero`, chained comparisons, `+=`, if/else with
early `return`/`continue`).  Loops, Optional filtering and dict plumbing are NOT translated: they are the
hand-written glue of `Frequenz/Model/PoolBounds.lean` / `PoolSoc.lean`, tied to the code by the
differential check.  Anything outside the subset raises `Unsupported` — the check then treats the proofs
as broken and searches for a failing input.

The sites of C17 (`is_close_to_zero`, `_aggregate_battery_power_bounds`, `AggregatedBatteryData.__init__`,
`_get_bounds`, the tail of `_check_request`, the crucial-metric lists, `PowerBoundsCalculator`) go through the
CANONICAL translator `CTr`: locals are inlined, generator binders are named by nesting depth, `if not c` is
emitted with the arms swapped, a chained comparison equals the conjunction of its links, keyword arguments of
`PowerBounds` follow the dataclass, `return a if c else b` = `if c: return a else: return b`, a sum-loop
(`acc = 0.0; for …: acc += e`) = `sum(e for …)`, one-expression helpers are inlined, parameters / locals are found by
ROLE (what they are assigned from, which bound of the result they feed) and get fixed names in the Lean text.  So a
rename, a reordering of independent statements, an inverted `if`, an extracted or inlined local produce the very
same Lean text, while any change of an operator, operand, constant or branch still changes it.  The SoC / capacity
calculators (C18) keep the literal `let`-style translator `Tr`.
"""
from __future__ import annotations

import ast
import pathlib
from fractions import Fraction

NAME = "Pool"
P_MATH = "src/frequenz/sdk/_internal/_math.py"
P_RESULT = "src/frequenz/sdk/microgrid/_power_distributing/result.py"
P_ALGO = "src/frequenz/sdk/microgrid/_power_distributing/_distribution_algorithm/_battery_distribution_algorithm.py"
P_MGR = "src/frequenz/sdk/microgrid/_power_distributing/_component_managers/_battery_manager.py"
P_CALC = "src/frequenz/sdk/timeseries/battery_pool/_metric_calculator.py"
P_SRC = "src/frequenz/sdk/microgrid/_data_sourcing/microgrid_api_source.py"
P_BASE = "src/frequenz/sdk/timeseries/_base_types.py"
SOURCES = [P_MATH, P_RESULT, P_ALGO, P_MGR, P_CALC, P_SRC, P_BASE]


class Unsupported(Exception):
    pass


# --------------------------------------------------------------------------------------- static preamble
PREAMBLE = r"""import Frequenz.Model.Prelude

set_option linter.unusedVariables false

/-! Python built-ins used by the translated code (stdlib semantics: trusted, not extracted). -/
namespace Extracted.Pool

/-- `abs(x)` -/
def pyAbs (x : Rat) : Rat := if x < 0 then -x else x

/-- `sum(xs)`: left fold starting at 0. -/
def pySum (xs : List Rat) : Rat := xs.foldl (· + ·) 0

/-- `max(xs)` of a non-empty iterable: first maximal element (0 stands for the `ValueError` on empty input,
    which every call site excludes by an `assert`/`continue` before). -/
def pyMaxL : List Rat → Rat
  | [] => 0
  | x :: xs => xs.foldl pyMax x

/-- `min(xs)` of a non-empty iterable. -/
def pyMinL : List Rat → Rat
  | [] => 0
  | x :: xs => xs.foldl pyMin x

/-- `math.isclose(a, b, rel_tol=1e-09, abs_tol=0.0)` on finite values (CPython `math_isclose_impl`). -/
def pyIsclose (a b : Rat) (rel_tol : Rat := (1 : Rat) / 1000000000) (abs_tol : Rat := 0) : Prop :=
  a = b ∨ pyAbs (b - a) ≤ pyAbs (rel_tol * b) ∨ pyAbs (b - a) ≤ pyAbs (rel_tol * a) ∨ pyAbs (b - a) ≤ abs_tol

instance (a b r t : Rat) : Decidable (pyIsclose a b r t) := by unfold pyIsclose; infer_instance

/-- The four bound attributes of `frequenz.client.microgrid.BatteryData` read by the translated code. -/
structure BatteryData where
  power_inclusion_lower_bound : Rat
  power_exclusion_lower_bound : Rat
  power_exclusion_upper_bound : Rat
  power_inclusion_upper_bound : Rat
deriving Repr, DecidableEq

/-- The four bound attributes of `InverterData`. -/
structure InverterData where
  active_power_inclusion_lower_bound : Rat
  active_power_exclusion_lower_bound : Rat
  active_power_exclusion_upper_bound : Rat
  active_power_inclusion_upper_bound : Rat
deriving Repr, DecidableEq
"""

AGG_STRUCT = r"""
/-- `AggregatedBatteryData`: only the attribute the bounds code reads. -/
structure AggregatedBatteryData where
  power_bounds : PowerBounds
deriving Repr, DecidableEq
"""


# --------------------------------------------------------------------------------------- translator
def rat_lit(v) -> str:
    fr = Fraction(repr(v)) if isinstance(v, float) else Fraction(v)
    if fr.denominator == 1:
        return f"({fr.numerator} : Rat)"
    return f"(({fr.numerator} : Rat) / {fr.denominator})"


class Tr:
    """Expression / straight-line block translator.  `subst`: source text of a python expression -> Lean text."""

    def __init__(self, subst: dict[str, str] | None = None, bools: set[str] | None = None,
                 skip_targets: set[str] | None = None):
        self.subst = dict(subst or {})
        self.bools = set(bools or ())
        self.skip_targets = set(skip_targets or ())
        self.n = 0

    # ---- helpers
    def fresh(self, base: str) -> str:
        self.n += 1
        return f"{base}{self.n}"

    @staticmethod
    def is_boolish(n: ast.expr) -> bool:
        if isinstance(n, (ast.Compare, ast.BoolOp)):
            return True
        if isinstance(n, ast.UnaryOp) and isinstance(n.op, ast.Not):
            return True
        if isinstance(n, ast.Call) and ast.unparse(n.func) in ("math.isclose", "is_close_to_zero", "_math.is_close_to_zero"):
            return True
        if isinstance(n, ast.Constant) and isinstance(n.value, bool):
            return True
        return False

    # ---- value expressions
    def e(self, n: ast.expr, env: dict[str, str]) -> str:
        src = ast.unparse(n)
        if src in self.subst:
            return self.subst[src]
        if self.is_boolish(n):
            return f"(decide ({self.p(n, env)}))"
        if isinstance(n, ast.Name):
            return env.get(n.id, n.id)
        if isinstance(n, ast.Constant):
            if isinstance(n.value, (int, float)) and not isinstance(n.value, bool):
                return rat_lit(n.value)
            raise Unsupported(f"constant {n.value!r}")
        if isinstance(n, ast.Attribute):
            return f"{self.e(n.value, env)}.{n.attr}"
        if isinstance(n, ast.UnaryOp) and isinstance(n.op, ast.USub):
            return f"(-{self.e(n.operand, env)})"
        if isinstance(n, ast.BinOp):
            for k, v in {ast.Add: "+", ast.Sub: "-", ast.Mult: "*", ast.Div: "/"}.items():
                if isinstance(n.op, k):
                    return f"({self.e(n.left, env)} {v} {self.e(n.right, env)})"
            raise Unsupported(f"operator in {src}")
        if isinstance(n, ast.IfExp):
            return f"(if {self.p(n.test, env)} then {self.e(n.body, env)} else {self.e(n.orelse, env)})"
        if isinstance(n, ast.Subscript) and isinstance(n.slice, ast.Constant) and isinstance(n.slice.value, int):
            return f"({self.e(n.value, env)}.getD {n.slice.value} 0)"
        if isinstance(n, ast.Call):
            return self.call(n, env)
        raise Unsupported(f"expression {src[:80]}")

    def call(self, n: ast.Call, env: dict[str, str]) -> str:
        f = ast.unparse(n.func)
        if f in ("sum", "max", "min") and len(n.args) == 1 and isinstance(n.args[0], ast.GeneratorExp) and not n.keywords:
            lean = {"sum": "pySum", "max": "pyMaxL", "min": "pyMinL"}[f]
            return f"({lean} {self.gen(n.args[0], env)})"
        if f in ("max", "min") and len(n.args) == 2 and not n.keywords:
            a, b = (self.e(x, env) for x in n.args)
            return f"(py{f.capitalize()} {a} {b})"
        if f == "len" and len(n.args) == 1:
            return f"(({self.e(n.args[0], env)}.length : Nat) : Rat)"
        if f in ("float",) and len(n.args) == 1:
            return self.e(n.args[0], env)
        if f == "PowerBounds" and not n.args:
            return self.struct(n, env)
        raise Unsupported(f"call {ast.unparse(n)[:80]}")

    def struct(self, n: ast.Call, env: dict[str, str]) -> str:
        kws = {k.arg: self.e(k.value, env) for k in n.keywords}
        if None in kws:
            raise Unsupported("**kwargs")
        return "{ " + ", ".join(f"{k} := {v}" for k, v in kws.items()) + " : PowerBounds }"

    def gen(self, g: ast.GeneratorExp, env: dict[str, str]) -> str:
        """`(elt for t1 in it1 [for t2 in it2])` -> `List.map` / `List.flatMap`."""
        if any(c.ifs or c.is_async for c in g.generators) or not 1 <= len(g.generators) <= 2:
            raise Unsupported(f"generator {ast.unparse(g)[:80]}")
        env = dict(env)
        binders = []
        for c in g.generators:
            it = self.e(c.iter, env)
            if isinstance(c.target, ast.Name):
                v = c.target.id
                env[v] = v
            elif isinstance(c.target, ast.Tuple) and len(c.target.elts) == 2 and all(isinstance(x, ast.Name) for x in c.target.elts):
                v = self.fresh("p")
                for i, x in enumerate(c.target.elts):
                    if x.id != "_":  # type: ignore[attr-defined]
                        env[x.id] = f"{v}.{i + 1}"  # type: ignore[attr-defined]
            else:
                raise Unsupported(f"generator target {ast.unparse(c.target)}")
            binders.append((v, it))
        body = self.e(g.elt, env)
        if len(binders) == 1:
            (v, it), = binders
            return f"(List.map (fun {v} => {body}) {it})"
        (v1, it1), (v2, it2) = binders
        return f"(List.flatMap (fun {v1} => List.map (fun {v2} => {body}) {it2}) {it1})"

    # ---- propositions
    def p(self, n: ast.expr, env: dict[str, str]) -> str:
        src = ast.unparse(n)
        if src in self.subst and (isinstance(n, (ast.Name, ast.Attribute))):
            return f"{self.subst[src]} = true"
        if isinstance(n, ast.Compare):
            ops = {ast.Lt: "<", ast.LtE: "≤", ast.Gt: ">", ast.GtE: "≥", ast.Eq: "=", ast.NotEq: "≠"}
            parts, left = [], n.left
            for op, right in zip(n.ops, n.comparators):
                sym = next((v for k, v in ops.items() if isinstance(op, k)), None)
                if sym is None:
                    raise Unsupported(f"comparison in {src}")
                parts.append(f"{self.e(left, env)} {sym} {self.e(right, env)}")
                left = right
            return "(" + " ∧ ".join(parts) + ")"
        if isinstance(n, ast.BoolOp):
            j = " ∧ " if isinstance(n.op, ast.And) else " ∨ "
            return "(" + j.join(self.p(v, env) for v in n.values) + ")"
        if isinstance(n, ast.UnaryOp) and isinstance(n.op, ast.Not):
            return f"(¬ {self.p(n.operand, env)})"
        if isinstance(n, ast.Constant) and isinstance(n.value, bool):
            return "True" if n.value else "False"
        if isinstance(n, ast.Name) and n.id in self.bools:
            return f"({env.get(n.id, n.id)} = true)"
        if isinstance(n, ast.Call):
            f = ast.unparse(n.func)
            if f == "math.isclose":
                args = list(n.args)
                kw = {k.arg: k.value for k in n.keywords}
                a = args[0] if args else kw.pop("a", None)
                b = args[1] if len(args) > 1 else kw.pop("b", None)
                if a is None or b is None or len(args) > 2 or set(kw) - {"rel_tol", "abs_tol"}:
                    raise Unsupported(f"isclose call {src}")
                opt = "".join(f" ({k} := {self.e(v, env)})" for k, v in kw.items())
                return f"(pyIsclose {self.e(a, env)} {self.e(b, env)}{opt})"
            if f in ("is_close_to_zero", "_math.is_close_to_zero") and len(n.args) == 1 and not n.keywords:
                return f"(isCloseToZero {self.e(n.args[0], env)})"
        raise Unsupported(f"condition {src[:80]}")

    # ---- statements (continuation-passing: what follows an `if` is copied into both branches)
    def block(self, stmts: list[ast.stmt], env: dict[str, str], ind: str, fall: str | None,
              ret=None, cont: str | None = None) -> str:
        if not stmts:
            if fall is None:
                raise Unsupported("control falls off the end of the translated block")
            return ind + fall
        s, rest = stmts[0], stmts[1:]
        go = lambda: self.block(rest, env, ind, fall, ret, cont)  # noqa: E731
        if isinstance(s, ast.Expr):
            if isinstance(s.value, ast.Constant) and isinstance(s.value.value, str):
                return go()
            if isinstance(s.value, ast.Call) and ast.unparse(s.value.func).startswith("_logger."):
                return go()
            raise Unsupported(f"statement {ast.unparse(s)[:60]}")
        if isinstance(s, ast.Assert):
            return go()  # preconditions: listed in the model's well-formedness, not executed
        if isinstance(s, (ast.Assign, ast.AnnAssign, ast.AugAssign)):
            if isinstance(s, ast.Assign):
                if len(s.targets) != 1:
                    raise Unsupported("multiple assignment")
                tgt, val = s.targets[0], s.value
            elif isinstance(s, ast.AnnAssign):
                if s.value is None:
                    raise Unsupported("bare annotation")
                tgt, val = s.target, s.value
            else:
                tgt = s.target
                if not isinstance(s.op, (ast.Add, ast.Sub, ast.Mult)):
                    raise Unsupported("augmented assignment operator")
                val = ast.BinOp(left=ast.Name(id=getattr(tgt, "id", "?"), ctx=ast.Load()), op=s.op, right=s.value)
            if not isinstance(tgt, ast.Name):
                raise Unsupported(f"assignment target {ast.unparse(tgt)}")
            if tgt.id in self.skip_targets:
                return go()
            if self.is_boolish(val):
                self.bools.add(tgt.id)
                rhs = f"decide {self.p(val, env)}"
                return f"{ind}let {tgt.id} : Bool := {rhs}\n" + go()
            return f"{ind}let {tgt.id} : Rat := {self.e(val, env)}\n" + go()
        if isinstance(s, ast.If):
            return (f"{ind}if {self.p(s.test, env)} then\n"
                    + self.block(s.body + rest, env, ind + "  ", fall, ret, cont)
                    + f"\n{ind}else\n"
                    + self.block(s.orelse + rest, env, ind + "  ", fall, ret, cont))
        if isinstance(s, ast.Return):
            if ret is None:
                raise Unsupported("return in a block without return mapping")
            return ind + ret(s.value, env)
        if isinstance(s, ast.Continue):
            if cont is None:
                raise Unsupported("continue outside a loop segment")
            return ind + cont
        raise Unsupported(f"statement {type(s).__name__}: {ast.unparse(s)[:60]}")


# --------------------------------------------------------------------------------------- canonical translator
def strip_nots(test: ast.expr) -> tuple[ast.expr, bool]:
    """`not not … X` -> (X, polarity)."""
    pol = True
    while isinstance(test, ast.UnaryOp) and isinstance(test.op, ast.Not):
        test, pol = test.operand, not pol
    return test, pol


def _names_in(n: ast.AST) -> set[str]:
    return {x.id for x in ast.walk(n) if isinstance(x, ast.Name)}


def fold_sum_loops(stmts: list[ast.stmt]) -> list[ast.stmt]:
    """`acc = 0.0 … for t in it: [for u in it2:] acc += e`  ->  `acc = sum(e for t in it [for u in it2])`.

    Only when nothing between the initialisation and the loop mentions `acc`, the loop body is that single `+=`
    (no filter, no else) and `e` / the iterables do not mention `acc`: then both forms compute the same left fold
    starting at zero.  Anything else is left alone (and later refused by the translator)."""
    out = list(stmts)
    changed = True
    while changed:
        changed = False
        for i, s in enumerate(out):
            if not isinstance(s, ast.For) or s.orelse:
                continue
            gens, body = [], s
            while isinstance(body, ast.For) and not body.orelse and len(body.body) == 1:
                gens.append(ast.comprehension(target=body.target, iter=body.iter, ifs=[], is_async=0))
                body = body.body[0]
            if not (isinstance(body, ast.AugAssign) and isinstance(body.op, ast.Add) and isinstance(body.target, ast.Name)):
                continue
            acc = body.target.id
            if acc in _names_in(body.value) or any(acc in _names_in(g.iter) or acc in _names_in(g.target) for g in gens):
                continue
            j = next((k for k in range(i - 1, -1, -1) if acc in _names_in(out[k])), None)
            if j is None:
                continue
            init = out[j]
            val = init.value if isinstance(init, (ast.Assign, ast.AnnAssign)) else None
            tgt = (init.targets[0] if isinstance(init, ast.Assign) and len(init.targets) == 1
                   else init.target if isinstance(init, ast.AnnAssign) else None)
            if not (isinstance(tgt, ast.Name) and tgt.id == acc and isinstance(val, ast.Constant)
                    and isinstance(val.value, (int, float)) and not isinstance(val.value, bool) and val.value == 0):
                continue
            call = ast.Call(func=ast.Name(id="sum", ctx=ast.Load()),
                            args=[ast.GeneratorExp(elt=body.value, generators=gens)], keywords=[])
            new = ast.Assign(targets=[ast.Name(id=acc, ctx=ast.Store())], value=call)
            out = out[:j] + [new] + out[j + 1:i] + out[i + 1:]
            changed = True
            break
    return [ast.fix_missing_locations(s) for s in out]


class CTr:
    """Canonical translator of the loop-free subset: the Lean term depends on what the code computes, not on how it
    is spelled.

    * every local is INLINED (`x = e; … x …` becomes `… e' …`; `x += e` becomes `(x' + e')`), so the result does not
      depend on the names of locals, on the order of independent assignments, or on whether a sub-expression was
      given a name (`let x := e; b` and `b[e/x]` are the same Lean term up to ζ);
    * bound variables of generator expressions are renamed `x1, x2, …` in order of translation;
    * `if not c: A else: B` is emitted as `if c then B else A`; statements after an `if` are continued in both arms
      (so guard clauses `if c: return …` and `if c: … else: …` give the same term);
    * a chained comparison and the conjunction of its links are printed identically; nested `and`/`or` are flattened;
      `not` is pushed through `and`/`or` (De Morgan) but NEVER into a comparison (`not a < b` is not `a >= b` on NaN);
    * keyword arguments of `PowerBounds(...)` are emitted in the order of the dataclass fields.

    `env`: python local -> ("v", Lean term) | ("p", Lean Prop).  `attrs`: source text of an attribute chain that stands
    for a parameter of the Lean definition (e.g. `request.adjust_power`).  A name that is neither is refused."""

    def __init__(self, attrs: dict[str, tuple[str, str]] | None = None, skip_targets: set[str] | None = None,
                 pb_fields: list[str] | None = None):
        self.attrs = dict(attrs or {})
        self.skip_targets = set(skip_targets or ())
        self.pb_fields = list(pb_fields or [])
        self.depth = 0  # nesting depth of generator binders: a binder is named after its depth, not after a counter

    # ---- values
    def e(self, n: ast.expr, env: dict) -> str:
        src = ast.unparse(n)
        if src in self.attrs:
            kind, text = self.attrs[src]
            return text if kind == "v" else f"(decide ({text}))"
        if Tr.is_boolish(n):
            return f"(decide ({self.p(n, env)}))"
        if isinstance(n, ast.Name):
            if n.id not in env:
                raise Unsupported(f"name `{n.id}` is not a parameter or a translated local")
            kind, text = env[n.id]
            return text if kind == "v" else f"(decide ({text}))"
        if isinstance(n, ast.Constant):
            if isinstance(n.value, (int, float)) and not isinstance(n.value, bool):
                return rat_lit(n.value)
            raise Unsupported(f"constant {n.value!r}")
        if isinstance(n, ast.Attribute):
            return f"{self.e(n.value, env)}.{n.attr}"
        if isinstance(n, ast.UnaryOp) and isinstance(n.op, ast.USub):
            return f"(-{self.e(n.operand, env)})"
        if isinstance(n, ast.UnaryOp) and isinstance(n.op, ast.UAdd):
            return self.e(n.operand, env)
        if isinstance(n, ast.BinOp):
            for k, v in {ast.Add: "+", ast.Sub: "-", ast.Mult: "*", ast.Div: "/"}.items():
                if isinstance(n.op, k):
                    return f"({self.e(n.left, env)} {v} {self.e(n.right, env)})"
            raise Unsupported(f"operator in {src}")
        if isinstance(n, ast.IfExp):
            test, pol = strip_nots(n.test)
            a, b = (n.body, n.orelse) if pol else (n.orelse, n.body)
            return f"(if {self.p(test, env)} then {self.e(a, env)} else {self.e(b, env)})"
        if isinstance(n, ast.Subscript) and isinstance(n.slice, ast.Constant) and isinstance(n.slice.value, int) \
                and not isinstance(n.slice.value, bool) and n.slice.value >= 0:
            return f"({self.e(n.value, env)}.getD {n.slice.value} 0)"
        if isinstance(n, ast.Call):
            return self.call(n, env)
        raise Unsupported(f"expression {src[:80]}")

    def call(self, n: ast.Call, env: dict) -> str:
        f = ast.unparse(n.func)
        if f in ("sum", "max", "min") and len(n.args) == 1 and not n.keywords \
                and isinstance(n.args[0], (ast.GeneratorExp, ast.ListComp)):
            lean = {"sum": "pySum", "max": "pyMaxL", "min": "pyMinL"}[f]
            return f"({lean} {self.gen(n.args[0], env)})"
        if f in ("max", "min") and len(n.args) == 2 and not n.keywords:
            a, b = (self.e(x, env) for x in n.args)
            return f"(py{f.capitalize()} {a} {b})"
        if f == "len" and len(n.args) == 1 and not n.keywords:
            return f"(({self.e(n.args[0], env)}.length : Nat) : Rat)"
        if f == "float" and len(n.args) == 1 and not n.keywords:
            return self.e(n.args[0], env)
        if f == "PowerBounds":
            return self.struct(n, env)
        raise Unsupported(f"call {ast.unparse(n)[:80]}")

    def struct(self, n: ast.Call, env: dict) -> str:
        if not self.pb_fields:
            raise Unsupported("PowerBounds(...) before the dataclass was read")
        if any(k.arg is None for k in n.keywords) or any(isinstance(a, ast.Starred) for a in n.args):
            raise Unsupported("PowerBounds(*args / **kwargs)")
        vals: dict[str, ast.expr] = dict(zip(self.pb_fields, n.args))
        for k in n.keywords:
            if k.arg in vals or k.arg not in self.pb_fields:
                raise Unsupported(f"PowerBounds(...): argument {k.arg}")
            vals[k.arg] = k.value  # type: ignore[index]
        if len(n.args) > len(self.pb_fields) or set(vals) != set(self.pb_fields):
            raise Unsupported(f"PowerBounds(...): fields {sorted(vals)}")
        return "{ " + ", ".join(f"{f} := {self.e(vals[f], env)}" for f in self.pb_fields) + " : PowerBounds }"

    def gen(self, g: ast.GeneratorExp | ast.ListComp, env: dict) -> str:
        if any(c.ifs or c.is_async for c in g.generators) or not 1 <= len(g.generators) <= 2:
            raise Unsupported(f"generator {ast.unparse(g)[:80]}")
        env = dict(env)
        binders = []
        depth0 = self.depth
        for c in g.generators:
            it = self.e(c.iter, env)
            self.depth += 1
            v = f"x{self.depth}"
            if isinstance(c.target, ast.Name):
                env[c.target.id] = ("v", v)
            elif isinstance(c.target, ast.Tuple) and len(c.target.elts) == 2 and all(isinstance(x, ast.Name) for x in c.target.elts):
                for i, x in enumerate(c.target.elts):
                    if x.id != "_":  # type: ignore[attr-defined]
                        env[x.id] = ("v", f"{v}.{i + 1}")  # type: ignore[attr-defined]
            else:
                raise Unsupported(f"generator target {ast.unparse(c.target)}")
            binders.append((v, it))
        body = self.e(g.elt, env)
        self.depth = depth0
        if len(binders) == 1:
            (v, it), = binders
            return f"(List.map (fun {v} => {body}) {it})"
        (v1, it1), (v2, it2) = binders
        return f"(List.flatMap (fun {v1} => List.map (fun {v2} => {body}) {it2}) {it1})"

    # ---- propositions
    _OPS = {ast.Lt: "<", ast.LtE: "≤", ast.Gt: ">", ast.GtE: "≥", ast.Eq: "=", ast.NotEq: "≠"}

    def _links(self, n: ast.Compare, env: dict) -> list[str]:
        parts, left = [], n.left
        for op, right in zip(n.ops, n.comparators):
            sym = self._OPS.get(type(op))
            if sym is None:
                raise Unsupported(f"comparison in {ast.unparse(n)}")
            parts.append(f"{self.e(left, env)} {sym} {self.e(right, env)}")
            left = right
        return parts

    def _junct(self, n: ast.expr, neg: bool, env: dict, conj: bool) -> list[str]:
        """Flattened operands of the conjunction (`conj`) / disjunction that `n` (negated if `neg`) stands for."""
        n, pol = strip_nots(n)
        neg = neg != (not pol)
        if isinstance(n, ast.Name) and n.id in env and env[n.id][0] == "p":
            node = env[n.id][2] if len(env[n.id]) > 2 else None
            if node is not None:
                return self._junct(node[0], neg, node[1], conj)
        if isinstance(n, ast.BoolOp):
            is_and = isinstance(n.op, ast.And) != neg
            if is_and == conj:
                return [x for v in n.values for x in self._junct(v, neg, env, conj)]
        if isinstance(n, ast.Compare) and not neg and conj:
            return self._links(n, env)
        if isinstance(n, ast.Compare) and neg and not conj and len(n.ops) > 1:
            return [f"(¬ ({x}))" for x in self._links(n, env)]
        return [self._p(n, neg, env)]

    def _p(self, n: ast.expr, neg: bool, env: dict) -> str:
        n, pol = strip_nots(n)
        neg = neg != (not pol)
        src = ast.unparse(n)
        if src in self.attrs and self.attrs[src][0] == "p":
            t = self.attrs[src][1]
            return f"(¬ {t})" if neg else t
        if isinstance(n, ast.Name):
            if n.id not in env or env[n.id][0] != "p":
                raise Unsupported(f"`{n.id}` used as a condition")
            v = env[n.id]
            if len(v) > 2:  # re-translate the defining expression under the requested polarity (De Morgan)
                return self._p(v[2][0], neg, v[2][1])
            return f"(¬ {v[1]})" if neg else v[1]
        if isinstance(n, ast.BoolOp):
            is_and = isinstance(n.op, ast.And) != neg
            parts = [x for v in n.values for x in self._junct(v, neg, env, is_and)]
            return "(" + (" ∧ " if is_and else " ∨ ").join(parts) + ")"
        if isinstance(n, ast.Compare):
            links = self._links(n, env)
            if neg and len(links) > 1:  # a chain is the conjunction of its links
                return "(" + " ∨ ".join(f"(¬ ({x}))" for x in links) + ")"
            t = "(" + " ∧ ".join(links) + ")"
            return f"(¬ {t})" if neg else t
        if isinstance(n, ast.Constant) and isinstance(n.value, bool):
            return "True" if n.value != neg else "False"
        if isinstance(n, ast.Call):
            f = ast.unparse(n.func)
            t = None
            if f == "math.isclose":
                args = list(n.args)
                kw = {k.arg: k.value for k in n.keywords}
                a = args[0] if args else kw.pop("a", None)
                b = args[1] if len(args) > 1 else kw.pop("b", None)
                if a is None or b is None or len(args) > 2 or set(kw) - {"rel_tol", "abs_tol"}:
                    raise Unsupported(f"isclose call {src}")
                opt = "".join(f" ({k} := {self.e(kw[k], env)})" for k in ("rel_tol", "abs_tol") if k in kw)
                t = f"(pyIsclose {self.e(a, env)} {self.e(b, env)}{opt})"
            elif f in ("is_close_to_zero", "_math.is_close_to_zero") and len(n.args) == 1 and not n.keywords:
                t = f"(isCloseToZero {self.e(n.args[0], env)})"
            if t is not None:
                return f"(¬ {t})" if neg else t
        raise Unsupported(f"condition {src[:80]}")

    def p(self, n: ast.expr, env: dict) -> str:
        return self._p(n, False, env)

    # ---- statements
    def block(self, stmts: list[ast.stmt], env: dict, ind: str, fall=None, ret=None, cont=None) -> str:
        """`fall(env)` / `cont(env)` / `ret(value, env)` give the Lean text of the result at the three kinds of exit."""
        return self._show(self._merge(self._tree(stmts, env, fall, ret, cont)), ind)

    # decision tree: ("leaf", text) | ("if", test, env, then-tree, else-tree)
    def _merge(self, t: tuple) -> tuple:
        """`if a: X elif b: X else: Y` = `if a or b: X else: Y`; `if a: (if b: X else: Y) else: Y` = `if a and b: X else: Y`;
        `if a: X else: X` = `X` — so consecutive guard clauses with the same outcome and one combined test give one term."""
        if t[0] == "leaf":
            return t
        _, test, env, a, b = t
        a, b = self._merge(a), self._merge(b)
        if a == b:
            return a
        if b[0] == "if" and b[2] == env and b[3] == a:
            return self._merge(("if", ast.BoolOp(op=ast.Or(), values=[test, b[1]]), env, a, b[4]))
        if a[0] == "if" and a[2] == env and a[4] == b:
            return self._merge(("if", ast.BoolOp(op=ast.And(), values=[test, a[1]]), env, a[3], b))
        return ("if", test, env, a, b)

    def _show(self, t: tuple, ind: str) -> str:
        if t[0] == "leaf":
            return ind + t[1]
        _, test, env, a, b = t
        return (f"{ind}if {self.p(test, env)} then\n" + self._show(a, ind + "  ")
                + f"\n{ind}else\n" + self._show(b, ind + "  "))

    def _tree(self, stmts: list[ast.stmt], env: dict, fall=None, ret=None, cont=None) -> tuple:
        if not stmts:
            if fall is None:
                raise Unsupported("control falls off the end of the translated block")
            return ("leaf", fall(env))
        s, rest = stmts[0], stmts[1:]
        if isinstance(s, ast.Expr):
            if isinstance(s.value, ast.Constant) and isinstance(s.value.value, str):
                return self._tree(rest, env, fall, ret, cont)
            if isinstance(s.value, ast.Call) and ast.unparse(s.value.func).startswith("_logger."):
                return self._tree(rest, env, fall, ret, cont)
            raise Unsupported(f"statement {ast.unparse(s)[:60]}")
        if isinstance(s, (ast.Assert, ast.Pass)):
            return self._tree(rest, env, fall, ret, cont)  # preconditions: part of the model's well-formedness
        if isinstance(s, (ast.Assign, ast.AnnAssign, ast.AugAssign)):
            if isinstance(s, ast.Assign):
                if len(s.targets) != 1:
                    raise Unsupported("multiple assignment")
                tgt, val = s.targets[0], s.value
            elif isinstance(s, ast.AnnAssign):
                if s.value is None:
                    return self._tree(rest, env, fall, ret, cont)
                tgt, val = s.target, s.value
            else:
                tgt = s.target
                if not isinstance(s.op, (ast.Add, ast.Sub, ast.Mult)):
                    raise Unsupported("augmented assignment operator")
                val = ast.BinOp(left=ast.Name(id=getattr(tgt, "id", "?"), ctx=ast.Load()), op=s.op, right=s.value)
            if not isinstance(tgt, ast.Name):
                raise Unsupported(f"assignment target {ast.unparse(tgt)}")
            if tgt.id in self.skip_targets:
                return self._tree(rest, env, fall, ret, cont)
            env = dict(env)
            if Tr.is_boolish(val) or (isinstance(val, ast.Name) and val.id in env and env[val.id][0] == "p") \
                    or (ast.unparse(val) in self.attrs and self.attrs[ast.unparse(val)][0] == "p"):
                env[tgt.id] = ("p", self.p(val, env), (val, dict(env)))
            else:
                env[tgt.id] = ("v", self.e(val, env))
            return self._tree(rest, env, fall, ret, cont)
        if isinstance(s, ast.If):
            # polarity of the test, looking through `not` and through locals that merely name a condition
            test, pol, tenv = s.test, True, env
            while True:
                test, q = strip_nots(test)
                pol = pol == q
                if isinstance(test, ast.Name) and test.id in tenv and tenv[test.id][0] == "p" and len(tenv[test.id]) > 2:
                    test, tenv = tenv[test.id][2]
                    continue
                break
            a, b = (s.body, s.orelse) if pol else (s.orelse, s.body)
            self.p(test, tenv)  # refuse an untranslatable test here, not while printing
            return ("if", test, tenv, self._tree(a + rest, env, fall, ret, cont), self._tree(b + rest, env, fall, ret, cont))
        if isinstance(s, ast.Return) and isinstance(s.value, ast.IfExp):  # `return a if c else b`
            v = s.value
            return self._tree([ast.If(test=v.test, body=[ast.Return(value=v.body)], orelse=[ast.Return(value=v.orelse)])],
                              env, fall, ret, cont)
        if isinstance(s, ast.Return):
            if ret is None:
                raise Unsupported("return in a block without return mapping")
            return ("leaf", ret(s.value, env))
        if isinstance(s, ast.Continue):
            if cont is None:
                raise Unsupported("continue outside a loop segment")
            return ("leaf", cont(env))
        raise Unsupported(f"statement {type(s).__name__}: {ast.unparse(s)[:60]}")


class _SubstNames(ast.NodeTransformer):
    def __init__(self, m: dict[str, ast.expr]):
        self.m = m

    def visit_Name(self, node: ast.Name) -> ast.AST:  # noqa: N802
        if isinstance(node.ctx, ast.Load) and node.id in self.m:
            import copy
            return copy.deepcopy(self.m[node.id])
        return node


def inline_helpers(fn: ast.FunctionDef, scopes: list[ast.AST], keep: tuple[str, ...] = ()) -> ast.FunctionDef:
    """Calls of `self._h(...)` / `_h(...)` whose definition (a method of the class / a function of the module in
    `scopes`) is a single `return <expr>` are replaced by that expression with the arguments substituted
    (extracted-helper refactors).  Anything else is left as a call (and later refused by the translator)."""
    import copy
    methods: dict[str, ast.FunctionDef] = {}
    functions: dict[str, ast.FunctionDef] = {}
    for holder in scopes:
        for m in getattr(holder, "body", []):
            if not isinstance(m, ast.FunctionDef) or m.name == fn.name or m.name in keep:
                continue
            body = [s for s in m.body if not (isinstance(s, ast.Expr) and isinstance(s.value, ast.Constant))]
            if len(body) == 1 and isinstance(body[0], ast.Return) and body[0].value is not None \
                    and not (m.args.vararg or m.args.kwarg or m.args.kwonlyargs or m.args.posonlyargs):
                (methods if isinstance(holder, ast.ClassDef) else functions)[m.name] = m

    def expand(m: ast.FunctionDef, params: list[str], node: ast.Call) -> ast.AST:
        if any(isinstance(a, ast.Starred) for a in node.args) or any(k.arg is None for k in node.keywords):
            return node
        bind: dict[str, ast.expr] = dict(zip(params, node.args))
        for k in node.keywords:
            if k.arg not in params or k.arg in bind:
                return node
            bind[k.arg] = k.value  # type: ignore[index]
        defaults = dict(zip(reversed([a.arg for a in m.args.args]), reversed(m.args.defaults)))
        for q in params:
            if q not in bind and q in defaults:
                bind[q] = defaults[q]
        if len(node.args) > len(params) or set(bind) != set(params):
            return node
        body = [s for s in m.body if not (isinstance(s, ast.Expr) and isinstance(s.value, ast.Constant))]
        return _SubstNames(bind).visit(copy.deepcopy(body[0].value))  # type: ignore[attr-defined]

    class V(ast.NodeTransformer):
        def visit_Call(self, node: ast.Call) -> ast.AST:  # noqa: N802
            self.generic_visit(node)
            f = node.func
            if isinstance(f, ast.Attribute) and isinstance(f.value, ast.Name) and f.value.id == "self" and f.attr in methods:
                m = methods[f.attr]
                params = [a.arg for a in m.args.args]
                if any(ast.unparse(d) == "staticmethod" for d in m.decorator_list):
                    return expand(m, params, node)
                if m.decorator_list or not params:
                    return node
                return expand(m, params[1:], node)
            if isinstance(f, ast.Name) and f.id in functions and not functions[f.id].decorator_list:
                return expand(functions[f.id], [a.arg for a in functions[f.id].args.args], node)
            return node

    return ast.fix_missing_locations(V().visit(copy.deepcopy(fn)))


# --------------------------------------------------------------------------------------- AST navigation
def parse(repo: pathlib.Path, rel: str) -> ast.Module:
    return ast.parse((repo / rel).read_text())


def find_func(tree: ast.AST, name: str, cls: str | None = None) -> ast.FunctionDef:
    scope: ast.AST = tree
    if cls is not None:
        scope = next((n for n in ast.walk(tree) if isinstance(n, ast.ClassDef) and n.name == cls), None)  # type: ignore[assignment]
        if scope is None:
            raise Unsupported(f"class {cls} not found")
    for n in ast.walk(scope):
        if isinstance(n, (ast.FunctionDef, ast.AsyncFunctionDef)) and n.name == name:
            return n  # type: ignore[return-value]
    raise Unsupported(f"function {cls + '.' if cls else ''}{name} not found")


def body_no_doc(fn: ast.FunctionDef) -> list[ast.stmt]:
    b = list(fn.body)
    if b and isinstance(b[0], ast.Expr) and isinstance(b[0].value, ast.Constant) and isinstance(b[0].value.value, str):
        b = b[1:]
    return b


def str_list(node: ast.expr, what: str) -> list[str]:
    if not isinstance(node, ast.List) or not all(isinstance(e, ast.Constant) and isinstance(e.value, str) for e in node.elts):
        raise Unsupported(f"{what}: expected a list of string literals")
    return [e.value for e in node.elts]  # type: ignore[attr-defined]


def metric_list(node: ast.expr, what: str) -> list[str]:
    if not isinstance(node, ast.List):
        raise Unsupported(f"{what}: expected a list")
    out = []
    for e in node.elts:
        if not (isinstance(e, ast.Attribute) and ast.unparse(e.value) == "ComponentMetricId"):
            raise Unsupported(f"{what}: expected ComponentMetricId.X entries")
        out.append(e.attr)
    return out


def lean_strs(xs: list[str]) -> str:
    return "[" + ", ".join(f'"{x}"' for x in xs) + "]"


def assigned_value(stmts: list[ast.stmt], target_src: str) -> ast.expr:
    for s in stmts:
        for n in ast.walk(s):
            if isinstance(n, ast.Assign) and len(n.targets) == 1 and ast.unparse(n.targets[0]) == target_src:
                return n.value
            if isinstance(n, ast.AnnAssign) and n.value is not None and ast.unparse(n.target) == target_src:
                return n.value
    raise Unsupported(f"assignment to {target_src} not found")


# --------------------------------------------------------------------------------------- sites
def _params(fn: ast.FunctionDef, n: int, what: str, method: bool = False) -> list[str]:
    """Positional parameter names (without `self`); the count is checked, the names are not."""
    a = fn.args
    if a.vararg or a.kwarg or a.kwonlyargs or a.posonlyargs:
        raise Unsupported(f"{what}: signature")
    names = [x.arg for x in a.args]
    if method:
        if not names:
            raise Unsupported(f"{what}: signature")
        names = names[1:]
    if len(names) != n:
        raise Unsupported(f"{what}: expected {n} parameters, found {names}")
    return names


def _class_of(tree: ast.AST, cls: str) -> ast.ClassDef:
    c = next((n for n in ast.walk(tree) if isinstance(n, ast.ClassDef) and n.name == cls), None)
    if c is None:
        raise Unsupported(f"class {cls} not found")
    return c


PB_FIELDS: list[str] = []


def gen_math(repo: pathlib.Path) -> str:
    tree = parse(repo, P_MATH)
    fn = find_func(tree, "is_close_to_zero")
    value, abs_tol = _params(fn, 2, "is_close_to_zero")
    if len(fn.args.defaults) != 1:
        raise Unsupported("is_close_to_zero signature")
    d = fn.args.defaults[0]
    if not (isinstance(d, ast.Constant) and isinstance(d.value, (int, float)) and not isinstance(d.value, bool)):
        raise Unsupported("is_close_to_zero abs_tol default")
    fn = inline_helpers(fn, [tree])
    tr = CTr()
    env = {value: ("v", "value"), abs_tol: ("v", "abs_tol")}
    body = tr.block(body_no_doc(fn), env, "  ", None, ret=lambda v, env: tr.p(v, env))
    return (f"/-- default `abs_tol` of `_math.is_close_to_zero` -/\n"
            f"def closeToZeroAbsTol : Rat := {rat_lit(d.value)}\n\n"
            f"/-- `_math.is_close_to_zero` -/\n"
            f"def isCloseToZero (value : Rat) (abs_tol : Rat := closeToZeroAbsTol) : Prop :=\n{body}\n\n"
            f"instance (v t : Rat) : Decidable (isCloseToZero v t) := by unfold isCloseToZero; infer_instance\n")


def gen_powerbounds_struct(repo: pathlib.Path) -> str:
    tree = parse(repo, P_RESULT)
    cls = next((n for n in tree.body if isinstance(n, ast.ClassDef) and n.name == "PowerBounds"), None)
    if cls is None:
        raise Unsupported("result.PowerBounds not found")
    fields = [s.target.id for s in cls.body if isinstance(s, ast.AnnAssign) and isinstance(s.target, ast.Name)
              and ast.unparse(s.annotation) == "float"]
    if sorted(fields) != sorted(["inclusion_lower", "exclusion_lower", "exclusion_upper", "inclusion_upper"]):
        raise Unsupported(f"PowerBounds fields changed: {fields}")
    PB_FIELDS[:] = fields
    return ("/-- `result.PowerBounds` -/\nstructure PowerBounds where\n"
            + "".join(f"  {f} : Rat\n" for f in fields) + "deriving Repr, DecidableEq\n")


def gen_algo(repo: pathlib.Path) -> str:
    tree = parse(repo, P_ALGO)
    fn = find_func(tree, "_aggregate_battery_power_bounds")
    (metrics,) = _params(fn, 1, "_aggregate_battery_power_bounds")
    fn = inline_helpers(fn, [tree])
    tr = CTr(pb_fields=PB_FIELDS)
    body = tr.block(fold_sum_loops(body_no_doc(fn)), {metrics: ("v", "battery_metrics")}, "  ", None,
                    ret=lambda v, env: tr.e(v, env))
    out = ("/-- `_aggregate_battery_power_bounds` (precondition `len(battery_metrics) > 0`) -/\n"
           f"def aggregateBatteryPowerBounds (battery_metrics : List PowerBounds) : PowerBounds :=\n{body}\n\n")
    # AggregatedBatteryData.__init__: self.power_bounds = _aggregate_battery_power_bounds(<PowerBounds(...) of each battery>)
    cls = _class_of(tree, "AggregatedBatteryData")
    init = inline_helpers(find_func(cls, "__init__"), [cls, tree])
    (batteries,) = _params(init, 1, "AggregatedBatteryData.__init__", method=True)
    vals = [n.value for n in ast.walk(init) if isinstance(n, (ast.Assign, ast.AnnAssign)) and n.value is not None
            and ast.unparse(n.targets[0] if isinstance(n, ast.Assign) else n.target) == "self.power_bounds"]
    if len(vals) != 1:
        raise Unsupported("AggregatedBatteryData.__init__: expected exactly one assignment to self.power_bounds")
    val = vals[0]
    if not (isinstance(val, ast.Call) and ast.unparse(val.func) == "_aggregate_battery_power_bounds"
            and len(val.args) == 1 and not val.keywords):
        raise Unsupported("AggregatedBatteryData.power_bounds: expected _aggregate_battery_power_bounds(<one list>)")
    inner = val.args[0]
    if isinstance(inner, ast.Name):  # a local holding the list
        defs = [n.value for n in ast.walk(init) if isinstance(n, (ast.Assign, ast.AnnAssign)) and n.value is not None
                and ast.unparse(n.targets[0] if isinstance(n, ast.Assign) else n.target) == inner.id]
        if len(defs) != 1:
            raise Unsupported(f"AggregatedBatteryData.power_bounds: `{inner.id}` is not assigned exactly once")
        inner = defs[0]
    while isinstance(inner, ast.Call) and ast.unparse(inner.func) in ("list", "tuple") and len(inner.args) == 1 and not inner.keywords:
        inner = inner.args[0]
    var = elt = None
    if isinstance(inner, ast.Call) and ast.unparse(inner.func) == "map" and len(inner.args) == 2 and not inner.keywords \
            and isinstance(inner.args[0], ast.Lambda) and len(inner.args[0].args.args) == 1 \
            and ast.unparse(inner.args[1]) == batteries:
        var, elt = inner.args[0].args.args[0].arg, inner.args[0].body
    elif isinstance(inner, (ast.ListComp, ast.GeneratorExp)) and len(inner.generators) == 1 \
            and not inner.generators[0].ifs and isinstance(inner.generators[0].target, ast.Name) \
            and ast.unparse(inner.generators[0].iter) == batteries:
        var, elt = inner.generators[0].target.id, inner.elt
    if var is None:
        raise Unsupported("AggregatedBatteryData.power_bounds: expected one PowerBounds(...) per element of `batteries` "
                          "(map(lambda …, batteries) or a comprehension over it)")
    out += ("/-- `AggregatedBatteryData.__init__`: per-battery `PowerBounds` handed to `_aggregate_battery_power_bounds` -/\n"
            f"def batteryPowerBounds (metrics : BatteryData) : PowerBounds :=\n  "
            f"{CTr(pb_fields=PB_FIELDS).e(elt, {var: ('v', 'metrics')})}\n")
    return out


def _top_assign(stmts: list[ast.stmt], pred, what: str) -> tuple[int, str]:
    hits = [(i, s) for i, s in enumerate(stmts) if isinstance(s, (ast.Assign, ast.AnnAssign)) and s.value is not None
            and pred(s.value)]
    if len(hits) != 1:
        raise Unsupported(f"_check_request: expected exactly one top-level `{what}`, found {len(hits)}")
    i, s = hits[0]
    tgt = s.targets[0] if isinstance(s, ast.Assign) and len(s.targets) == 1 else getattr(s, "target", None)
    if not isinstance(tgt, ast.Name):
        raise Unsupported(f"_check_request: target of `{what}`")
    return i, tgt.id


def _crucial_lists(fn: ast.FunctionDef) -> tuple[list[str], list[str]]:
    """The metric lists whose NaN check guards the battery data resp. the inverter data of the returned pair.

    Roles: the function returns `InvBatPair(AggregatedBatteryData(B), I)`; before that, `if <check>(B, L1): return None`
    and `if <check>(I, L2): return None` where `<check>` is the local NaN test and `L1`/`L2` are lists of string
    literals (given inline or through a local)."""
    rets = [s for s in ast.walk(fn) if isinstance(s, ast.Return) and isinstance(s.value, ast.Call)
            and ast.unparse(s.value.func) == "InvBatPair"]
    if len(rets) != 1:
        raise Unsupported("_get_battery_inverter_data: expected exactly one `return InvBatPair(...)`")
    call = rets[0].value
    args = list(call.args) + [k.value for k in call.keywords]  # type: ignore[attr-defined]
    kw = {k.arg: k.value for k in call.keywords}  # type: ignore[attr-defined]
    bat = kw.get("battery", args[0] if call.args else None)  # type: ignore[attr-defined]
    inv = kw.get("inverter", call.args[1] if len(call.args) > 1 else None)  # type: ignore[attr-defined]
    if not (isinstance(bat, ast.Call) and ast.unparse(bat.func) == "AggregatedBatteryData" and len(bat.args) == 1
            and isinstance(bat.args[0], ast.Name) and isinstance(inv, ast.Name)):
        raise Unsupported("_get_battery_inverter_data: expected InvBatPair(AggregatedBatteryData(<batteries>), <inverters>)")
    bvar, ivar = bat.args[0].id, inv.id

    def lit(n: ast.expr) -> list[str]:
        if isinstance(n, ast.Name):
            defs = [x.value for x in ast.walk(fn) if isinstance(x, (ast.Assign, ast.AnnAssign)) and x.value is not None
                    and ast.unparse(x.targets[0] if isinstance(x, ast.Assign) else x.target) == n.id]
            if len(defs) != 1:
                raise Unsupported(f"_get_battery_inverter_data: `{n.id}` is not assigned exactly once")
            n = defs[0]
        return str_list(n, "crucial metrics")

    found: dict[str, list[str]] = {}
    for s in fn.body:
        if not isinstance(s, ast.If):
            continue
        test = s.test
        if not (isinstance(test, ast.Call) and isinstance(test.func, ast.Name) and len(test.args) == 2 and not test.keywords
                and isinstance(test.args[0], ast.Name) and test.args[0].id in (bvar, ivar)):
            continue
        body = [x for x in s.body if not (isinstance(x, ast.Expr) and isinstance(x.value, ast.Call)
                                          and ast.unparse(x.value.func).startswith("_logger."))]
        if not (len(body) == 1 and isinstance(body[0], ast.Return) and (body[0].value is None or (
                isinstance(body[0].value, ast.Constant) and body[0].value.value is None)) and not s.orelse):
            raise Unsupported("_get_battery_inverter_data: a NaN check no longer returns None")
        if test.args[0].id in found:
            raise Unsupported("_get_battery_inverter_data: two NaN checks of the same data")
        found[test.args[0].id] = lit(test.args[1])
    if set(found) != {bvar, ivar}:
        raise Unsupported("_get_battery_inverter_data: the NaN checks of the battery / inverter data were not found")
    return found[bvar], found[ivar]


def gen_manager(repo: pathlib.Path) -> str:
    tree = parse(repo, P_MGR)
    cls = _class_of(tree, "BatteryManager")
    # ---- _get_bounds
    fn = inline_helpers(find_func(cls, "_get_bounds"), [cls, tree])
    (pairs,) = _params(fn, 1, "_get_bounds", method=True)
    tr = CTr(pb_fields=PB_FIELDS)
    body = tr.block(fold_sum_loops(body_no_doc(fn)), {pairs: ("v", "pairs_data")}, "  ", None, ret=lambda v, env: tr.e(v, env))
    out = ("/-- `BatteryManager._get_bounds` -/\n"
           f"def getBounds (pairs_data : List (AggregatedBatteryData × List InverterData)) : PowerBounds :=\n{body}\n\n")
    # ---- _check_request: what follows `<bounds> = self._get_bounds(<pairs>)` and `<power> = <request>.power.as_watts()`
    fn = inline_helpers(find_func(cls, "_check_request"), [cls, tree], keep=("_get_bounds",))
    req, pairs = _params(fn, 2, "_check_request", method=True)
    stmts = body_no_doc(fn)
    bi, bvar = _top_assign(stmts, lambda v: ast.unparse(v) == f"self._get_bounds({pairs})", "… = self._get_bounds(pairs_data)")
    pi, pvar = _top_assign(stmts, lambda v: ast.unparse(v) == f"{req}.power.as_watts()", "… = request.power.as_watts()")
    tail = stmts[max(bi, pi) + 1:]
    for s in stmts[min(bi, pi) + 1:max(bi, pi)] + tail:
        for x in ast.walk(s):
            if isinstance(x, ast.Name) and isinstance(x.ctx, ast.Store) and x.id in (bvar, pvar, req):
                raise Unsupported(f"_check_request: `{x.id}` is reassigned")
    tr = CTr(attrs={f"{req}.adjust_power": ("p", "adjust_power = true")}, pb_fields=PB_FIELDS)

    def ret(v, env):
        if v is None or (isinstance(v, ast.Constant) and v.value is None):
            return "false"
        if isinstance(v, ast.IfExp):
            test, pol = strip_nots(v.test)
            a, b = (v.body, v.orelse) if pol else (v.orelse, v.body)
            return f"(if {tr.p(test, env)} then {ret(a, env)} else {ret(b, env)})"
        if isinstance(v, ast.Call) and ast.unparse(v.func) == "OutOfBounds":
            if v.args or {k.arg: ast.unparse(k.value) for k in v.keywords} != {"request": req, "bounds": bvar}:
                raise Unsupported("OutOfBounds(...) arguments")
            return "true"
        raise Unsupported(f"_check_request returns {ast.unparse(v)[:60]}")

    body = tr.block(tail, {bvar: ("v", "bounds"), pvar: ("v", "power")}, "  ", lambda env: "false", ret=ret)
    out += ("/-- tail of `BatteryManager._check_request` (after the id checks): `true` = answered with `OutOfBounds` -/\n"
            f"def checkRequest (bounds : PowerBounds) (power : Rat) (adjust_power : Bool) : Bool :=\n{body}\n\n")
    # ---- crucial metrics
    bat, inv = _crucial_lists(find_func(cls, "_get_battery_inverter_data"))
    out += ("/-- `_get_battery_inverter_data`: a NaN in one of these drops the whole battery set -/\n"
            f"def crucialMetricsBat : List String := {lean_strs(bat)}\n"
            f"def crucialMetricsInv : List String := {lean_strs(inv)}\n")
    return out


def loop_segment(fn: ast.FunctionDef, after_continue_test) -> tuple[list[ast.stmt], list[ast.stmt], ast.For, list[ast.stmt]]:
    """Split `calculate`: (statements before the for-loop, loop body after the last skip-`continue`, loop, statements after)."""
    stmts = body_no_doc(fn)
    li = next((i for i, s in enumerate(stmts) if isinstance(s, ast.For)), None)
    if li is None:
        raise Unsupported(f"{fn.name}: for-loop not found")
    loop = stmts[li]
    assert isinstance(loop, ast.For)
    if loop.orelse:
        raise Unsupported("for-else")
    ci = None
    for i, s in enumerate(loop.body):
        if isinstance(s, ast.If) and len(s.body) == 1 and isinstance(s.body[0], ast.Continue) and not s.orelse:
            if after_continue_test(s.test):
                ci = i
    if ci is None:
        raise Unsupported(f"{fn.name}: the skip-`continue` guarding the arithmetic was not found")
    return stmts[:li], loop.body[ci + 1:], loop, stmts[li + 1:]


def zero_inits(pre: list[ast.stmt], skip: set[str]) -> list[str]:
    accs = []
    for s in pre:
        tgt = val = None
        if isinstance(s, ast.Assign) and len(s.targets) == 1:
            tgt, val = s.targets[0], s.value
        elif isinstance(s, ast.AnnAssign):
            tgt, val = s.target, s.value
        if isinstance(tgt, ast.Name) and tgt.id not in skip and isinstance(val, ast.Constant) \
                and isinstance(val.value, (int, float)) and not isinstance(val.value, bool):
            if val.value != 0:
                raise Unsupported(f"accumulator {tgt.id} does not start at 0")
            accs.append(tgt.id)
    return accs


def metric_vars(loop_body: list[ast.stmt]) -> dict[str, str]:
    """`x = metrics.get(ComponentMetricId.M)` -> {M: x}"""
    out = {}
    for s in loop_body:
        if isinstance(s, ast.Assign) and len(s.targets) == 1 and isinstance(s.targets[0], ast.Name) \
                and isinstance(s.value, ast.Call) and ast.unparse(s.value.func) == "metrics.get" and len(s.value.args) == 1:
            a = s.value.args[0]
            if isinstance(a, ast.Attribute) and ast.unparse(a.value) == "ComponentMetricId":
                out[a.attr] = s.targets[0].id
    return out


def none_check_vars(test: ast.expr) -> set[str] | None:
    vals = test.values if isinstance(test, ast.BoolOp) and isinstance(test.op, ast.Or) else [test]
    names = set()
    for v in vals:
        if isinstance(v, ast.Compare) and len(v.ops) == 1 and isinstance(v.ops[0], ast.Is) and isinstance(v.left, ast.Name) \
                and isinstance(v.comparators[0], ast.Constant) and v.comparators[0].value is None:
            names.add(v.left.id)
        else:
            return None
    return names


def tuple_of(names: list[str]) -> str:
    return names[0] if len(names) == 1 else "(" + ", ".join(names) + ")"


def tuple_ty(n: int) -> str:
    return " × ".join(["Rat"] * n)


def gen_sample_calc(tree: ast.Module, cls: str, order: list[str], prefix: str, value_ctor: str) -> str:
    """SoCCalculator / CapacityCalculator: loop segment -> <prefix>Step, tail -> <prefix>Final, required metrics."""
    fn = find_func(tree, "calculate", cls)
    mv_holder: dict[str, str] = {}

    def is_none_guard(test: ast.expr) -> bool:
        names = none_check_vars(test)
        return names is not None and bool(names & set(mv_holder.values()))

    stmts = body_no_doc(fn)
    loop = next((s for s in stmts if isinstance(s, ast.For)), None)
    if loop is None:
        raise Unsupported(f"{cls}.calculate: loop not found")
    mv_holder.update(metric_vars(loop.body))
    if sorted(mv_holder) != sorted(order):
        raise Unsupported(f"{cls}.calculate reads metrics {sorted(mv_holder)}, expected {sorted(order)}")
    pre, seg, loop, post = loop_segment(fn, is_none_guard)
    guard = next(s for s in loop.body if isinstance(s, ast.If) and is_none_guard(s.test))
    checked = none_check_vars(guard.test)
    if checked != set(mv_holder.values()):
        raise Unsupported(f"{cls}.calculate: the None-guard checks {sorted(checked or [])}, not all of {sorted(mv_holder.values())}")
    accs = zero_inits(pre, {"timestamp"})
    if not accs:
        raise Unsupported(f"{cls}.calculate: no accumulators")
    params = [mv_holder[m] for m in order]
    tr = Tr(skip_targets={"timestamp"})
    body = tr.block(seg, {}, "  ", tuple_of(accs), cont=tuple_of(accs))
    out = (f"/-- metrics a battery needs to count in `{cls}` (order of the parameters below) -/\n"
           f"def {prefix}Required : List String := {lean_strs(order)}\n\n"
           f"/-- `{cls}.calculate`: loop body for one qualifying battery; state = ({', '.join(accs)}) -/\n"
           f"def {prefix}Step " + " ".join(f"({a} : Rat)" for a in accs) + " "
           + " ".join(f"({p} : Rat)" for p in params) + f" : {tuple_ty(len(accs))} :=\n{body}\n\n")
    # tail: after `if timestamp == _MIN_TIMESTAMP: return Sample(now, None)`
    gi = next((i for i, s in enumerate(post) if isinstance(s, ast.If) and ast.unparse(s.test) == "timestamp == _MIN_TIMESTAMP"), None)
    tail: list[ast.stmt]
    if gi is not None:
        tail = post[gi + 1:]
        if post[:gi]:
            raise Unsupported(f"{cls}.calculate: statements between the loop and the no-data return")
    else:
        # CapacityCalculator: `return (Sample(now, None) if timestamp == _MIN_TIMESTAMP else Sample(timestamp, Energy...(x)))`
        if not (len(post) == 1 and isinstance(post[0], ast.Return) and isinstance(post[0].value, ast.IfExp)
                and ast.unparse(post[0].value.test) == "timestamp == _MIN_TIMESTAMP"):
            raise Unsupported(f"{cls}.calculate: tail shape")
        tail = [ast.Return(value=post[0].value.orelse)]

    def ret(v, env):
        # Sample(timestamp=timestamp, value=Percentage.from_percent(pct)) / Sample[Energy](timestamp, Energy.from_watt_hours(x))
        if not isinstance(v, ast.Call) or not ast.unparse(v.func).startswith("Sample"):
            raise Unsupported(f"{cls}.calculate returns {ast.unparse(v)[:60]}")
        args = list(v.args) + [k.value for k in v.keywords if k.arg == "value"]
        val = args[-1]
        if not (isinstance(val, ast.Call) and ast.unparse(val.func) == value_ctor and len(val.args) + len(val.keywords) == 1):
            raise Unsupported(f"{cls}.calculate: expected {value_ctor}(x)")
        inner = val.args[0] if val.args else val.keywords[0].value
        return tr2.e(inner, env)

    tr2 = Tr(skip_targets={"timestamp"})
    body = tr2.block(tail, {}, "  ", None, ret=ret)
    out += (f"/-- `{cls}.calculate`: value returned once at least one battery qualified -/\n"
            f"def {prefix}Final " + " ".join(f"({a} : Rat)" for a in accs) + f" : Rat :=\n{body}\n")
    return out


def gen_power_bounds_calc(tree: ast.Module) -> str:
    cls = "PowerBoundsCalculator"
    init = find_func(tree, "__init__", cls)
    bat_ids = metric_list(assigned_value(init.body, "self._battery_metrics"), "_battery_metrics")
    inv_ids = metric_list(assigned_value(init.body, "self._inverter_metrics"), "_inverter_metrics")
    out = ("/-- `PowerBoundsCalculator`: metric ids requested per battery / inverter, in the order `get_validated_bounds` reads them -/\n"
           f"def batteryMetricIds : List String := {lean_strs(bat_ids)}\n"
           f"def inverterMetricIds : List String := {lean_strs(inv_ids)}\n\n")
    fn = find_func(tree, "calculate", cls)
    gv = find_func(fn, "get_validated_bounds")
    _, ids_param = _params(gv, 2, "get_validated_bounds")
    rets = [s for s in ast.walk(gv) if isinstance(s, ast.Return) and isinstance(s.value, ast.Call)
            and ast.unparse(s.value.func) == "PowerBounds"]
    if len(rets) != 1:
        raise Unsupported("get_validated_bounds: expected exactly one `return PowerBounds(...)`")
    res_vars = {x.value.id for x in ast.walk(rets[0].value) if isinstance(x, ast.Subscript) and isinstance(x.value, ast.Name)}
    if len(res_vars) != 1:
        raise Unsupported("get_validated_bounds: the returned bounds are no longer read from one list of results")
    (results,) = res_vars
    guards = {f"len({results}) != len({ids_param})", f"len({ids_param}) != len({results})"}
    guard_ok = any(isinstance(s, ast.If) and ast.unparse(s.test) in guards
                   and len(s.body) == 1 and isinstance(s.body[0], ast.Return)
                   and (s.body[0].value is None or (isinstance(s.body[0].value, ast.Constant) and s.body[0].value.value is None))
                   for s in gv.body)
    if not guard_ok:
        raise Unsupported("get_validated_bounds: the `len(results) != len(comp_metric_ids)` guard changed")
    out += ("/-- `get_validated_bounds`: `results` = the present values, in the order of the metric id list -/\n"
            f"def validatedBounds (results : List Rat) : PowerBounds :=\n  "
            f"{CTr(pb_fields=PB_FIELDS).e(rets[0].value, {results: ('v', 'results')})}\n\n")

    def is_empty_test(test: ast.expr, var: str) -> bool:
        return ast.unparse(test) in (f"len({var}) == 0", f"0 == len({var})", f"not {var}", f"len({var}) < 1")

    def is_inv_guard(test: ast.expr) -> bool:
        return is_empty_test(test, inv_var)  # type: ignore[arg-type]

    # names of the two per-group values (by the calls that produce them)
    loop = next((s for s in body_no_doc(fn) if isinstance(s, ast.For)), None)
    if loop is None:
        raise Unsupported("PowerBoundsCalculator.calculate: loop not found")
    agg_var = inv_var = bat_var = None
    for s in loop.body:
        if isinstance(s, ast.AnnAssign) and s.value is not None:
            s = ast.Assign(targets=[s.target], value=s.value)
        if isinstance(s, ast.Assign) and isinstance(s.targets[0], ast.Name) and isinstance(s.value, ast.Call):
            f = ast.unparse(s.value.func)
            if f == "_aggregate_battery_power_bounds" and len(s.value.args) == 1:
                agg_var, bat_var = s.targets[0].id, ast.unparse(s.value.args[0])
            if f == "get_bounds_list" and len(s.value.args) == 2 and ast.unparse(s.value.args[1]) == "self._inverter_metrics":
                inv_var = s.targets[0].id
    if not (agg_var and inv_var and bat_var):
        raise Unsupported("PowerBoundsCalculator.calculate: aggregated battery bounds / inverter bounds assignments not found")
    bat_guard = any(isinstance(s, ast.If) and is_empty_test(s.test, bat_var) and len(s.body) == 1
                    and isinstance(s.body[0], ast.Continue) and not s.orelse for s in loop.body)
    if not bat_guard:
        raise Unsupported("PowerBoundsCalculator.calculate: `if len(battery_bounds) == 0: continue` not found")
    pre, seg, loop, post = loop_segment(fn, is_inv_guard)
    # bookkeeping of the sample time: locals that start at _MIN_TIMESTAMP (not part of the arithmetic)
    stamps = set()
    for s0 in pre:
        t0 = s0.targets[0] if isinstance(s0, ast.Assign) and len(s0.targets) == 1 else getattr(s0, "target", None)
        if isinstance(t0, ast.Name) and isinstance(getattr(s0, "value", None), ast.Name) and s0.value.id == "_MIN_TIMESTAMP":  # type: ignore[union-attr]
            stamps.add(t0.id)
    accs_src = zero_inits(pre, stamps)
    # final return: SystemBounds(timestamp=…, inclusion_bounds=Bounds(Power.from_watts(a), Power.from_watts(b)), exclusion_bounds=…)
    final = [s for s in post if isinstance(s, ast.Return)]
    if len(final) != 1 or not isinstance(final[0].value, ast.Call) or not ast.unparse(final[0].value.func).endswith("SystemBounds"):
        raise Unsupported("PowerBoundsCalculator.calculate: final return")
    kws = {k.arg: k.value for k in final[0].value.keywords}

    def pw(n: ast.expr) -> ast.expr:
        if isinstance(n, ast.Call) and ast.unparse(n.func) == "Power.from_watts" and len(n.args) == 1 and not n.keywords:
            return n.args[0]
        raise Unsupported(f"SystemBounds value {ast.unparse(n)[:50]}")

    def bnd(n: ast.expr | None) -> tuple[ast.expr, ast.expr]:
        if isinstance(n, ast.Call) and ast.unparse(n.func).endswith("Bounds") and len(n.args) == 2 and not n.keywords:
            return pw(n.args[0]), pw(n.args[1])
        if isinstance(n, ast.Call) and ast.unparse(n.func).endswith("Bounds") and not n.args:
            kk = {k.arg: k.value for k in n.keywords}
            if set(kk) != {"lower", "upper"}:
                raise Unsupported("SystemBounds bounds shape")
            return pw(kk["lower"]), pw(kk["upper"])
        raise Unsupported("SystemBounds bounds shape")

    il, iu = bnd(kws.get("inclusion_bounds"))
    el, eu = bnd(kws.get("exclusion_bounds"))
    # the four running sums, in the canonical order (incl lower, incl upper, excl lower, excl upper): a running sum is
    # identified by the bound of the result it feeds, not by its name or by the position of its initialisation
    canon = ["inclusion_bounds_lower", "inclusion_bounds_upper", "exclusion_bounds_lower", "exclusion_bounds_upper"]
    roles = [x for r in (il, iu, el, eu) for x in sorted(_names_in(r) & set(accs_src))]
    if len(accs_src) != 4 or len(roles) != 4 or len(set(roles)) != 4 \
            or any(len(_names_in(r) & set(accs_src)) != 1 for r in (il, iu, el, eu)):
        raise Unsupported(f"PowerBoundsCalculator.calculate: expected 4 accumulators, one per streamed bound; found {accs_src}")
    env = {py: ("v", c) for py, c in zip(roles, canon)}
    tr = CTr(skip_targets=stamps, pb_fields=PB_FIELDS)
    state = lambda e: "(" + ", ".join(e[py][1] for py in roles) + ")"  # noqa: E731
    body = tr.block(fold_sum_loops(seg), {**env, agg_var: ("v", "aggregated_bat_bounds"), inv_var: ("v", "inverter_bounds")},
                    "  ", state, cont=state)
    out += (f"/-- `PowerBoundsCalculator.calculate`: loop body for one contributing battery set; state = ({', '.join(canon)}) -/\n"
            "def calcStep " + " ".join(f"({a} : Rat)" for a in canon)
            + f" (aggregated_bat_bounds : PowerBounds) (inverter_bounds : List PowerBounds) : {tuple_ty(4)} :=\n{body}\n\n")
    tr2 = CTr()
    out += ("/-- `PowerBoundsCalculator.calculate`: the `SystemBounds` streamed once a battery set contributed -/\n"
            "def calcResult " + " ".join(f"({a} : Rat)" for a in canon) + " : PowerBounds :=\n"
            f"  {{ inclusion_lower := {tr2.e(il, env)}, exclusion_lower := {tr2.e(el, env)}, "
            f"exclusion_upper := {tr2.e(eu, env)}, inclusion_upper := {tr2.e(iu, env)} }}\n")
    return out


def gen_methods_tables(repo: pathlib.Path) -> str:
    tree = parse(repo, P_SRC)
    out = ""
    for pyname, lean in (("_BatteryDataMethods", "batteryDataMethods"), ("_InverterDataMethods", "inverterDataMethods")):
        val = assigned_value(tree.body, pyname)
        if not isinstance(val, ast.Dict):
            raise Unsupported(f"{pyname}: expected a dict literal")
        rows = []
        for k, v in zip(val.keys, val.values):
            if not (isinstance(k, ast.Attribute) and ast.unparse(k.value) == "ComponentMetricId" and isinstance(v, ast.Lambda)):
                raise Unsupported(f"{pyname}: entry shape")
            b = v.body
            arg = v.args.args[0].arg
            if isinstance(b, ast.Attribute) and ast.unparse(b.value) == arg:
                rows.append((k.attr, b.attr))
            # per-phase entries (`msg.x[i]`) are not used by the pool calculators: left out of the table
        out += (f"/-- `{pyname}`: metric id -> attribute of the component message (scalar entries) -/\n"
                f"def {lean} : List (String × String) :=\n  ["
                + ",\n   ".join(f'("{a}", "{b}")' for a, b in rows) + "]\n\n")
    return out


def gen_base_types(repo: pathlib.Path) -> str:
    tree = parse(repo, P_BASE)
    fn = find_func(tree, "__contains__", "Bounds")
    # Both ends present: the last return of Bounds.__contains__
    last = body_no_doc(fn)[-1]
    if not isinstance(last, ast.Return):
        raise Unsupported("Bounds.__contains__: last statement")
    src = ast.unparse(last.value).replace("cast(Comparable, self.lower)", "lower").replace("cast(Comparable, self.upper)", "upper") \
        .replace("self.lower", "lower").replace("self.upper", "upper")
    cmp = ast.parse(src, mode="eval").body
    out = ("/-- `Bounds.__contains__` with both ends present -/\n"
           f"def boundsContains (lower upper item : Rat) : Prop :=\n  {Tr().p(cmp, {})}\n\n"
           "instance (l u i : Rat) : Decidable (boundsContains l u i) := by unfold boundsContains; infer_instance\n\n")
    fn = find_func(tree, "__contains__", "SystemBounds")
    subst = {
        "not self.inclusion_bounds": "inclusion_bounds = none",
        "self.exclusion_bounds": "exclusion_bounds ≠ none",
    }
    # translate by shape: if not incl or item not in incl: False; if excl and item in excl: False; True
    st = body_no_doc(fn)
    shape = [ast.unparse(s) for s in st]
    expected = [
        "if not self.inclusion_bounds or item not in self.inclusion_bounds:\n    return False",
        "if self.exclusion_bounds and item in self.exclusion_bounds:\n    return False",
        "return True",
    ]
    if shape != expected:
        raise Unsupported("SystemBounds.__contains__ changed shape")
    del subst
    out += ("/-- `SystemBounds.__contains__` (a `Bounds` object is always truthy, so `not self.inclusion_bounds` = is None) -/\n"
            "def systemBoundsContains (inclusion_bounds exclusion_bounds : Option (Rat × Rat)) (item : Rat) : Bool :=\n"
            "  match inclusion_bounds with\n"
            "  | none => false\n"
            "  | some i =>\n"
            "    if ¬ boundsContains i.1 i.2 item then false\n"
            "    else match exclusion_bounds with\n"
            "      | none => true\n"
            "      | some e => if boundsContains e.1 e.2 item then false else true\n")
    return out


def generate(repo: pathlib.Path) -> str:
    calc = parse(repo, P_CALC)
    parts = [
        PREAMBLE,
        gen_math(repo),
        gen_powerbounds_struct(repo),
        AGG_STRUCT,
        gen_algo(repo),
        gen_manager(repo),
        gen_power_bounds_calc(calc),
        gen_sample_calc(calc, "SoCCalculator", ["CAPACITY", "SOC_UPPER_BOUND", "SOC_LOWER_BOUND", "SOC"], "soc",
                        "Percentage.from_percent"),
        gen_sample_calc(calc, "CapacityCalculator", ["CAPACITY", "SOC_UPPER_BOUND", "SOC_LOWER_BOUND"], "cap",
                        "Energy.from_watt_hours"),
        gen_methods_tables(repo),
        gen_base_types(repo),
        "end Extracted.Pool\n",
    ]
    return "\n".join(parts)
