"""The two loops of `_matryoshka.py` and the guards of `calculate_target_power` -> Lean (`Extracted/MatryoshkaLoops.lean`).

What is translated, from the *current* source text (pure `ast`, the repo is never imported):

  * `_calc_target_power`: the statements before the `for` -> `calcInit`, ONE iteration of the loop body -> `calcStep`
    (result: the new loop-carried variables and `true` iff the iteration executed `break`);
  * `get_status`: the statements before the `for` (with the early return) -> `statusInit`, the body -> `statusStep`;
  * `_validate_component_ids` -> `validateOk`/`validateFails`; the "no bucket -> return None" test -> `bucketAbsent`;
    the final store/return test of `calculate_target_power` -> `storeNew`;
  * that both loops iterate over `sorted(<bucket>, reverse=True)` (raise otherwise).

Statement sequences are translated in continuation-passing style (like `py2lean.Translator.block`): the statements after
an `if`/`match` are copied into every branch that falls through; `continue`/end of body return the current variables
with `false`, `break` with `true`.  Values carry a static type (`Rat`, `Int`, `Bool`, `Bounds`, `Option _`, pairs).
A truth test of an `Optional[Power]`/`Optional[Bounds]` is an `is not None` test (`Quantity` defines no `__bool__`, a
dataclass instance is truthy); a `Power`/`Bounds` value is always truthy.  `match` statements are desugared
semantically: the subject is bound once, a `None` pattern is an `is None` test, a capture pattern is a binding (an
alias of the component, so that a guard on it narrows the component), or-patterns are tried left to right, a failing
guard goes to the next `case`, no matching case falls through.  `x or y` on an optional `x` is `x.getD y`.

Loop-carried variables are found by dataflow (assigned in the body, and read before being assigned in an iteration or
read after the loop); their roles by what the code does with them (the returned one is the target; `lower`/`upper`
by the attribute of the inclusion bounds they are initialised from, resp. the keyword of the reported `Bounds`); the
proposal's fields by attribute path of the loop variable.  Local names and statement positions play no role.
Anything that cannot be established raises `py2lean.Unsupported`.
"""


import ast
import pathlib
import re
from dataclasses import dataclass, field
from typing import Callable

import py2lean
from py2lean import Unsupported

NAME = "MatryoshkaLoops"
BASE = "src/frequenz/sdk/microgrid/_power_managing/"
SOURCES = [BASE + "_matryoshka.py", BASE + "_bounds.py"]

CALLEES = {
    "check_exclusion_bounds_overlap": "Extracted.checkExclusionBoundsOverlap",
    "adjust_exclusion_bounds": "Extracted.adjustExclusionBounds",
    "clamp_to_bounds": "Extracted.clampToBounds",
}

# ------------------------------------------------------------------------------------------------ types
# a type is "Rat" | "Int" | "Bool" | "Bounds" | "Opaque" | ("opt", T) | ("tup", (T1, T2)) | ("opt", None) for a bare None

BASE_TYPES = {"Power": "Rat", "float": "Rat", "int": "Int", "bool": "Bool", "Bounds[Power]": "Bounds",
              "timeseries.Bounds[Power]": "Bounds"}


def ann_type(src: str):
    src = src.strip()
    if src in BASE_TYPES:
        return BASE_TYPES[src]
    if src.endswith("| None"):
        return ("opt", ann_type(src[: -len("| None")]))
    if src.startswith("tuple[") and src.endswith("]"):
        return ("tup", tuple(ann_type(p) for p in py2lean._split_top(src[len("tuple["):-1])))
    raise Unsupported(f"type {src!r}")


def is_opt(t) -> bool:
    return isinstance(t, tuple) and t[0] == "opt"


LEAN_NAMES: dict = {}  # type name -> Lean name, for extractors that build on this module


def lean_ty(t) -> str:
    if isinstance(t, str):
        if t == "Opaque":
            raise Unsupported("opaque type in generated code")
        return LEAN_NAMES.get(t, t)
    if t[0] == "opt":
        if t[1] is None:
            raise Unsupported("cannot type a bare None")
        return f"(Option {lean_ty(t[1])})"
    return "(" + " × ".join(lean_ty(x) for x in t[1]) + ")"


@dataclass(frozen=True)
class Val:
    term: str
    ty: object
    key: str | None = None  # narrowing key (Lean term of a stable Option-typed value)
    strict: bool = False  # reading it while possibly None is an error in Python (dict subscript)


@dataclass
class Rec:
    """A Python object of which only attributes are used (`system_bounds`, the loop's proposal): attribute -> value."""
    fields: dict
    ty: object = "Rec"
    key: object = None
    strict: bool = False
    term: str = "<object>"


def atom(s: str) -> str:
    return s if (re.fullmatch(r"[\w.]+", s) or (s.startswith("(") and s.endswith(")"))) else f"({s})"


# ------------------------------------------------------------------------------------------------ code trees
@dataclass
class Leaf:
    s: str


@dataclass
class Let:
    name: str
    ty: str
    val: str
    body: object


@dataclass
class If:
    p: str
    a: object
    b: object


@dataclass
class MatchOpt:
    scrut: str
    var: str
    some: object
    none: object


def render(t, ind: str) -> str:
    if isinstance(t, Leaf):
        return ind + t.s
    if isinstance(t, Let):
        return f"{ind}let {t.name} : {t.ty} := {t.val}\n" + render(t.body, ind)
    if isinstance(t, If):
        return f"{ind}if {t.p} then\n{render(t.a, ind + '  ')}\n{ind}else\n{render(t.b, ind + '  ')}"
    if isinstance(t, MatchOpt):
        return (f"{ind}(match {t.scrut} with\n{ind}| some {t.var} =>\n{render(t.some, ind + '  ')}\n"
                f"{ind}| none =>\n{render(t.none, ind + '  ')})")
    raise AssertionError(t)


def inline(t) -> str:
    if isinstance(t, Leaf):
        return t.s
    if isinstance(t, Let):
        return f"(let {t.name} : {t.ty} := {t.val}; {inline(t.body)})"
    if isinstance(t, If):
        return f"(if {t.p} then {inline(t.a)} else {inline(t.b)})"
    if isinstance(t, MatchOpt):
        return f"(match {t.scrut} with | some {t.var} => {inline(t.some)} | none => {inline(t.none)})"
    raise AssertionError(t)


# ------------------------------------------------------------------------------------------------ environment
@dataclass
class Env:
    vals: dict = field(default_factory=dict)  # python source text of a name / attribute path / subscript -> Val
    members: dict = field(default_factory=dict)  # (elem src, container src) -> Val : `elem in container` == val is not None
    narrow: dict = field(default_factory=dict)  # key -> Lean term of the unwrapped value
    none: frozenset = frozenset()  # keys known to be None on this path
    decl: dict = field(default_factory=dict)  # python local -> declared type (set when first assigned None)

    def copy(self) -> "Env":
        return Env(dict(self.vals), self.members, dict(self.narrow), self.none, dict(self.decl))

    def bind(self, name: str, v: Val) -> "Env":
        e = self.copy()
        e.vals[name] = v
        return e

    def narrowed(self, key: str, term: str) -> "Env":
        e = self.copy()
        e.narrow[key] = term
        return e

    def is_none(self, key: str) -> "Env":
        e = self.copy()
        e.none = self.none | {key}
        return e


class Kont:
    """What to do at the end of a block / at `return` / `break` / `continue`."""

    def end(self, env: Env):
        raise Unsupported("block may fall off its end")

    def ret(self, value: ast.expr | None, env: Env):
        raise Unsupported("return not expected here")

    def brk(self, env: Env):
        raise Unsupported("break not expected here")

    def cont(self, env: Env):
        raise Unsupported("continue not expected here")


def _only_logging(stmts: list[ast.stmt]) -> bool:
    def ok(s: ast.stmt) -> bool:
        if isinstance(s, ast.Expr) and isinstance(s.value, ast.Call):
            return ast.unparse(s.value.func).startswith("_logger.")
        if isinstance(s, ast.If):
            return _only_logging(s.body) and _only_logging(s.orelse)
        return isinstance(s, ast.Pass)
    return all(ok(s) for s in stmts)


def _only_raises(s: ast.stmt) -> bool:
    """A loop / if that can only raise (precondition check), never change local state."""
    if isinstance(s, ast.Raise):
        return True
    if isinstance(s, ast.For):
        return not s.orelse and all(_only_raises(x) for x in s.body)
    if isinstance(s, ast.If):
        return bool(s.body) and all(_only_raises(x) for x in s.body) and all(_only_raises(x) for x in s.orelse)
    return False


class Tr:
    def __init__(self, sigs: dict):
        self.sigs = sigs  # python callee source -> (lean name, [param types], return type)
        self.n = 0
        self.skip_raising_checks = False  # only for `_validate_component_ids` (its raise is a stated precondition)
        self.module_funcs: dict = {}  # module-level functions that are inlined at their call sites
        self.methods: dict = {}  # same-class methods that are inlined at `self.<name>(…)` call sites
        self.depth = 0

    def fresh(self, base: str) -> str:
        self.n += 1
        return f"{base}_{self.n}"

    # -------------------------------------------------------------------------------------------- values
    def raw(self, n: ast.expr, env: Env) -> Val:
        """Value of an expression, Option values NOT replaced by their narrowed form."""
        h = f"@h{id(n)}"
        if h in env.vals:
            return env.vals[h]
        src = ast.unparse(n)
        if src in env.vals:
            v = env.vals[src]
            if v.ty == "Opaque":
                raise Unsupported(f"use of untranslated value {src}")
            return v
        if isinstance(n, ast.Constant):
            if n.value is None:
                return Val("none", ("opt", None))
            if n.value is True or n.value is False:
                return Val("true" if n.value else "false", "Bool")
            if isinstance(n.value, int):
                return Val(f"({n.value})", "Num")
            raise Unsupported(f"constant {n.value!r}")
        if isinstance(n, ast.Attribute):
            b = self.val(n.value, env)
            if isinstance(b, Rec):
                if n.attr not in b.fields:
                    raise Unsupported(f"attribute {src}")
                return b.fields[n.attr]
            if b.ty == "Bounds" and n.attr in ("lower", "upper"):
                return Val(f"{atom(b.term)}.{n.attr}", "Rat")
            raise Unsupported(f"attribute {src}")
        if isinstance(n, ast.Subscript) and isinstance(n.slice, ast.Constant) and isinstance(n.slice.value, int):
            b = self.val(n.value, env)
            if isinstance(b.ty, tuple) and b.ty[0] == "tup" and len(b.ty[1]) == 2 and n.slice.value in (0, 1):
                t = f"{atom(b.term)}.{n.slice.value + 1}"
                ty = b.ty[1][n.slice.value]
                return Val(t, ty, t if is_opt(ty) else None)
            raise Unsupported(f"subscript {src}")
        if isinstance(n, ast.Tuple):
            vs = [self.val(e, env) for e in n.elts]
            if len(vs) != 2:
                raise Unsupported("only pairs are supported")
            return Val("(" + ", ".join(v.term for v in vs) + ")", ("tup", tuple(v.ty for v in vs)))
        if isinstance(n, ast.UnaryOp) and isinstance(n.op, ast.USub):
            v = self.want(self.val(n.operand, env), "Rat")
            return Val(f"(-{v})", "Rat")
        if isinstance(n, ast.BinOp):
            ops = {ast.Add: "+", ast.Sub: "-"}
            for k, sym in ops.items():
                if isinstance(n.op, k):
                    a = self.want(self.val(n.left, env), "Rat")
                    b = self.want(self.val(n.right, env), "Rat")
                    return Val(f"({a} {sym} {b})", "Rat")
            raise Unsupported(f"binary operator in {src}")
        if isinstance(n, ast.IfExp):
            return self._ifexp(n, env)
        if isinstance(n, ast.BoolOp) and isinstance(n.op, ast.Or) and len(n.values) == 2:
            return self._or_value(n, env)
        if isinstance(n, (ast.Compare, ast.BoolOp)) or (isinstance(n, ast.UnaryOp) and isinstance(n.op, ast.Not)):
            t = self.cond(n, env, lambda e: Leaf("true"), lambda e: Leaf("false"))
            return Val(inline(t), "Bool")
        if isinstance(n, ast.Call):
            f = ast.unparse(n.func)
            if f == "Power.zero" and not n.args and not n.keywords:
                return Val("(0 : Rat)", "Rat")
            if f in ("max", "min") and len(n.args) == 2 and not n.keywords:
                a = self.want(self.val(n.args[0], env), "Rat")
                b = self.want(self.val(n.args[1], env), "Rat")
                return Val(f"(py{f.capitalize()} {atom(a)} {atom(b)})", "Rat")
            if f in self.sigs:
                lean, ptys, rty = self.sigs[f][:3]
                pnames = self.sigs[f][3] if len(self.sigs[f]) > 3 else [None] * len(ptys)
                given = dict(zip(pnames, n.args)) if pnames[0] is not None else {}
                if n.keywords:
                    for kw in n.keywords:
                        if kw.arg is None or kw.arg not in pnames or kw.arg in given:
                            raise Unsupported(f"keyword argument in call of {f}")
                        given[kw.arg] = kw.value
                    actual = [given.get(pn) for pn in pnames]
                else:
                    actual = list(n.args)
                if len(actual) != len(ptys) or any(a is None for a in actual) or len(n.args) > len(ptys):
                    raise Unsupported(f"arity of {f}")
                args = [atom(self.want(self.val(a, env), t)) for a, t in zip(actual, ptys)]
                return Val(f"({lean} {' '.join(args)})", rty)
            if f in ("all", "any") and len(n.args) == 1 and not n.keywords:
                return Val(f"(decide ({self.prop(n, env)}))", "Bool")
            raise Unsupported(f"call {f}")
        raise Unsupported(f"expression {src}")

    def view(self, v: Val, env: Env) -> Val:
        if isinstance(v, Rec):
            return v
        if v.key is not None and v.key in env.narrow:
            return Val(env.narrow[v.key], v.ty[1])
        if v.key is not None and v.key in env.none:
            return Val("none", v.ty, v.key)
        return v

    def val(self, n: ast.expr, env: Env) -> Val:
        return self.view(self.raw(n, env), env)

    def want(self, v: Val, ty) -> str:
        """Lean term of `v` at type `ty` (inserting `some`); raise when it does not fit."""
        if v.ty == ty:
            return v.term
        if v.ty == "Num" and ty in ("Rat", "Int"):
            return f"({v.term} : {ty})"
        if is_opt(ty):
            if is_opt(v.ty) and v.ty[1] is None:
                return f"(none : {lean_ty(ty)})"
            if not is_opt(v.ty):
                return f"(some {atom(self.want(v, ty[1]))})"
        raise Unsupported(f"value {v.term} : {v.ty} used at type {ty}")

    @staticmethod
    def join(a, b):
        if a == b:
            return a
        if a == "Num" and b in ("Rat", "Int"):
            return b
        if b == "Num" and a in ("Rat", "Int"):
            return a
        if is_opt(a) and a[1] is None:
            return b if is_opt(b) else ("opt", b)
        if is_opt(b) and b[1] is None:
            return a if is_opt(a) else ("opt", a)
        if is_opt(a) and a[1] == b:
            return a
        if is_opt(b) and b[1] == a:
            return b
        raise Unsupported(f"branches of different types {a} / {b}")

    def _ifexp(self, n: ast.IfExp, env: Env) -> Val:
        tys: list = []
        saved = self.n
        self.cond(n.test, env, lambda e: tys.append(self.val(n.body, e).ty) or Leaf(""),
                  lambda e: tys.append(self.val(n.orelse, e).ty) or Leaf(""))
        self.n = saved
        if not tys:
            raise Unsupported("conditional expression without reachable branch")
        ty = tys[0]
        for t in tys[1:]:
            ty = self.join(ty, t)
        tree = self.cond(n.test, env, lambda e: Leaf(self.want(self.val(n.body, e), ty)),
                         lambda e: Leaf(self.want(self.val(n.orelse, e), ty)))
        return Val(inline(tree), ty)

    def _or_value(self, n: ast.BoolOp, env: Env) -> Val:
        """`x or y` in value position: x unless it is falsy.  Only for Optional[Power]/Power/Bounds x."""
        x = self.raw(n.values[0], env)
        if is_opt(x.ty) and x.ty[1] in ("Rat", "Bounds"):
            xv = self.view(x, env)
            if not is_opt(xv.ty):
                return xv  # known to be present (and a Power/Bounds is truthy)
            y = self.val(n.values[1], env)
            if x.key is not None and x.key in env.none:
                return y
            if is_opt(y.ty):
                yt = self.want(y, x.ty)
                return Val(f"(match {x.term} with | some v__ => some v__ | none => {yt})", x.ty)
            return Val(f"({atom(x.term)}.getD {atom(self.want(y, x.ty[1]))})", x.ty[1])
        if x.ty in ("Rat", "Bounds"):
            return self.view(x, env)
        if x.ty == "Bool":
            y = self.val(n.values[1], env)
            return Val(f"({atom(x.term)} || {atom(self.want(y, 'Bool'))})", "Bool")
        raise Unsupported(f"`or` on a value of type {x.ty}")

    # -------------------------------------------------------------------------------------------- conditions
    def prop(self, n: ast.expr, env: Env) -> str:
        """A narrowing-free boolean expression as a decidable Prop."""
        if isinstance(n, ast.Compare):
            ops = {ast.Lt: "<", ast.LtE: "≤", ast.Gt: ">", ast.GtE: "≥", ast.Eq: "=", ast.NotEq: "≠"}
            parts = []
            left = n.left
            for op, right in zip(n.ops, n.comparators):
                sym = next((v for k, v in ops.items() if isinstance(op, k)), None)
                if sym is None:
                    raise Unsupported(f"comparison {ast.unparse(n)}")
                a, b = self.val(left, env), self.val(right, env)
                for v in (a, b):
                    if v.strict and is_opt(v.ty):
                        raise Unsupported(f"{v.term} read while possibly absent")
                ty = self.join(a.ty, b.ty)
                if ty == "Num":
                    ty = "Int"
                if is_opt(ty) and sym not in ("=", "≠"):
                    raise Unsupported(f"ordering comparison on Optional in {ast.unparse(n)}")
                if ty not in ("Rat", "Int", "Bool") and not (isinstance(ty, tuple)):
                    raise Unsupported(f"comparison at type {ty}")
                parts.append(f"{self.want(a, ty)} {sym} {self.want(b, ty)}")
                left = right
            return " ∧ ".join(f"({p})" for p in parts) if len(parts) > 1 else parts[0]
        if isinstance(n, ast.BoolOp):
            j = " ∧ " if isinstance(n.op, ast.And) else " ∨ "
            return "(" + j.join(f"({self.prop(v, env)})" for v in n.values) + ")"
        if isinstance(n, ast.UnaryOp) and isinstance(n.op, ast.Not):
            return f"¬ ({self.prop(n.operand, env)})"
        if isinstance(n, ast.Constant) and isinstance(n.value, bool):
            return "True" if n.value else "False"
        if isinstance(n, ast.Call) and isinstance(n.func, ast.Name) and n.func.id in ("all", "any") and len(n.args) == 1 \
                and not n.keywords and n.func.id not in env.vals:
            t = self.val(n.args[0], env)
            if not (isinstance(t.ty, tuple) and t.ty[0] == "tup" and all(x == "Bool" for x in t.ty[1])):
                raise Unsupported(f"{n.func.id}() of {ast.unparse(n.args[0])[:40]}")
            j = " ∧ " if n.func.id == "all" else " ∨ "
            return "(" + j.join(f"{atom(t.term)}.{i + 1} = true" for i in range(len(t.ty[1]))) + ")"
        v = self.val(n, env)
        if v.ty == "Bool":
            return f"{v.term} = true"
        raise Unsupported(f"condition {ast.unparse(n)}")

    def cond_none(self, v: Val, env: Env, N: Callable, S: Callable):
        """Branch on `v is None` (N) / `v is not None` (S)."""
        if not is_opt(v.ty):
            return S(env)
        if v.ty[1] is None:
            return N(env)
        key = v.key or v.term
        if key in env.narrow:
            return S(env)
        if key in env.none:
            return N(env)
        var = re.sub(r"\W", "_", key).strip("_") + "_v"
        return MatchOpt(v.term, var, S(env.narrowed(key, var)), N(env.is_none(key)))

    def cond(self, t: ast.expr, env: Env, T: Callable, E: Callable):
        if isinstance(t, ast.BoolOp):
            try:
                p = self.prop(t, env)
                return If(p, T(env), E(env))
            except Unsupported:
                pass
            first, rest = t.values[0], t.values[1:]
            rest_t = rest[0] if len(rest) == 1 else ast.BoolOp(op=t.op, values=rest)
            if isinstance(t.op, ast.And):
                return self.cond(first, env, lambda e: self.cond(rest_t, e, T, E), E)
            return self.cond(first, env, T, lambda e: self.cond(rest_t, e, T, E))
        if isinstance(t, ast.UnaryOp) and isinstance(t.op, ast.Not):
            return self.cond(t.operand, env, E, T)
        if isinstance(t, ast.Constant) and isinstance(t.value, bool):
            return T(env) if t.value else E(env)
        if isinstance(t, ast.Compare) and len(t.ops) == 1:
            op, right = t.ops[0], t.comparators[0]
            if isinstance(op, (ast.Is, ast.IsNot)):
                if not (isinstance(right, ast.Constant) and right.value is None):
                    raise Unsupported(f"identity test {ast.unparse(t)}")
                v = self.raw(t.left, env)
                if not is_opt(v.ty) and v.ty not in ("Rat", "Bounds", "Bool", "Int"):
                    raise Unsupported(f"`is None` on {v.ty}")
                return self.cond_none(v, env, T, E) if isinstance(op, ast.Is) else self.cond_none(v, env, E, T)
            if isinstance(op, (ast.In, ast.NotIn)):
                k = (ast.unparse(t.left), ast.unparse(right))
                if k not in env.members:
                    raise Unsupported(f"membership test {ast.unparse(t)}")
                v = env.members[k]
                return self.cond_none(v, env, E, T) if isinstance(op, ast.In) else self.cond_none(v, env, T, E)
        if isinstance(t, ast.Compare):
            return If(self.prop(t, env), T(env), E(env))
        # truthiness of a value
        v = self.raw(t, env)
        if is_opt(v.ty):
            if v.ty[1] in ("Rat", "Bounds", None):
                return self.cond_none(v, env, E, T)  # Power / Bounds objects are always truthy
            raise Unsupported(f"truth value of Optional[{v.ty[1]}] ({ast.unparse(t)})")
        if v.ty in ("Rat", "Bounds"):
            return T(env)
        if v.ty == "Bool":
            return If(f"{v.term} = true", T(env), E(env))
        raise Unsupported(f"truth value of {ast.unparse(t)} : {v.ty}")

    # -------------------------------------------------------------------------------------------- statements
    def assign(self, name: str, value: ast.expr, env: Env, others: list[ast.expr]):
        """-> (wrap, env') where wrap(body_tree) adds the `let`."""
        try:
            v = self.val(value, env)
        except Unsupported:
            if name in env.decl:
                raise
            return (lambda body: body), env.bind(name, Val("?", "Opaque"))
        ty = env.decl.get(name, v.ty)
        if is_opt(ty) and ty[1] is None:
            # `x = None`: the type comes from the other assignments to x
            for o in others:
                try:
                    t2 = self.val(o, env).ty
                except Unsupported:
                    continue
                if not (is_opt(t2) and t2[1] is None):
                    ty = t2 if is_opt(t2) else ("opt", t2)
                    break
            else:
                return (lambda body: body), env.bind(name, Val("none", ("opt", None)))
        if ty == "Num":
            raise Unsupported(f"untyped numeral assigned to {name}")
        term = self.want(v, ty)
        lname = self.fresh("l_" + name)
        e2 = env.bind(name, Val(lname, ty, lname if is_opt(ty) else None))
        if is_opt(ty):
            e2.decl[name] = ty
            # what is known about the assigned value is known about the variable
            if not is_opt(v.ty):
                e2.narrow[lname] = v.term
            elif v.ty[1] is None or (v.key is not None and v.key in env.none):
                e2.none = e2.none | {lname}
        return (lambda body: Let(lname, lean_ty(ty), term, body)), e2

    # ---- calls that are executed (inlined) at their call site, in Python's evaluation order
    def callee(self, n: ast.AST):
        """(function, is_method) when `n` is a call of an inlinable module-level function / same-class method."""
        if not isinstance(n, ast.Call):
            return None
        f = n.func
        if isinstance(f, ast.Name) and f.id in self.module_funcs:
            return self.module_funcs[f.id], False
        if isinstance(f, ast.Attribute) and isinstance(f.value, ast.Name) and f.value.id == "self" and f.attr in self.methods:
            return self.methods[f.attr], True
        return None

    def is_site(self, n: ast.AST, env: Env) -> bool:
        c = self.callee(n)
        return c is not None and not (isinstance(n.func, ast.Name) and n.func.id in env.vals)

    def sites(self, n: ast.AST, env: Env) -> list:
        """Call sites of an expression in evaluation order (none may sit inside a short-circuit / nested scope)."""
        if isinstance(n, (ast.BoolOp, ast.IfExp, ast.Lambda, ast.ListComp, ast.SetComp, ast.DictComp, ast.GeneratorExp)):
            if any(self.is_site(x, env) for x in ast.walk(n)):
                raise Unsupported(f"call of a helper inside a short-circuit / nested scope: {ast.unparse(n)[:60]}")
            return []
        out: list = []
        for c in ast.iter_child_nodes(n):
            out += self.sites(c, env)
        if self.is_site(n, env):
            out.append(n)
        return out

    def seq(self, sites: list, env: Env, k):
        if not sites:
            return k(env)
        return self.site(sites[0], env, lambda e: self.seq(sites[1:], e, k))

    def site(self, n: ast.AST, env: Env, k):
        fn, is_method = self.callee(n)
        return self.inline_call(n, fn, is_method, env, k)

    def inline_call(self, n: ast.Call, fn, is_method: bool, env: Env, k):
        if self.depth > 8:
            raise Unsupported(f"helper calls nested too deeply at {fn.name}")
        a = fn.args
        if a.vararg or a.kwarg or a.posonlyargs:
            raise Unsupported(f"signature of {fn.name}")
        static = any(isinstance(d, ast.Name) and d.id == "staticmethod" for d in fn.decorator_list)
        names = [p.arg for p in a.args][1 if (is_method and not static) else 0:]
        kwonly = [p.arg for p in a.kwonlyargs]
        if len(n.args) > len(names) or any(isinstance(x, ast.Starred) for x in n.args):
            raise Unsupported(f"arguments of {fn.name}")
        given = dict(zip(names, n.args))
        for kw in n.keywords:
            if kw.arg is None or (kw.arg not in names and kw.arg not in kwonly) or kw.arg in given:
                raise Unsupported(f"keyword argument of {fn.name}")
            given[kw.arg] = kw.value
        defaults = dict(zip(names[len(names) - len(a.defaults):], a.defaults))
        defaults.update({p: d for p, d in zip(kwonly, a.kw_defaults) if d is not None})
        vals = {}
        for p in names + kwonly:
            if p in given:
                vals[p] = self.val(given[p], env)
            elif p in defaults:
                vals[p] = self.val(defaults[p], Env())
            else:
                raise Unsupported(f"missing argument {p} of {fn.name}")
        if is_method and not static:
            vals["self"] = env.vals["self"] if "self" in env.vals else Rec({})
        for key, v in env.vals.items():  # state slots of extractors built on this translator
            if key.startswith("@") and not key.startswith("@h"):
                vals[key] = v
        h = f"@h{id(n)}"
        tr = self

        class InlineK(Kont):
            def back(self_, v, e: Env):
                out = env.copy()
                out.narrow, out.none = dict(e.narrow), e.none
                for key, w in e.vals.items():
                    if key.startswith("@") and not key.startswith("@h"):
                        out.vals[key] = w
                out.vals[h] = v
                tr.depth -= 1
                try:
                    return k(out)
                finally:
                    tr.depth += 1

            def end(self_, e):
                return self_.back(Val("none", ("opt", None)), e)

            def ret(self_, value, e):
                if value is None:
                    return self_.back(Val("none", ("opt", None)), e)
                return self_.back(tr.val(value, e), e)
        inner = Env(vals=vals, members=env.members, narrow=dict(env.narrow), none=env.none, decl={})
        self.depth += 1
        try:
            return self.block(strip_doc(fn.body), inner, InlineK(), fn_assignments(fn))
        finally:
            self.depth -= 1

    def block(self, stmts: list[ast.stmt], env: Env, K: Kont, fn_assigns: dict):
        if not stmts:
            return K.end(env)
        s = stmts[0]
        head = {ast.Assign: "value", ast.AnnAssign: "value", ast.Return: "value", ast.If: "test", ast.Match: "subject",
                ast.Expr: "value"}.get(type(s))
        if head is not None and getattr(s, head) is not None and not _only_logging([s]):
            st = self.sites(getattr(s, head), env)
            if st:
                return self.seq(st, env, lambda e: self.block1(stmts, e, K, fn_assigns))
        return self.block1(stmts, env, K, fn_assigns)

    def block1(self, stmts: list[ast.stmt], env: Env, K: Kont, fn_assigns: dict):
        s, rest = stmts[0], stmts[1:]
        go = lambda e: self.block(rest, e, K, fn_assigns)  # noqa: E731
        if isinstance(s, ast.Expr) and self.callee(s.value) is not None:
            return go(env)  # a helper called for its effect: already executed as a site
        if isinstance(s, ast.Expr) and isinstance(s.value, ast.Constant) and isinstance(s.value.value, str):
            return go(env)
        if isinstance(s, ast.Pass) or _only_logging([s]):
            return go(env)
        if self.skip_raising_checks and not isinstance(s, ast.Raise) and _only_raises(s):
            return go(env)
        if isinstance(s, ast.Return):
            return K.ret(s.value, env)
        if isinstance(s, ast.Break):
            return K.brk(env)
        if isinstance(s, ast.Continue):
            return K.cont(env)
        if isinstance(s, ast.AnnAssign) and s.value is not None and isinstance(s.target, ast.Name):
            s = ast.Assign(targets=[s.target], value=s.value)
        if isinstance(s, ast.Assign) and len(s.targets) == 1:
            t = s.targets[0]
            if isinstance(t, ast.Name):
                wrap, e2 = self.assign(t.id, s.value, env, [o for o in fn_assigns.get(t.id, []) if o is not s.value])
                return wrap(go(e2))
            if isinstance(t, ast.Tuple) and all(isinstance(e, ast.Name) for e in t.elts) and len(t.elts) == 2:
                v = self.val(s.value, env)
                if not (isinstance(v.ty, tuple) and v.ty[0] == "tup" and len(v.ty[1]) == 2):
                    raise Unsupported(f"unpacking of {ast.unparse(s.value)}")
                tmp = self.fresh("t")
                e2 = env
                lets = []
                for i, (el, ty) in enumerate(zip(t.elts, v.ty[1])):
                    ty = e2.decl.get(el.id, ty)  # type: ignore[attr-defined]
                    ln = self.fresh("l_" + el.id)  # type: ignore[attr-defined]
                    comp = Val(f"{tmp}.{i + 1}", v.ty[1][i])
                    lets.append((ln, lean_ty(ty), self.want(comp, ty)))
                    e2 = e2.bind(el.id, Val(ln, ty, ln if is_opt(ty) else None))  # type: ignore[attr-defined]
                body = go(e2)
                for ln, ty, term in reversed(lets):
                    body = Let(ln, ty, term, body)
                return Let(tmp, lean_ty(v.ty), v.term, body)
            raise Unsupported(f"assignment target {ast.unparse(t)}")
        if isinstance(s, ast.If):
            return self.cond(s.test, env,
                             lambda e: self.block(s.body + rest, e, K, fn_assigns),
                             lambda e: self.block(s.orelse + rest, e, K, fn_assigns))
        if isinstance(s, ast.Match):
            return self.match(s, rest, env, K, fn_assigns)
        raise Unsupported(f"statement {type(s).__name__}: {ast.unparse(s)[:60]}")

    def match(self, s: ast.Match, rest: list[ast.stmt], env: Env, K: Kont, fn_assigns: dict):
        subj = self.val(s.subject, env)
        if not (isinstance(subj.ty, tuple) and subj.ty[0] == "tup" and len(subj.ty[1]) == 2):
            raise Unsupported(f"match subject {ast.unparse(s.subject)} : {subj.ty}")
        m = self.fresh("m")
        comps = []
        for i, ty in enumerate(subj.ty[1]):
            t = f"{m}.{i + 1}"
            comps.append(Val(t, ty, t if is_opt(ty) else None))

        def alts_of(p: ast.pattern) -> list[ast.pattern]:
            return list(p.patterns) if isinstance(p, ast.MatchOr) else [p]

        def case_k(i: int, e: Env):
            if i == len(s.cases):
                return self.block(rest, e, K, fn_assigns)
            return alt_k(i, alts_of(s.cases[i].pattern), 0, e)

        def alt_k(i: int, alts: list, j: int, e: Env):
            if j == len(alts):
                return case_k(i + 1, e)
            p = alts[j]
            if isinstance(p, ast.MatchAs) and p.pattern is None:
                if p.name is not None:
                    raise Unsupported("capture of the whole match subject")
                subs: list = []  # wildcard
            elif isinstance(p, ast.MatchSequence) and len(p.patterns) == len(comps):
                subs = list(zip(p.patterns, comps))
            else:
                raise Unsupported(f"match pattern {ast.unparse(p)}")

            def tests(k: int, e2: Env, binds: dict):
                if k == len(subs):
                    e3 = e2.copy()
                    for nm, v in binds.items():
                        e3.vals[nm] = v
                    case = s.cases[i]
                    succeed = lambda e4: self.block(case.body + rest, e4, K, fn_assigns)  # noqa: E731

                    def fail(e4: Env):  # the captures do not survive a failed guard in our translation
                        e5 = e4.copy()
                        for nm in binds:
                            if nm in e.vals:
                                e5.vals[nm] = e.vals[nm]
                            else:
                                e5.vals.pop(nm, None)
                        return case_k(i + 1, e5)
                    if case.guard is None:
                        return succeed(e3)
                    return self.cond(case.guard, e3, succeed, fail)
                sp, comp = subs[k]
                nxt = lambda e4: tests(k + 1, e4, binds)  # noqa: E731
                other = lambda e4: alt_k(i, alts, j + 1, e4)  # noqa: E731
                if isinstance(sp, ast.MatchSingleton):
                    if sp.value is None:
                        return self.cond_none(comp, e2, nxt, other)
                    if isinstance(sp.value, bool) and comp.ty == "Bool":
                        return If(f"{comp.term} = {'true' if sp.value else 'false'}", nxt(e2), other(e2))
                    raise Unsupported(f"pattern {ast.unparse(sp)} on {comp.ty}")
                if isinstance(sp, ast.MatchAs) and sp.pattern is None:
                    if sp.name is None:
                        return nxt(e2)
                    return tests(k + 1, e2, {**binds, sp.name: comp})
                raise Unsupported(f"sub-pattern {ast.unparse(sp)}")

            return tests(0, e, {})

        return Let(m, lean_ty(subj.ty), subj.term, case_k(0, env))


# ------------------------------------------------------------------------------------------------ dataflow
def _loads(n: ast.AST) -> set[str]:
    return {x.id for x in ast.walk(n) if isinstance(x, ast.Name) and isinstance(x.ctx, ast.Load)}


def _stores(nodes) -> set[str]:
    out: set[str] = set()
    for n in nodes:
        for x in ast.walk(n):
            if isinstance(x, ast.Name) and isinstance(x.ctx, (ast.Store, ast.Del)):
                out.add(x.id)
            elif isinstance(x, (ast.MatchAs, ast.MatchStar)) and x.name is not None:
                out.add(x.name)
    return out


def exposed(stmts: list[ast.stmt], defined: set[str]):
    """(names read before being definitely assigned, names definitely assigned afterwards | None if no fall-through)."""
    exp: set[str] = set()
    d: set[str] | None = set(defined)
    for s in stmts:
        if d is None:
            break
        if isinstance(s, (ast.Assign, ast.AnnAssign, ast.AugAssign)):
            if s.value is not None:
                exp |= _loads(s.value) - d
            if isinstance(s, ast.AugAssign):
                exp |= _stores([s.target]) - d
            d |= _stores(s.targets if isinstance(s, ast.Assign) else [s.target])
        elif isinstance(s, ast.If):
            exp |= _loads(s.test) - d
            e1, d1 = exposed(s.body, d)
            e2, d2 = exposed(s.orelse, d)
            exp |= e1 | e2
            outs = [x for x in (d1, d2) if x is not None]
            d = set.intersection(*outs) if outs else None
        elif isinstance(s, ast.Match):
            exp |= _loads(s.subject) - d
            outs = [set(d)]
            for c in s.cases:
                dc = d | _stores([c.pattern])
                if c.guard is not None:
                    exp |= _loads(c.guard) - dc
                e1, d1 = exposed(c.body, dc)
                exp |= e1
                if d1 is not None:
                    outs.append(d1)
            d = set.intersection(*outs)
        elif isinstance(s, (ast.Break, ast.Continue)):
            d = None
        elif isinstance(s, ast.Return):
            if s.value is not None:
                exp |= _loads(s.value) - d
            d = None
        else:
            exp |= _loads(s) - d
            # conservative: whatever it stores is not considered definitely assigned
    return exp, d


# ------------------------------------------------------------------------------------------------ source anatomy
def find_method(tree: ast.Module, cls: str, name: str) -> ast.FunctionDef:
    for c in tree.body:
        if isinstance(c, ast.ClassDef) and c.name == cls:
            for f in c.body:
                if isinstance(f, ast.FunctionDef) and f.name == name:
                    return f
    raise Unsupported(f"{cls}.{name} not found")


def strip_doc(body: list[ast.stmt]) -> list[ast.stmt]:
    if body and isinstance(body[0], ast.Expr) and isinstance(body[0].value, ast.Constant) \
            and isinstance(body[0].value.value, str):
        return body[1:]
    return body


def param_with_annotation(fn: ast.FunctionDef, ann: str) -> str:
    hits = [a.arg for a in fn.args.args if a.annotation is not None and ast.unparse(a.annotation) == ann]
    if len(hits) != 1:
        raise Unsupported(f"{fn.name}: expected exactly one parameter of type {ann}")
    return hits[0]


def fn_assignments(fn: ast.FunctionDef) -> dict:
    out: dict = {}
    for n in ast.walk(fn):
        if isinstance(n, ast.Assign) and len(n.targets) == 1 and isinstance(n.targets[0], ast.Name):
            out.setdefault(n.targets[0].id, []).append(n.value)
    return out


def split_loop(fn: ast.FunctionDef):
    body = strip_doc(fn.body)
    loops = [i for i, s in enumerate(body) if isinstance(s, ast.For)]
    if len(loops) != 1:
        raise Unsupported(f"{fn.name}: expected exactly one top-level for loop")
    if any(isinstance(x, (ast.For, ast.While, ast.AsyncFor)) and x is not body[loops[0]] for x in ast.walk(fn)):
        raise Unsupported(f"{fn.name}: nested / additional loops")
    loop = body[loops[0]]
    if loop.orelse:
        raise Unsupported(f"{fn.name}: for/else")
    if not isinstance(loop.target, ast.Name):
        raise Unsupported(f"{fn.name}: loop target")
    return _inline_iter_alias(fn, body[: loops[0]], loop), loop, body[loops[0] + 1:]


def _inline_iter_alias(fn: ast.FunctionDef, prelude: list, loop: ast.For) -> list:
    """`b = <expr>; for x in sorted(b, …)`: a local that is assigned exactly once, at the top level of the prelude, and read only
    by the loop header is replaced by its definition (the expression has no side effects to reorder: nothing between the assignment
    and the loop header may call anything when the alias is inlined — checked below by requiring the statements in between to be
    free of calls on `self`)."""
    it = loop.iter
    names = [x for x in ast.walk(it) if isinstance(x, ast.Name) and isinstance(x.ctx, ast.Load)]
    for nm in names:
        defs = [x for x in ast.walk(fn) if isinstance(x, ast.Name) and isinstance(x.ctx, (ast.Store, ast.Del)) and x.id == nm.id]
        if len(defs) != 1:
            continue
        idx = [i for i, st in enumerate(prelude) if isinstance(st, ast.Assign) and len(st.targets) == 1 and st.targets[0] is defs[0]]
        if len(idx) != 1:
            continue
        reads = [x for x in ast.walk(fn) if isinstance(x, ast.Name) and isinstance(x.ctx, ast.Load) and x.id == nm.id]
        if len(reads) != 1:
            continue
        between = prelude[idx[0] + 1:]
        if any(isinstance(x, ast.Attribute) and isinstance(x.ctx, ast.Store) for st in between for x in ast.walk(st)):
            continue                       # something is mutated between the definition and the loop header
        if any(isinstance(x, (ast.Await, ast.Yield, ast.YieldFrom)) for st in between for x in ast.walk(st)):
            continue
        value = prelude[idx[0]].value

        class Sub(ast.NodeTransformer):
            def visit_Name(self, node):      # noqa: N802
                return value if node is nm else node
        loop.iter = Sub().visit(it)
        ast.fix_missing_locations(loop)
        return prelude[: idx[0]] + between
    return prelude


def sorted_desc_arg(loop: ast.For, what: str) -> ast.expr:
    """The loop must iterate over `sorted(<bucket>, reverse=True)` (no key): returns <bucket>."""
    it = loop.iter
    if not (isinstance(it, ast.Call) and isinstance(it.func, ast.Name) and it.func.id == "sorted" and len(it.args) == 1):
        raise Unsupported(f"{what}: the loop does not iterate over sorted(<bucket>, …): {ast.unparse(it)}")
    kws = {k.arg: k.value for k in it.keywords}
    if set(kws) != {"reverse"} or not (isinstance(kws["reverse"], ast.Constant) and kws["reverse"].value is True):
        raise Unsupported(f"{what}: iteration order is not sorted(…, reverse=True): {ast.unparse(it)}")
    return it.args[0]


def loop_roles(fn: ast.FunctionDef, prelude, loop: ast.For, after):
    """(carried names, read-only local inputs of the body)."""
    target = loop.target.id  # type: ignore[attr-defined]
    params = {a.arg for a in fn.args.args}
    locals_ = params | _stores([fn])
    assigned = _stores(loop.body)
    exp, _ = exposed(loop.body, {target})
    read_after: set[str] = set()
    for s in after:
        read_after |= _loads(s)
    if target in assigned:
        raise Unsupported(f"{fn.name}: the loop variable is reassigned in the body")
    if target in read_after:
        raise Unsupported(f"{fn.name}: the loop variable is used after the loop")
    carried = assigned & (exp | read_after)
    inputs = (exp & locals_) - carried - {target, "self"}
    return carried, inputs


def proposal_fields(target: str, with_pref: bool, with_prio: bool) -> dict:
    """The loop variable: an object whose attribute paths are the parameters of the step function."""
    f: dict = {"bounds": Rec({"lower": Val("plo", ("opt", "Rat"), "plo"), "upper": Val("phi", ("opt", "Rat"), "phi")})}
    if with_pref:
        f["preferred_power"] = Val("pref", ("opt", "Rat"), "pref")
    if with_prio:
        f["priority"] = Val("pprio", "Int")
    return {target: Rec(f)}


def sb_rec() -> Rec:
    return Rec({"inclusion_bounds": Val("incl", ("opt", "Bounds"), "incl"),
                "exclusion_bounds": Val("excl", ("opt", "Bounds"), "excl")})


def bind_call(fn: ast.FunctionDef, call: ast.Call, skip_self: bool) -> dict:
    """parameter name -> argument expression of a call (positional and keyword arguments)."""
    names = [a.arg for a in fn.args.args][1 if skip_self else 0:] + [a.arg for a in fn.args.kwonlyargs]
    if len(call.args) > len(names):
        raise Unsupported(f"arguments of {fn.name}")
    out = dict(zip(names, call.args))
    for kw in call.keywords:
        if kw.arg is None or kw.arg not in names or kw.arg in out:
            raise Unsupported(f"keyword argument of {fn.name}")
        out[kw.arg] = kw.value
    return out


class StepK(Kont):
    def __init__(self, tr: Tr, state: list[str]):
        self.tr, self.state = tr, state

    def out(self, env: Env, brk: str):
        terms = [self.tr.want(env.vals[n], "Rat") for n in self.state]
        return Leaf("(" + ", ".join(terms + [brk]) + ")")

    def end(self, env):
        return self.out(env, "false")

    def cont(self, env):
        return self.out(env, "false")

    def brk(self, env):
        return self.out(env, "true")


def bounds_role(tr: "Tr", fn: ast.FunctionDef, loop: ast.For, carried: set) -> dict:
    """name -> 'lower' | 'upper' for the loop-carried variables, by what the code DOES with them: the variable handed
    to the `lower_bound` / `upper_bound` parameter of a `_bounds` helper inside the loop, or unpacked from
    `adjust_exclusion_bounds(…)` (which returns (lower, upper))."""
    votes: dict = {}
    for x in ast.walk(ast.Module(body=loop.body, type_ignores=[])):
        if isinstance(x, ast.Call) and ast.unparse(x.func) in tr.sigs:
            pnames = tr.sigs[ast.unparse(x.func)][3]
            given = dict(zip(pnames, x.args))
            given.update({k.arg: k.value for k in x.keywords if k.arg})
            for pn, role in (("lower_bound", "lower"), ("upper_bound", "upper")):
                a = given.get(pn)
                if isinstance(a, ast.Name) and a.id in carried:
                    votes.setdefault(a.id, set()).add(role)
        if isinstance(x, ast.Assign) and isinstance(x.value, ast.Call) and ast.unparse(x.value.func) in tr.sigs \
                and tr.sigs[ast.unparse(x.value.func)][0].endswith("adjustExclusionBounds") \
                and isinstance(x.targets[0], ast.Tuple) and len(x.targets[0].elts) == 2:
            for el, role in zip(x.targets[0].elts, ("lower", "upper")):
                if isinstance(el, ast.Name) and el.id in carried:
                    votes.setdefault(el.id, set()).add(role)
    return {n: next(iter(r)) for n, r in votes.items() if len(r) == 1}


# ------------------------------------------------------------------------------------------------ the functions
def gen_calc(tr: Tr, fn: ast.FunctionDef) -> list[str]:
    sb = param_with_annotation(fn, "SystemBounds")
    bucket_param = param_with_annotation(fn, "set[Proposal]")
    prelude, loop, after = split_loop(fn)
    arg = sorted_desc_arg(loop, fn.name)
    if not (isinstance(arg, ast.Name) and arg.id == bucket_param):
        raise Unsupported(f"{fn.name}: iterates over {ast.unparse(arg)}, not over its proposals")
    if not (len(after) == 1 and isinstance(after[0], ast.Return) and isinstance(after[0].value, ast.Name)):
        raise Unsupported(f"{fn.name}: expected `return <target>` after the loop")
    target = after[0].value.id
    carried, inputs = loop_roles(fn, prelude, loop, after)
    roles = bounds_role(tr, fn, loop, carried)
    lows = [n for n, r in roles.items() if r == "lower"]
    ups = [n for n, r in roles.items() if r == "upper"]
    if len(lows) != 1 or len(ups) != 1:
        raise Unsupported(f"{fn.name}: cannot identify the running lower/upper bound variables")
    state = [lows[0], ups[0], target]
    if len(set(state)) != 3 or not carried <= set(state):
        raise Unsupported(f"{fn.name}: loop-carried variables {sorted(carried)} are not (lower, upper, target)")
    if len(inputs) != 1:
        raise Unsupported(f"{fn.name}: loop body reads {sorted(inputs)}; expected only the exclusion bounds")
    excl_var = next(iter(inputs))
    assigns = fn_assignments(fn)

    # prelude
    env0 = Env(vals={sb: sb_rec()})

    class InitK(Kont):
        def end(self, env):
            for n in state + [excl_var]:
                if n not in env.vals:
                    raise Unsupported(f"{fn.name}: {n} is not initialised before the loop")
            return Leaf("(" + ", ".join([tr.want(env.vals[state[0]], "Rat"), tr.want(env.vals[state[1]], "Rat"),
                                         tr.want(env.vals[excl_var], ("opt", "Bounds")),
                                         tr.want(env.vals[state[2]], "Rat")]) + ")")

    init = tr.block(prelude, env0, InitK(), assigns)
    out = ["/-- `_calc_target_power`, statements before the loop: (lower_bound, upper_bound, exclusion_bounds, target_power). -/\n"
           "def calcInit (incl excl : Option Bounds) : Rat × Rat × Option Bounds × Rat :=\n" + render(init, "  ") + "\n"]

    # one iteration
    t = loop.target.id  # type: ignore[attr-defined]
    vals = proposal_fields(t, with_pref=True, with_prio=False)
    vals[excl_var] = Val("exclusion_bounds", ("opt", "Bounds"), "exclusion_bounds")
    for n, ln in zip(state, ["lower_bound", "upper_bound", "target_power"]):
        vals[n] = Val(ln, "Rat")
    step = tr.block(loop.body, Env(vals=vals), StepK(tr, state), assigns)
    out.append("/-- `_calc_target_power`, ONE iteration of the loop body: new (lower_bound, upper_bound, target_power) and\n"
               "`true` iff the iteration executed `break`. -/\n"
               "def calcStep (exclusion_bounds : Option Bounds) (lower_bound upper_bound target_power : Rat)\n"
               "    (pref plo phi : Option Rat) : Rat × Rat × Rat × Bool :=\n" + render(step, "  ") + "\n")
    return out


def gen_status(tr: Tr, fn: ast.FunctionDef) -> list[str]:
    sb = param_with_annotation(fn, "SystemBounds")
    prio = param_with_annotation(fn, "int")
    cid = param_with_annotation(fn, "frozenset[int]")
    prelude, loop, after = split_loop(fn)
    arg = sorted_desc_arg(loop, fn.name)
    if ast.unparse(arg) not in (f"self._component_buckets.get({cid}, [])", f"self._component_buckets.get({cid}, set())",
                                f"self._component_buckets.get({cid}, ())"):
        raise Unsupported(f"{fn.name}: iterates over {ast.unparse(arg)}, not over the bucket of {cid}")

    def report_incl(value: ast.expr | None) -> ast.expr:
        if not (isinstance(value, ast.Call) and ast.unparse(value.func) == "_Report"):
            raise Unsupported(f"{fn.name}: expected `return _Report(…)`")
        kws = {k.arg: k.value for k in value.keywords}
        if value.args or "_inclusion_bounds" not in kws:
            raise Unsupported(f"{fn.name}: _Report without _inclusion_bounds keyword")
        return kws["_inclusion_bounds"]

    if not (len(after) == 1 and isinstance(after[0], ast.Return)):
        raise Unsupported(f"{fn.name}: expected a single return after the loop")
    b = report_incl(after[0].value)
    if not (isinstance(b, ast.Call) and ast.unparse(b.func) in ("timeseries.Bounds[Power]", "timeseries.Bounds", "Bounds")
            and not b.args and {k.arg for k in b.keywords} == {"lower", "upper"}
            and all(isinstance(k.value, ast.Name) for k in b.keywords)):
        raise Unsupported(f"{fn.name}: reported inclusion bounds are not Bounds(lower=<var>, upper=<var>)")
    kw = {k.arg: k.value.id for k in b.keywords}  # type: ignore[attr-defined]
    state = [kw["lower"], kw["upper"]]
    carried, inputs = loop_roles(fn, prelude, loop, [ast.Expr(value=b)])
    if len(set(state)) != 2 or not carried <= set(state):
        raise Unsupported(f"{fn.name}: loop-carried variables {sorted(carried)} are not the reported (lower, upper)")
    rest_inputs = inputs - {prio}
    if len(rest_inputs) != 1:
        raise Unsupported(f"{fn.name}: loop body reads {sorted(inputs)}; expected the exclusion bounds and {prio}")
    excl_var = next(iter(rest_inputs))
    assigns = fn_assignments(fn)

    env0 = Env(vals={sb: sb_rec()})

    class InitK(Kont):
        def end(self, env):
            for n in state + [excl_var]:
                if n not in env.vals:
                    raise Unsupported(f"{fn.name}: {n} is not initialised before the loop")
            return Leaf("some (" + ", ".join([tr.want(env.vals[state[0]], "Rat"), tr.want(env.vals[state[1]], "Rat"),
                                              tr.want(env.vals[excl_var], ("opt", "Bounds"))]) + ")")

        def ret(self, value, env):
            r = report_incl(value)
            if not (isinstance(r, ast.Constant) and r.value is None):
                raise Unsupported(f"{fn.name}: early return with inclusion bounds {ast.unparse(r)}")
            return Leaf("none")

    init = tr.block(prelude, env0, InitK(), assigns)
    out = ["/-- `get_status`, statements before the loop: `none` = early return of a report without inclusion bounds,\n"
           "otherwise (lower_bound, upper_bound, exclusion_bounds). -/\n"
           "def statusInit (incl excl : Option Bounds) : Option (Rat × Rat × Option Bounds) :=\n" + render(init, "  ") + "\n"]

    t = loop.target.id  # type: ignore[attr-defined]
    vals = proposal_fields(t, with_pref=False, with_prio=True)
    vals[excl_var] = Val("exclusion_bounds", ("opt", "Bounds"), "exclusion_bounds")
    vals[prio] = Val("priority", "Int")
    for n, ln in zip(state, ["lower_bound", "upper_bound"]):
        vals[n] = Val(ln, "Rat")
    step = tr.block(loop.body, Env(vals=vals), StepK(tr, state), assigns)
    out.append("/-- `get_status`, ONE iteration of the loop body: new (lower_bound, upper_bound) and `true` iff it executed `break`. -/\n"
               "def statusStep (exclusion_bounds : Option Bounds) (lower_bound upper_bound : Rat) (priority : Int)\n"
               "    (pprio : Int) (plo phi : Option Rat) : Rat × Rat × Bool :=\n" + render(step, "  ") + "\n")
    return out


class BoolK(Kont):
    def ret(self, value, env):
        if isinstance(value, ast.Constant) and isinstance(value.value, bool):
            return Leaf("true" if value.value else "false")
        raise Unsupported(f"return {ast.unparse(value) if value is not None else ''} (expected a bool literal)")


def gen_validate(tr: Tr, fn: ast.FunctionDef) -> list[str]:
    sb = param_with_annotation(fn, "SystemBounds")
    cid = param_with_annotation(fn, "frozenset[int]")
    env = Env(vals={sb: sb_rec()},
              members={(cid, "self._component_buckets"): Val("bucket", ("opt", "Unit"), "bucket")})
    tr.skip_raising_checks = True
    try:
        tree = tr.block(strip_doc(fn.body), env, BoolK(), {})
    finally:
        tr.skip_raising_checks = False
    return ["/-- `_validate_component_ids` (its `raise` for overlapping buckets is a precondition, not translated);\n"
            "`bucket` = `some ()` iff `component_ids in self._component_buckets`. -/\n"
            "def validateOk (bucket : Option Unit) (incl excl : Option Bounds) : Bool :=\n" + render(tree, "  ") + "\n",
            "/-- `calculate_target_power` returns `None` at once (`if not self._validate_component_ids(…): return None`). -/\n"
            "def validateFails (hasBucket : Bool) (incl excl : Option Bounds) : Prop :=\n"
            "  validateOk (if hasBucket then some () else none) incl excl = false\n",
            "instance (hasBucket : Bool) (incl excl : Option Bounds) : Decidable (validateFails hasBucket incl excl) := by\n"
            "  unfold validateFails; exact inferInstance\n"]


def _is_return_none(s: ast.stmt) -> bool:
    return isinstance(s, ast.Return) and (s.value is None or (isinstance(s.value, ast.Constant) and s.value.value is None))


def gen_calculate(tr: Tr, cls: ast.ClassDef, fn: ast.FunctionDef):
    """The control skeleton of `calculate_target_power`: returns (lean text, validation method, computation method)."""
    methods = {f.name: f for f in cls.body if isinstance(f, ast.FunctionDef)}
    ann = {a.arg: ast.unparse(a.annotation) for a in fn.args.args if a.annotation is not None}
    sb = param_with_annotation(fn, "SystemBounds")
    cid = param_with_annotation(fn, "frozenset[int]")
    must = param_with_annotation(fn, "bool")
    prop = param_with_annotation(fn, "Proposal | None")
    body = strip_doc(fn.body)
    if any(isinstance(x, (ast.For, ast.While, ast.Try, ast.With)) for x in ast.walk(fn)):
        raise Unsupported(f"{fn.name}: loops / try / with")

    def self_call(e, what: str):
        if not (isinstance(e, ast.Call) and isinstance(e.func, ast.Attribute) and isinstance(e.func.value, ast.Name)
                and e.func.value.id == "self" and e.func.attr in methods):
            raise Unsupported(f"{fn.name}: {what}")
        return methods[e.func.attr]

    # 1. validation guard: `if not self.<validate>(<the three parameters, bound by type>): return None`
    s0 = body[0]
    if not (isinstance(s0, ast.If) and isinstance(s0.test, ast.UnaryOp) and isinstance(s0.test.op, ast.Not)
            and not s0.orelse and len(s0.body) == 1 and _is_return_none(s0.body[0])):
        raise Unsupported(f"{fn.name}: first statement is not `if not self.<validation>(…): return None`")
    vfn = self_call(s0.test.operand, "first statement does not call a validation method")
    vann = {a.arg: ast.unparse(a.annotation) for a in vfn.args.args if a.annotation is not None}
    for pn, arg in bind_call(vfn, s0.test.operand, True).items():
        if not (isinstance(arg, ast.Name) and arg.id in (sb, cid, prop) and vann.get(pn) == ann[arg.id]):
            raise Unsupported(f"{fn.name}: argument {pn} of the validation call")
    # 2. bucket lookup `<v> = self._component_buckets.get(<ids>)`; before it only `if <proposal> is not None: <add it>`
    idx = [i for i, st in enumerate(body) if isinstance(st, ast.Assign) and len(st.targets) == 1
           and isinstance(st.targets[0], ast.Name) and ast.unparse(st.value) == f"self._component_buckets.get({cid})"]
    if len(idx) != 1:
        raise Unsupported(f"{fn.name}: expected one `<v> = self._component_buckets.get({cid})`")
    i = idx[0]
    pv = body[i].targets[0].id
    if i != 2 or not (isinstance(body[1], ast.If) and ast.unparse(body[1].test) == f"{prop} is not None" and not body[1].orelse):
        raise Unsupported(f"{fn.name}: before the bucket lookup there is not exactly `if {prop} is not None: …`")
    for x in ast.walk(body[1]):  # the branch only files the proposal: no return / target store / other state
        if isinstance(x, (ast.Return, ast.Raise)) or (isinstance(x, ast.Attribute) and x.attr == "_target_power"):
            raise Unsupported(f"{fn.name}: the `if {prop} is not None` branch does more than adding the proposal")
    # 3. the absent-bucket rule
    s3 = body[i + 1]
    if not (isinstance(s3, ast.If) and not s3.orelse and len(s3.body) == 1 and _is_return_none(s3.body[0])):
        raise Unsupported(f"{fn.name}: expected `if <bucket absent>: return None`")
    absent = tr.cond(s3.test, Env(vals={pv: Val("bucket", ("opt", "Bucket"), "bucket")}),
                     lambda e: Leaf("true"), lambda e: Leaf("false"))
    # 4. the computation `<t> = self.<calc>(<bucket>, <system bounds>)`
    s4 = body[i + 2]
    if not (isinstance(s4, ast.Assign) and len(s4.targets) == 1 and isinstance(s4.targets[0], ast.Name)):
        raise Unsupported(f"{fn.name}: expected `<t> = self.<computation>(…)`")
    cfn = self_call(s4.value, "the target is not computed by a method of the class")
    cann = {a.arg: ast.unparse(a.annotation) for a in cfn.args.args if a.annotation is not None}
    got = {cann.get(pn): ast.unparse(arg) for pn, arg in bind_call(cfn, s4.value, True).items()}
    if got != {"set[Proposal]": pv, "SystemBounds": sb}:
        raise Unsupported(f"{fn.name}: arguments of the computation: {got}")
    tv = s4.targets[0].id
    # 5. store / return, path by path: either (store the new target, return it) or (nothing stored, return None)
    last = Val("last", ("opt", "Rat"), "last", strict=True)
    envs = Env(vals={must: Val("must", "Bool"), tv: Val("target", "Rat"),
                     f"self._target_power[{cid}]": last,
                     f"self._target_power.get({cid})": Val("last", ("opt", "Rat"), "last")},
               members={(cid, "self._target_power"): last})

    def tail(stmts: list, env: Env, stored: bool):
        if not stmts:
            if stored:
                raise Unsupported(f"{fn.name}: a path stores the target and returns None")
            return Leaf("false")
        st, rest = stmts[0], stmts[1:]
        if isinstance(st, ast.If):
            return tr.cond(st.test, env, lambda e: tail(st.body + rest, e, stored), lambda e: tail(st.orelse + rest, e, stored))
        if isinstance(st, ast.Assign) and ast.unparse(st.targets[0]) == f"self._target_power[{cid}]" \
                and ast.unparse(st.value) == tv and not stored:
            return tail(rest, env, True)
        if isinstance(st, ast.Return):
            if _is_return_none(st):
                return tail([], env, stored)
            if ast.unparse(st.value) == tv and stored:
                return Leaf("true")
        if isinstance(st, ast.Pass) or _only_logging([st]):
            return tail(rest, env, stored)
        raise Unsupported(f"{fn.name}: statement after the computation: {ast.unparse(st)[:60]}")
    store = tail(body[i + 3:], envs, False)
    text = [
        "/-- the test of `if <bucket absent>: return None` on `self._component_buckets.get(component_ids)`. -/\n"
        "def bucketAbsentB {Bucket : Type} (bucket : Option Bucket) : Bool :=\n" + render(absent, "  ") + "\n",
        "def bucketAbsent {Bucket : Type} (bucket : Option Bucket) : Prop := bucketAbsentB bucket = true\n",
        "instance {Bucket : Type} (bucket : Option Bucket) : Decidable (bucketAbsent bucket) := by\n"
        "  unfold bucketAbsent; exact inferInstance\n",
        "/-- the end of `calculate_target_power`, path by path: `true` = the new target is stored and returned, `false` =\n"
        "nothing is stored and None is returned (`last` = `self._target_power.get(component_ids)`). -/\n"
        "def storeNewB (must : Bool) (last : Option Rat) (target : Rat) : Bool :=\n" + render(store, "  ") + "\n",
        "def storeNew (must : Bool) (last : Option Rat) (target : Rat) : Prop := storeNewB must last target = true\n",
        "instance (must : Bool) (last : Option Rat) (target : Rat) : Decidable (storeNew must last target) := by\n"
        "  unfold storeNew; exact inferInstance\n",
    ]
    return text, vfn, cfn


def callee_sigs(bounds_src: str) -> dict:
    sigs: dict = {}
    for node in ast.parse(bounds_src).body:
        if isinstance(node, ast.FunctionDef) and node.name in CALLEES:
            if any(a.annotation is None for a in node.args.args) or node.returns is None:
                raise Unsupported(f"{node.name}: missing annotation")
            ptys = [ann_type(ast.unparse(a.annotation)) for a in node.args.args]
            sig = (CALLEES[node.name], ptys, ann_type(ast.unparse(node.returns)), [a.arg for a in node.args.args])
            sigs[node.name] = sig
            sigs["_bounds." + node.name] = sig
    missing = set(CALLEES) - set(sigs)
    if missing:
        raise Unsupported(f"_bounds.py: functions not found: {sorted(missing)}")
    return sigs


def generate(repo: pathlib.Path) -> str:
    mat = ast.parse((repo / SOURCES[0]).read_text())
    sigs = callee_sigs((repo / SOURCES[1]).read_text())
    tr = Tr(sigs)
    cls = next((c for c in mat.body if isinstance(c, ast.ClassDef) and c.name == "Matryoshka"), None)
    if cls is None:
        raise Unsupported("class Matryoshka not found")
    # the public entry points (`BaseAlgorithm` API); everything else is found from them
    calculate = find_method(mat, "Matryoshka", "calculate_target_power")
    status = find_method(mat, "Matryoshka", "get_status")
    tr.module_funcs = {f.name: f for f in mat.body if isinstance(f, ast.FunctionDef)}
    calc_text, vfn, cfn = gen_calculate(tr, cls, calculate)
    api = {"calculate_target_power", "get_status", "get_target_power", "drop_old_proposals", "__init__", vfn.name, cfn.name}
    tr.methods = {f.name: f for f in cls.body if isinstance(f, ast.FunctionDef) and f.name not in api}
    out = ["import Frequenz.Extracted.Bounds", "", "namespace Extracted.Matryoshka", ""]
    out += gen_calc(tr, cfn)
    out += gen_status(tr, status)
    out += gen_validate(tr, vfn)
    out += calc_text
    out += ["end Extracted.Matryoshka"]
    return "\n".join(out) + "\n"
