"""`AggregatedBatteryData` / `BatteryDistributionAlgorithm` -> Lean, WHOLE METHOD BODIES with their loops
(`Extracted/DistributionLoops.lean`, C01/C02): `_aggregate_battery_power_bounds`, `AggregatedBatteryData.__init__`,
`_distribute_multi_inverter_pairs`, `_greedy_distribute_remaining_power`, `_total_capacity`,
`_compute_battery_availability_ratio`, `_distribute_power`, `_inclusion_exclusion_bounds`, `_distribute_consume_power`,
`_distribute_supply_power`, `distribute_power`.

`distribution.py` translates every arithmetic expression and branch condition of the algorithm; the loops that evaluate
them were hand-written in `Model/Distribution.lean`.  This extractor translates the methods themselves, statement by
statement, from the current source text, so that the hand-written model can be PROVED equal to the source
(`Lemmas/DistributionTie*.lean`, `C01_model_is_source`).

Front-end: `distribution._norm_func` (extracted methods inlined again at statement and expression level, `match` on
boolean tests as the if-tree, guard clauses as if/else, single-use pure locals put back where they are used), so the
behaviour-preserving rewrites that leave `Extracted/Distribution.lean` unchanged give the same statements here.

Back-end: a compiler for the imperative subset these methods use, into total Lean functions over exact rationals.

* Python dicts are association lists `Dict κ ν = List (κ × ν)` in insertion order: `d[k]` = `dictGet`, `d[k] = v` =
  `dictSet` (replace in place, else append), `not d` = `d = []`, `max(d.items(), key=lambda item: item[1])` =
  `dictMaxByValue` (first maximal item), `{k: v for …}` = successive `dictSet`.
* `for k, v in d.items()` whose body writes only to ITS OWN item (`v.attr op= e`, `d[k] = e` with the loop key) is a
  `mapAccum` over the items (running state, new value of the item); any other access to `d` in such a body is refused.
  Other `for` loops are folds over the list they consume; the loop-carried variables are the state.  A `while` is a
  recursive function of its loop-carried variables with one unit of FUEL per iteration (the tie is proved for every
  fuel; the model's sufficiency theorem then applies).  Each loop body becomes a named top-level definition
  `<method>_for<k>` / `<method>_while<k>` whose parameters are the variables it reads.
* Objects stored in dicts and mutated through an alias (`p = d[k]; p.power += e; d[k] = p`, or `d[k].power += e`) are
  records; the alias is the pair (dict, key): reads go to the current dict, writes are `dictSet`, storing the alias back
  is a no-op.
* `_InverterSet(ids)` (a `frozenset`) is the list `fsOrder ids`: the iteration order CPython gives that set, an oracle
  parameter of the translation (the model takes the inverters of a group in that order as an input; the harness supplies
  exactly `list(frozenset(ids))`).  `len`, `next(iter(s))`, `for x in s` are then list operations.
* Statement sequences are translated in continuation-passing style where a branch leaves (`return`, `continue`, `break`)
  and by joining the modified variables otherwise.
* `list.sort(key=lambda x: (a, b), reverse=r)` is the stable insertion sort `sortByKey` on the lexicographic key (trusted
  spelling of CPython's stable sort, as in the model); `sum` / `min` / `max` over a generator are `sumL` / `minL` /
  `maxL` (Python's first-wins folds); `pow(x, self._distributor_exponent)` is `x ^ exponent` with a natural exponent.
* A method that can raise (`ValueError` of `_total_capacity`) returns an `Option`; the call is bound first, `none`
  propagates.
* `for k in r.f.keys(): r.f[k] op= e` on a dict field of a record local takes the dict out, maps its items and puts it
  back; a `bool` parameter is a decidable `Prop`; `__init__` is the function from its arguments to the record of the
  attributes it sets (`self.a` = a local, every field must be set); `x = e; return x` = `return e`.
* A test on a flag no statement of a loop assigns is hoisted out of the loop and adjacent `if`s on it are merged
  (`_unswitch`): `_inclusion_exclusion_bounds` is one pair of nested loops per side however the source places the tests.
  The order of the loop-carried variables compares their updates with body-local names put back.
* NOT modelled, by decision: `assert` statements and `_logger` calls are skipped; `math.nan` is `nanAsZero = 0` (the fields
  it is stored in are only read through `max(0.0, nan - x)`, which is 0.0; replayed by the harness on sets without
  capacity); `list[0]` of an empty list / a missing dict key / `min()` of an empty generator are `default` (the tie
  theorem has the non-emptiness and the distinct ids as hypotheses).
Anything else raises `Unsupported`.
"""
from __future__ import annotations

import ast
import importlib.util
import pathlib
import sys
from fractions import Fraction

_HERE = pathlib.Path(__file__).resolve().parent
sys.path.insert(0, str(_HERE.parent))
from py2lean import Unsupported  # noqa: E402


def _load(stem: str):
    spec = importlib.util.spec_from_file_location(f"_dl_{stem}", _HERE / f"{stem}.py")
    m = importlib.util.module_from_spec(spec)
    spec.loader.exec_module(m)  # type: ignore[union-attr]
    return m


D = _load("distribution")

NAME = "DistributionLoops"
ALGO = D.ALGO
SOURCES = [ALGO]

# ----------------------------------------------------------------------------------------------------------- types
RAT, BOOL, INT, NAT = ("rat",), ("bool",), ("int",), ("nat",)


def DICT(k, v):
    return ("dict", k, v)


def LIST(t):
    return ("list", t)


def REC(n):
    return ("rec", n)


def TUP(*ts):
    return ("tup", tuple(ts))


def OPT(t):
    return ("opt", t)


IDSET = LIST(INT)

# records of the client library / of `AggregatedBatteryData` (attributes the algorithm reads); the dataclasses of the
# module itself are read from the source (`_records`)
FIXED_RECORDS = {
    "PBounds": [("inclusion_lower", RAT), ("exclusion_lower", RAT), ("exclusion_upper", RAT), ("inclusion_upper", RAT)],
    "AggBat": [("component_id", INT), ("capacity", RAT), ("soc", RAT), ("soc_upper_bound", RAT), ("soc_lower_bound", RAT),
               ("power_bounds", REC("PBounds"))],
    # `frequenz.client.microgrid.BatteryData`: the attributes `AggregatedBatteryData.__init__` reads
    "BatData": [("component_id", INT), ("capacity", RAT), ("soc", RAT), ("soc_upper_bound", RAT), ("soc_lower_bound", RAT),
                ("power_inclusion_lower_bound", RAT), ("power_exclusion_lower_bound", RAT),
                ("power_exclusion_upper_bound", RAT), ("power_inclusion_upper_bound", RAT)],
    "InvData": [("component_id", INT), ("active_power_inclusion_lower_bound", RAT),
                ("active_power_exclusion_lower_bound", RAT), ("active_power_exclusion_upper_bound", RAT),
                ("active_power_inclusion_upper_bound", RAT)],
}
CLASS_TO_REC = {"_Power": "Power", "AvailabilityRatio": "AvRatio", "_Allocation": "Alloc", "DistributionResult": "DistResult",
                "InvBatPair": "Pair"}
# constructors of records that are not read from the module's dataclasses
FIXED_CLASSES = {"PowerBounds": "PBounds", "AggregatedBatteryData": "AggBat"}


def lean_ty(t) -> str:
    k = t[0]
    if k == "rat":
        return "Rat"
    if k == "bool":
        return "Prop"
    if k == "int":
        return "Int"
    if k == "nat":
        return "Nat"
    if k == "dict":
        return f"(Dict {lean_ty(t[1])} {lean_ty(t[2])})"
    if k == "list":
        return f"(List {lean_ty(t[1])})"
    if k == "rec":
        return t[1]
    if k == "tup":
        return "(" + " × ".join(lean_ty(x) for x in t[1]) + ")"
    if k == "opt":
        return f"(Option {lean_ty(t[1])})"
    raise Unsupported(f"type {t}")


def ann_ty(a: ast.expr | None) -> tuple:
    if a is None:
        raise Unsupported("missing annotation")
    s = ast.unparse(a)
    simple = {"float": RAT, "int": INT, "bool": BOOL, "_InverterSet": IDSET, "frozenset[int]": IDSET, "PowerBounds": REC("PBounds"),
              "AggregatedBatteryData": REC("AggBat"), "InverterData": REC("InvData"), "BatteryData": REC("BatData")}
    if s in simple:
        return simple[s]
    if s in CLASS_TO_REC:
        return REC(CLASS_TO_REC[s])
    if isinstance(a, ast.Subscript):
        base = ast.unparse(a.value)
        args = list(a.slice.elts) if isinstance(a.slice, ast.Tuple) else [a.slice]
        if base == "dict" and len(args) == 2:
            return DICT(ann_ty(args[0]), ann_ty(args[1]))
        if base in ("list", "Sequence") and len(args) == 1:
            return LIST(ann_ty(args[0]))
        if base == "tuple":
            return TUP(*[ann_ty(x) for x in args])
    raise Unsupported(f"annotation {s}")


# ----------------------------------------------------------------------------------------------------------- prelude
PRELUDE = r"""import Frequenz.Extracted.Distribution

set_option linter.unusedVariables false

/-! Machine translation of the loops of `BatteryDistributionAlgorithm` (see `tools/extractors/distribution_loops.py`).
The prelude (Python built-ins on association lists; trusted spellings) is static, everything after it is generated. -/
namespace Extracted.DistLoops
open Extracted.Dist (isCloseToZero isClose)

/-- a Python `dict` in insertion order -/
abbrev Dict (κ ν : Type) := List (κ × ν)

/-- `d[k]` (a missing key is a `KeyError` in Python; the default stands for it) -/
def dictGet {κ ν : Type} [DecidableEq κ] [Inhabited ν] (d : Dict κ ν) (k : κ) : ν :=
  match d.find? (fun p => p.1 = k) with
  | some p => p.2
  | none => default

/-- `d[k] = v`: an existing key keeps its place, a new one goes to the end -/
def dictSet {κ ν : Type} [DecidableEq κ] (d : Dict κ ν) (k : κ) (v : ν) : Dict κ ν :=
  if d.any (fun p => p.1 = k) then d.map (fun p => if p.1 = k then (k, v) else p) else d ++ [(k, v)]

/-- `max(d.items(), key=lambda item: item[1])`: the FIRST item with the maximal value -/
def dictMaxByValue {κ : Type} : Dict κ Rat → Option (κ × Rat)
  | [] => none
  | p :: ps =>
    match dictMaxByValue ps with
    | none => some p
    | some q => if q.2 > p.2 then some q else some p

/-- `for k, v in d.items(): …` where the body changes the running state and the value of its own item only -/
def mapAccumItems {σ κ ν : Type} (f : σ → κ → ν → σ × ν) : σ → Dict κ ν → σ × Dict κ ν
  | s, [] => (s, [])
  | s, (k, v) :: rest =>
    let r := f s k v
    let t := mapAccumItems f r.1 rest
    (t.1, (k, r.2) :: t.2)

/-- `math.nan` has no rational value: 0 stands for it.  The only reads of the fields it is stored in are
`max(0.0, nan - x)` / `max(0.0, x - nan)` = 0.0 in Python (and `max (0) (0 - 0) = 0` here); the harness replays sets without
capacity on the real code. -/
def nanAsZero : Rat := 0

/-- `sum(xs)` (left fold from 0) -/
def sumL (xs : List Rat) : Rat := xs.foldl (· + ·) 0

/-- `min(xs)` / `max(xs)` of a non-empty iterable (first extremal element wins; 0 stands for the `ValueError`) -/
def minL : List Rat → Rat
  | [] => 0
  | x :: xs => xs.foldl pyMin x
def maxL : List Rat → Rat
  | [] => 0
  | x :: xs => xs.foldl pyMax x

/-- lexicographic `<` on the keys `(a, b)` of a `sort(key=lambda x: (a, b))` -/
def keyLt (p q : Rat × Rat) : Prop := p.1 < q.1 ∨ (p.1 = q.1 ∧ p.2 < q.2)
instance (p q : Rat × Rat) : Decidable (keyLt p q) := by unfold keyLt; exact inferInstance

/-- insertion into a list sorted by `key` (ascending, or descending when `reverse`), behind equal keys: stable -/
def insertByKey {α : Type} (key : α → Rat × Rat) (reverse : Bool) (x : α) : List α → List α
  | [] => [x]
  | y :: ys =>
    if (if reverse then keyLt (key x) (key y) else keyLt (key y) (key x)) then y :: insertByKey key reverse x ys
    else x :: y :: ys

/-- `xs.sort(key=…, reverse=…)`: CPython's sort is stable (also with `reverse=True`) -/
def sortByKey {α : Type} (key : α → Rat × Rat) (reverse : Bool) (xs : List α) : List α :=
  xs.foldr (insertByKey key reverse) []
"""


# ----------------------------------------------------------------------------------------------------------- compiler
def rat_lit(v) -> str:
    fr = Fraction(repr(v)) if isinstance(v, float) else Fraction(v)
    if fr.denominator == 1:
        return f"({fr.numerator} : Rat)"
    return f"(({fr.numerator} : Rat) / {fr.denominator})"


class Var:
    def __init__(self, text: str, ty: tuple, alias: tuple | None = None, item_of: str | None = None):
        self.text, self.ty, self.alias, self.item_of = text, ty, alias, item_of


class Env:
    """name -> Var; records which outer names a loop body reads (they become parameters of its definition)."""

    def __init__(self, vars_: dict[str, Var] | None = None, log: list | None = None, outer: dict | None = None):
        self.v = dict(vars_ or {})
        self.log = log
        # the variables as they were when the loop body was entered: only reads of THOSE are reads of outer variables
        self.outer = outer if outer is not None else ({k: id(v) for k, v in self.v.items()} if log is not None else {})

    def copy(self) -> "Env":
        return Env(self.v, self.log, self.outer)

    def get(self, name: str) -> Var:
        if name not in self.v:
            raise Unsupported(f"name `{name}` is not a parameter or a translated local")
        if self.log is not None and name not in self.log and self.outer.get(name) == id(self.v[name]):
            self.log.append(name)
        return self.v[name]

    def has(self, name: str) -> bool:
        return name in self.v

    def set(self, name: str, var: Var) -> "Env":
        e = self.copy()
        e.v[name] = var
        return e


class K:
    def __init__(self, fall=None, ret=None, cont=None, brk=None):
        self.fall, self.ret, self.cont, self.brk = fall, ret, cont, brk


def _no_doc(body):
    return [s for s in body if not (isinstance(s, ast.Expr) and isinstance(s.value, ast.Constant) and isinstance(s.value.value, str))]


def _assigned(stmts: list[ast.stmt]) -> list[str]:
    """Root names a statement list (re)binds or mutates, in order of first occurrence."""
    out: list[str] = []

    def add(n: str) -> None:
        if n not in out:
            out.append(n)

    def root(t: ast.AST) -> None:
        if isinstance(t, ast.Name):
            add(t.id)
        elif isinstance(t, (ast.Tuple, ast.List)):
            for x in t.elts:
                root(x)
        elif isinstance(t, (ast.Subscript, ast.Attribute)):
            b = t
            while isinstance(b, (ast.Subscript, ast.Attribute)):
                b = b.value
            if isinstance(b, ast.Name):
                add(b.id)

    for s in stmts:
        for n in ast.walk(s):
            if isinstance(n, ast.Assign):
                for t in n.targets:
                    root(t)
            elif isinstance(n, (ast.AugAssign, ast.AnnAssign)):
                root(n.target)
            elif isinstance(n, ast.For):
                root(n.target)
            elif isinstance(n, ast.Expr) and isinstance(n.value, ast.Call) and isinstance(n.value.func, ast.Attribute) \
                    and n.value.func.attr in ("append", "sort", "clear", "pop", "update", "extend") and isinstance(n.value.func.value, ast.Name):
                add(n.value.func.value.id)
    return out


def _exits(stmts: list[ast.stmt]) -> bool:
    """Does any path through the statements leave them (return / continue / break) — loops do not count for continue/break."""
    for s in stmts:
        if isinstance(s, (ast.Return, ast.Continue, ast.Break, ast.Raise)):
            return True
        if isinstance(s, ast.If) and (_exits(s.body) or _exits(s.orelse)):
            return True
        if isinstance(s, (ast.For, ast.While)) and any(isinstance(n, ast.Return) for n in ast.walk(s)):
            return True
    return False


# ----------------------------------------------------------------------------------------------------------- canonical form
def _score(t: ast.expr) -> tuple:
    nots = sum(isinstance(n, ast.UnaryOp) and isinstance(n.op, ast.Not) for n in ast.walk(t))
    weak = sum(isinstance(n, ast.Compare) and isinstance(n.ops[0], (ast.LtE, ast.GtE, ast.NotEq)) for n in ast.walk(t))
    return (nots, weak, ast.unparse(t))


def _lt_form(t: ast.expr) -> ast.expr:
    """`a > b` -> `b < a`, `a >= b` -> `b <= a` throughout a condition (the same test)."""
    class V(ast.NodeTransformer):
        def visit_Compare(self, n: ast.Compare) -> ast.AST:  # noqa: N802
            self.generic_visit(n)
            if len(n.ops) == 1 and isinstance(n.ops[0], (ast.Gt, ast.GtE)):
                return ast.Compare(left=n.comparators[0], ops=[ast.Lt() if isinstance(n.ops[0], ast.Gt) else ast.LtE()],
                                   comparators=[n.left])
            return n
    import copy
    return V().visit(copy.deepcopy(t))


def canon_test(t: ast.expr) -> tuple[ast.expr, bool]:
    """(canonical test, swapped?): negation normal form (`not` pushed through `and`/`or` and into comparisons: exact
    rationals, no NaN here), `>` written as `<`, chains in chain order; of the test and its negation the one with fewer
    `not`, then fewer non-strict comparisons, then the smaller text."""
    pos = _flat(_lt_form(D.nnf(t)))
    neg = _flat(_lt_form(D.nnf(t, True)))
    if _score(neg) < _score(pos):
        return neg, True
    return pos, False


def _flat(t: ast.expr) -> ast.expr:
    """nested `and` in `and` / `or` in `or` flattened; chains re-ordered (`distribution._canon_chain`)"""
    if isinstance(t, ast.BoolOp):
        vals = []
        for v in t.values:
            v = _flat(v)
            if isinstance(v, ast.BoolOp) and type(v.op) is type(t.op):
                vals.extend(v.values)
            else:
                vals.append(v)
        b = ast.BoolOp(op=t.op, values=vals)
        return D._canon_chain(b) if isinstance(t.op, ast.And) else b
    return t


def _same(a: list[ast.stmt], b: list[ast.stmt]) -> bool:
    return [ast.dump(x) for x in a] == [ast.dump(x) for x in b]


def _simple_tail(stmts: list[ast.stmt]) -> bool:
    return 0 < len(stmts) <= 3 and not any(isinstance(n, (ast.For, ast.While, ast.If)) for s in stmts for n in ast.walk(s))


def _flag_test(t: ast.expr) -> tuple[str, bool] | None:
    """(name, polarity) of a test that is a plain name or its negation"""
    pol = True
    while isinstance(t, ast.UnaryOp) and isinstance(t.op, ast.Not):
        t, pol = t.operand, not pol
    return (t.id, pol) if isinstance(t, ast.Name) else None


def _unswitch(stmts: list[ast.stmt]) -> list[ast.stmt]:
    """A test on a flag that no statement of the loop assigns is decided once, outside the loop:
    `for x in xs: if flag: A else: B` = `if flag: (for x in xs: A) else: (for x in xs: B)`; two adjacent `if`s on the same
    flag (not assigned in between) are one `if`.  So it does not matter whether the source tests the flag inside or outside
    its loops."""
    def names_stored(ss: list[ast.stmt]) -> set[str]:
        return {y.id for st in ss for y in ast.walk(st) if isinstance(y, ast.Name) and isinstance(y.ctx, (ast.Store, ast.Del))}

    out: list[ast.stmt] = []
    for s in stmts:
        if isinstance(s, ast.For) and not s.orelse:
            body = _unswitch(_no_doc(list(s.body)))
            s = ast.copy_location(ast.For(target=s.target, iter=s.iter, body=body, orelse=[]), s)
            if len(body) == 1 and isinstance(body[0], ast.If):
                ft = _flag_test(body[0].test)
                if ft is not None and ft[0] not in names_stored([s]):
                    i = body[0]
                    yes, no = (i.body, i.orelse) if ft[1] else (i.orelse, i.body)
                    mk = lambda b: [ast.copy_location(ast.For(target=s.target, iter=s.iter, body=list(b) or [ast.Pass()], orelse=[]), s)]  # noqa: E731
                    s = ast.copy_location(ast.If(test=ast.Name(id=ft[0], ctx=ast.Load()), body=mk(yes), orelse=mk(no)), s)
        elif isinstance(s, ast.If):
            s = ast.copy_location(ast.If(test=s.test, body=_unswitch(s.body), orelse=_unswitch(s.orelse)), s)
            ft = _flag_test(s.test)
            if ft is not None and not ft[1]:
                s = ast.copy_location(ast.If(test=ast.Name(id=ft[0], ctx=ast.Load()), body=s.orelse or [ast.Pass()], orelse=s.body), s)
        if out and isinstance(s, ast.If) and isinstance(out[-1], ast.If):
            a, b = _flag_test(out[-1].test), _flag_test(s.test)
            if a is not None and b is not None and a == b and a[1] and a[0] not in names_stored([out[-1]]) \
                    and not D._ends_block(out[-1].body) and not D._ends_block(out[-1].orelse):
                prev = out[-1]
                out[-1] = ast.copy_location(ast.If(test=prev.test, body=[x for x in prev.body if not isinstance(x, ast.Pass)] + s.body,
                                                   orelse=[x for x in prev.orelse if not isinstance(x, ast.Pass)] + s.orelse), prev)
                continue
        out.append(s)
    # the merge may have produced a loop body that is now a single `if` on a flag: once more from the outside
    return out


def canon_block(stmts: list[ast.stmt]) -> list[ast.stmt]:
    """Canonical statement lists: every `if` in the canonical polarity; `if a: X elif b: X else: Y` = `if a or b: X else:
    Y`; `if a: (if b: X else: Y) else: Y` = `if a and b: X else: Y`; a short loop-free tail after an `if` is continued
    in both arms; `while c: if e: break; …` = `while c and not e: …`."""
    stmts = _unswitch(_comprehensions(stmts))
    if len(stmts) >= 2 and isinstance(stmts[-1], ast.Return) and isinstance(stmts[-1].value, ast.Name):
        last, name = stmts[-2], stmts[-1].value.id  # `x = e; return x` = `return e`
        tgt = last.targets[0] if isinstance(last, ast.Assign) and len(last.targets) == 1 else (
            last.target if isinstance(last, ast.AnnAssign) and last.value is not None else None)
        if isinstance(tgt, ast.Name) and tgt.id == name:
            stmts = stmts[:-2] + [ast.copy_location(ast.Return(value=last.value), stmts[-1])]
    out: list[ast.stmt] = []
    for i, s in enumerate(stmts):
        if isinstance(s, ast.If):
            rest = stmts[i + 1:]
            body, orelse = list(s.body), list(s.orelse)
            if rest and _simple_tail(rest) and not D._ends_block(body) and not D._ends_block(orelse):
                body, orelse = body + rest, orelse + rest
                rest = []
            node = canon_if(s.test, canon_block(body), canon_block(orelse))
            out.extend(node)
            if not rest:
                return out
            continue
        if isinstance(s, ast.For):
            t = ast.For(target=s.target, iter=s.iter, body=canon_block(s.body), orelse=s.orelse)
            out.append(ast.copy_location(t, s))
            continue
        if isinstance(s, ast.While):
            test, body = s.test, canon_block(s.body)
            while len(body) == 1 and isinstance(body[0], ast.If):
                b0 = body[0]
                if len(b0.body) == 1 and isinstance(b0.body[0], ast.Break):
                    test = ast.BoolOp(op=ast.And(), values=[test, ast.UnaryOp(op=ast.Not(), operand=b0.test)])
                    body = b0.orelse
                elif len(b0.orelse) == 1 and isinstance(b0.orelse[0], ast.Break):
                    test = ast.BoolOp(op=ast.And(), values=[test, b0.test])
                    body = b0.body
                else:
                    break
            test = _flat(_lt_form(D.nnf(test)))
            out.append(ast.copy_location(ast.While(test=test, body=body, orelse=s.orelse), s))
            continue
        out.append(s)
    return out


def _comprehensions(stmts: list[ast.stmt]) -> list[ast.stmt]:
    """`x = []` … `for t in it: x.append(e)`  ->  `x = [e for t in it]`;  `d = {}` … `for t in it [for u in it2]: d[k] = v`
    ->  `d = {k: v for t in it [for u in it2]}` (nothing between the initialisation and the loop mentions the
    container; the loop body is that single statement)."""
    out = list(stmts)
    changed = True
    while changed:
        changed = False
        for i, s in enumerate(out):
            if not isinstance(s, ast.For) or s.orelse:
                continue
            gens, body = [], s
            while isinstance(body, ast.For) and not body.orelse and len(_no_doc(body.body)) == 1:
                gens.append(ast.comprehension(target=body.target, iter=body.iter, ifs=[], is_async=0))
                body = _no_doc(body.body)[0]
            name = new = None
            if isinstance(body, ast.Expr) and isinstance(body.value, ast.Call) and isinstance(body.value.func, ast.Attribute) \
                    and body.value.func.attr == "append" and isinstance(body.value.func.value, ast.Name) and len(body.value.args) == 1:
                name = body.value.func.value.id
                new = ast.ListComp(elt=body.value.args[0], generators=gens)
                empty = ast.List
            elif isinstance(body, ast.Assign) and len(body.targets) == 1 and isinstance(body.targets[0], ast.Subscript) \
                    and isinstance(body.targets[0].value, ast.Name):
                name = body.targets[0].value.id
                new = ast.DictComp(key=body.targets[0].slice, value=body.value, generators=gens)
                empty = ast.Dict
            if name is None:
                continue
            mentions = lambda n: any(isinstance(x, ast.Name) and x.id == name for x in ast.walk(n))  # noqa: E731
            if any(mentions(g.iter) for g in gens) or mentions(new.elt if isinstance(new, ast.ListComp) else ast.Tuple(elts=[new.key, new.value], ctx=ast.Load())):
                continue
            j = next((k for k in range(i - 1, -1, -1) if mentions(out[k])), None)
            if j is None:
                continue
            init = out[j]
            val = getattr(init, "value", None)
            tgt = init.targets[0] if isinstance(init, ast.Assign) and len(init.targets) == 1 else getattr(init, "target", None)
            if not (isinstance(tgt, ast.Name) and tgt.id == name and isinstance(val, empty)
                    and not (val.keys if isinstance(val, ast.Dict) else val.elts)):
                continue
            repl = ast.AnnAssign(target=tgt, annotation=init.annotation, value=new, simple=1) if isinstance(init, ast.AnnAssign) \
                else ast.Assign(targets=[tgt], value=new)
            out = out[:j] + [ast.fix_missing_locations(ast.copy_location(repl, init))] + out[j + 1:i] + out[i + 1:]
            changed = True
            break
    return out


def canon_if(test: ast.expr, body: list[ast.stmt], orelse: list[ast.stmt]) -> list[ast.stmt]:
    if _same(body, orelse):
        return body
    # merge equal outcomes of nested tests
    if len(orelse) == 1 and isinstance(orelse[0], ast.If) and _same(orelse[0].body, body):
        return canon_if(ast.BoolOp(op=ast.Or(), values=[test, orelse[0].test]), body, orelse[0].orelse)
    if len(body) == 1 and isinstance(body[0], ast.If) and _same(body[0].orelse, orelse):
        return canon_if(ast.BoolOp(op=ast.And(), values=[test, body[0].test]), body[0].body, orelse)
    if len(orelse) == 1 and isinstance(orelse[0], ast.If) and _same(orelse[0].orelse, body):
        return canon_if(ast.BoolOp(op=ast.Or(), values=[test, ast.UnaryOp(op=ast.Not(), operand=orelse[0].test)]), body, orelse[0].body)
    if len(body) == 1 and isinstance(body[0], ast.If) and _same(body[0].body, orelse):
        return canon_if(ast.BoolOp(op=ast.And(), values=[test, ast.UnaryOp(op=ast.Not(), operand=body[0].test)]), body[0].orelse, orelse)
    t, swapped = canon_test(test)
    a, b = (orelse, body) if swapped else (body, orelse)
    return [ast.fix_missing_locations(ast.If(test=t, body=a or [ast.Pass()], orelse=b))]


class Compiler:
    def __init__(self, tree: ast.Module, cls: ast.ClassDef):
        self.tree, self.cls = tree, cls
        self.records: dict[str, list[tuple[str, tuple]]] = dict(FIXED_RECORDS)
        self._records()
        self.defs: list[str] = []  # generated Lean definitions, in dependency order
        self.sigs: dict[str, dict] = {}  # translated methods: name -> {"params": [(py, ty)], "ret": ty, "consts": [...], "fuel": n}
        self.cur = ""
        self.counter: dict[str, int] = {}

    # ---- records of the module
    def _records(self) -> None:
        for c in self.tree.body:
            if isinstance(c, ast.ClassDef) and c.name in CLASS_TO_REC:
                fields = []
                for s in c.body:
                    if isinstance(s, ast.AnnAssign) and isinstance(s.target, ast.Name):
                        fields.append((s.target.id, ann_ty(s.annotation)))
                if not fields:
                    raise Unsupported(f"class {c.name}: no fields")
                self.records[CLASS_TO_REC[c.name]] = fields
        for need in CLASS_TO_REC.values():
            if need not in self.records:
                raise Unsupported(f"record {need} not found")

    def struct_defs(self) -> str:
        order = ["PBounds", "BatData", "AggBat", "InvData", "Pair", "AvRatio", "Power", "Alloc", "DistResult"]
        out = []
        for n in order:
            out.append(f"structure {n} where\n" + "".join(f"  {f} : {lean_ty(t)}\n" for f, t in self.records[n])
                       + "deriving Repr, DecidableEq, Inhabited\n")
        return "\n".join(out)

    def field_ty(self, rec: str, f: str) -> tuple:
        for n, t in self.records[rec]:
            if n == f:
                return t
        raise Unsupported(f"{rec} has no field {f}")

    def fresh(self, kind: str) -> str:
        k = f"{self.cur}_{kind}"
        self.counter[k] = self.counter.get(k, 0) + 1
        return f"{k}{self.counter[k]}"

    # ---- expressions
    def num(self, n: ast.expr, env: Env, want: tuple | None = None) -> tuple[str, tuple]:
        t, ty = self.ex(n, env, want)
        return t, ty

    def prop(self, n: ast.expr, env: Env) -> str:
        t, ty = self.ex(n, env)
        if ty == BOOL:
            return t
        if ty[0] in ("dict", "list"):
            return f"({t} ≠ [])"
        raise Unsupported(f"`{ast.unparse(n)[:60]}` used as a condition")

    def ex(self, n: ast.expr, env: Env, want: tuple | None = None) -> tuple[str, tuple]:
        if isinstance(n, ast.Constant):
            if isinstance(n.value, bool):
                return ("True" if n.value else "False"), BOOL
            if isinstance(n.value, (int, float)):
                if want == INT and isinstance(n.value, int):
                    return f"({n.value} : Int)", INT
                return rat_lit(n.value), RAT
            raise Unsupported(f"constant {n.value!r}")
        if isinstance(n, ast.Name):
            v = env.get(n.id)
            if v.alias is not None:
                d, ktxt = v.alias
                return f"(dictGet {env.get(d).text} {ktxt})", v.ty
            return v.text, v.ty
        if isinstance(n, ast.Attribute):
            if ast.unparse(n) == "self._distributor_exponent":
                return "exponent", NAT
            if ast.unparse(n) == "math.nan":
                return "nanAsZero", RAT
            t, ty = self.ex(n.value, env)
            if ty[0] != "rec":
                raise Unsupported(f"attribute of {ast.unparse(n.value)[:40]}")
            return f"{t}.{n.attr}", self.field_ty(ty[1], n.attr)
        if isinstance(n, ast.Subscript):
            if isinstance(n.value, ast.Name) and env.has(n.value.id) and env.v[n.value.id].item_of is not None \
                    and isinstance(n.slice, ast.Name) and n.slice.id == env.v[n.value.id].item_of[0]:
                cell = env.get(env.v[n.value.id].item_of[1])  # the own item of the dict being iterated
                return cell.text, cell.ty
            t, ty = self.ex(n.value, env)
            if ty[0] == "dict":
                k, _ = self.ex(n.slice, env, ty[1])
                return f"(dictGet {t} {k})", ty[2]
            if ty[0] == "list" and isinstance(n.slice, ast.Constant) and n.slice.value == 0:
                return f"({t}.headD default)", ty[1]
            if ty[0] == "tup" and isinstance(n.slice, ast.Constant) and isinstance(n.slice.value, int):
                i = n.slice.value
                if not 0 <= i < len(ty[1]):
                    raise Unsupported("tuple index")
                proj = ".".join(["2"] * i + (["1"] if i < len(ty[1]) - 1 else []))
                return f"{t}.{proj}", ty[1][i]
            raise Unsupported(f"subscript {ast.unparse(n)[:50]}")
        if isinstance(n, ast.UnaryOp):
            if isinstance(n.op, ast.USub):
                t, ty = self.ex(n.operand, env)
                return f"(-{t})", ty
            if isinstance(n.op, ast.UAdd):
                return self.ex(n.operand, env)
            if isinstance(n.op, ast.Not):
                return f"(¬ {self.prop(n.operand, env)})", BOOL
        if isinstance(n, ast.BinOp):
            sym = {ast.Add: "+", ast.Sub: "-", ast.Mult: "*", ast.Div: "/"}.get(type(n.op))
            if sym is None:
                raise Unsupported(f"operator in {ast.unparse(n)[:50]}")
            a, ta = self.ex(n.left, env)
            b, tb = self.ex(n.right, env)
            if ta == RAT and tb == INT:
                b, tb = f"(({b} : Int) : Rat)", RAT
            if ta == INT and tb == RAT:
                a, ta = f"(({a} : Int) : Rat)", RAT
            if ta != RAT or tb != RAT:
                raise Unsupported(f"arithmetic on {ta} {sym} {tb} in {ast.unparse(n)[:50]}")
            return f"({a} {sym} {b})", RAT
        if isinstance(n, ast.BoolOp):
            j = " ∧ " if isinstance(n.op, ast.And) else " ∨ "
            return "(" + j.join(self.prop(v, env) for v in n.values) + ")", BOOL
        if isinstance(n, ast.Compare):
            ops = {ast.Lt: "<", ast.LtE: "≤", ast.Gt: ">", ast.GtE: "≥", ast.Eq: "=", ast.NotEq: "≠"}
            parts, left = [], n.left
            for op, right in zip(n.ops, n.comparators):
                sym = ops.get(type(op))
                if sym is None:
                    raise Unsupported(f"comparison in {ast.unparse(n)[:50]}")
                lt, lty = self.ex(left, env)
                rt, rty = self.ex(right, env, lty if lty in (INT, NAT) else None)
                if lty == RAT and rty == INT:
                    lt, lty = self.ex(left, env, INT)
                if lty != rty or lty not in (RAT, INT, NAT):
                    raise Unsupported(f"comparison of {lty} with {rty} in {ast.unparse(n)[:50]}")
                parts.append(f"{lt} {sym} {rt}")
                left = right
            return "(" + " ∧ ".join(parts) + ")", BOOL
        if isinstance(n, ast.IfExp):
            a, ta = self.ex(n.body, env)
            b, tb = self.ex(n.orelse, env)
            if ta != tb:
                raise Unsupported("conditional expression with two types")
            return f"(if {self.prop(n.test, env)} then {a} else {b})", ta
        if isinstance(n, ast.Tuple):
            parts = [self.ex(x, env) for x in n.elts]
            return "(" + ", ".join(p[0] for p in parts) + ")", TUP(*[p[1] for p in parts])
        if isinstance(n, ast.ListComp) and len(n.generators) == 1:
            return self.gen_list(n.elt, n.generators, env)
        if isinstance(n, ast.DictComp):
            kv = ast.Tuple(elts=[n.key, n.value], ctx=ast.Load())
            t, ty = self.gen_list(kv, n.generators, env)
            kt, vt = ty[1][1]
            return f"(({t}).foldl (fun d p => dictSet d p.1 p.2) ([] : Dict {lean_ty(kt)} {lean_ty(vt)}))", DICT(kt, vt)
        if isinstance(n, ast.Call):
            return self.call(n, env)
        raise Unsupported(f"expression {ast.unparse(n)[:60]}")

    def gen_list(self, elt: ast.expr, gens: list[ast.comprehension], env: Env) -> tuple[str, tuple]:
        """`[elt for t1 in it1 [for t2 in it2]]` as `List.map` / `List.flatMap`."""
        if any(g.ifs or g.is_async for g in gens) or not 1 <= len(gens) <= 2:
            raise Unsupported("comprehension with filters / more than two loops")
        g = gens[0]
        it, ity = self.ex(g.iter, env)
        if ity[0] != "list":
            raise Unsupported(f"iteration over {ity}")
        x = f"x{len(env.v)}_{len(gens)}"
        env2 = self.bind_target(g.target, x, ity[1], env)
        if len(gens) == 1:
            body, bty = self.ex(elt, env2)
            return f"({it}.map (fun {x} => {body}))", LIST(bty)
        inner, inty = self.gen_list(elt, gens[1:], env2)
        return f"({it}.flatMap (fun {x} => {inner}))", inty

    def bind_target(self, target: ast.expr, x: str, ty: tuple, env: Env) -> Env:
        """`for <target> in …` with the element bound to the Lean variable `x` of type `ty`."""
        if isinstance(target, ast.Name):
            return env.set(target.id, Var(x, ty))
        if isinstance(target, ast.Tuple):
            if ty[0] == "tup" and len(ty[1]) == len(target.elts):
                comps = [(f"{x}." + ".".join(["2"] * i + (["1"] if i < len(ty[1]) - 1 else [])), t) for i, t in enumerate(ty[1])]
            elif ty[0] == "rec" and len(self.records[ty[1]]) == len(target.elts):  # NamedTuple unpacking
                comps = [(f"{x}.{f}", t) for f, t in self.records[ty[1]]]
            else:
                raise Unsupported(f"cannot unpack {ty} into {ast.unparse(target)}")
            for e, (txt, t) in zip(target.elts, comps):
                if not isinstance(e, ast.Name):
                    raise Unsupported("nested unpacking")
                if e.id != "_":
                    env = env.set(e.id, Var(txt, t))
            return env
        raise Unsupported(f"loop target {ast.unparse(target)}")

    def bind_named(self, target: ast.expr, x: str, ty: tuple, env: Env) -> tuple[Env, str]:
        """like `bind_target`, but every component gets a `let` with its own name (so that inner loops can take it as a
        parameter)"""
        e2 = self.bind_target(target, x, ty, env)
        lets = ""
        names = [target] if isinstance(target, ast.Name) else list(getattr(target, "elts", []))
        for nm in names:
            if isinstance(nm, ast.Name) and nm.id != "_":
                v = e2.v[nm.id]
                if v.text != nm.id:
                    lets += f"  let {nm.id} : {lean_ty(v.ty)} := {v.text}\n"
                    e2 = e2.set(nm.id, Var(nm.id, v.ty))
        return e2, lets

    def call(self, n: ast.Call, env: Env) -> tuple[str, tuple]:
        f = ast.unparse(n.func)
        if f in ("is_close_to_zero", "_math.is_close_to_zero") and len(n.args) == 1 and not n.keywords:
            return f"(isCloseToZero {self.ex(n.args[0], env)[0]})", BOOL
        if f == "math.isclose" and len(n.args) == 2 and not n.keywords:
            return f"(isClose {self.ex(n.args[0], env)[0]} {self.ex(n.args[1], env)[0]})", BOOL
        if f in ("max", "min") and len(n.args) == 2 and not n.keywords:
            a, ta = self.ex(n.args[0], env)
            b, tb = self.ex(n.args[1], env)
            if ta != RAT or tb != RAT:
                raise Unsupported(f"{f} of {ta}, {tb}")
            return f"(py{f.capitalize()} {a} {b})", RAT
        if f in ("sum", "min", "max") and len(n.args) == 1 and isinstance(n.args[0], (ast.GeneratorExp, ast.ListComp)) and not n.keywords:
            t, ty = self.gen_list(n.args[0].elt, n.args[0].generators, env)
            if ty != LIST(RAT):
                raise Unsupported(f"{f} over {ty}")
            return f"({ {'sum': 'sumL', 'min': 'minL', 'max': 'maxL'}[f]} {t})", RAT
        if f == "max" and len(n.args) == 1 and [k.arg for k in n.keywords] == ["key"] and isinstance(n.args[0], ast.Call) \
                and isinstance(n.args[0].func, ast.Attribute) and n.args[0].func.attr == "items" and not n.args[0].args:
            key = n.keywords[0].value
            ok = (isinstance(key, ast.Lambda) and len(key.args.args) == 1 and ast.unparse(key.body) == f"{key.args.args[0].arg}[1]") \
                or ast.unparse(key) in ("operator.itemgetter(1)", "itemgetter(1)")
            d, dty = self.ex(n.args[0].func.value, env)
            if not ok or dty[0] != "dict" or dty[2] != RAT:
                raise Unsupported(f"max(...) {ast.unparse(n)[:60]}")
            return f"((dictMaxByValue {d}).getD default)", TUP(dty[1], RAT)
        if f == "len" and len(n.args) == 1:
            t, ty = self.ex(n.args[0], env)
            if ty[0] not in ("list", "dict"):
                raise Unsupported("len of a non-list")
            return f"(({t}.length : Nat) : Int)", INT
        if f == "pow" and len(n.args) == 2:
            a, ta = self.ex(n.args[0], env)
            b, tb = self.ex(n.args[1], env)
            if ta != RAT or tb != NAT:
                raise Unsupported("pow with a non-natural exponent")
            return f"({a} ^ {b})", RAT
        if f in ("_InverterSet", "frozenset") and len(n.args) == 1:
            t, ty = self.ex(n.args[0], env)
            if ty != IDSET:
                raise Unsupported("frozenset of a non-id list")
            return f"(fsOrder {t})", IDSET
        if f == "next" and len(n.args) == 1 and isinstance(n.args[0], ast.Call) and ast.unparse(n.args[0].func) == "iter" and len(n.args[0].args) == 1:
            t, ty = self.ex(n.args[0].args[0], env)
            if ty[0] != "list":
                raise Unsupported("next(iter(…)) of a non-list")
            return f"({t}.headD default)", ty[1]
        if f in ("list", "tuple") and len(n.args) == 1:
            return self.ex(n.args[0], env)
        if f == "map" and len(n.args) == 2 and not n.keywords and isinstance(n.args[0], ast.Lambda) \
                and len(n.args[0].args.args) == 1 and not n.args[0].args.defaults:
            lam = n.args[0]
            gen = ast.comprehension(target=ast.Name(id=lam.args.args[0].arg, ctx=ast.Store()), iter=n.args[1], ifs=[], is_async=0)
            return self.gen_list(lam.body, [gen], env)
        if isinstance(n.func, ast.Attribute) and n.func.attr in ("items", "keys", "values") and not n.args and not n.keywords:
            t, ty = self.ex(n.func.value, env)
            if ty[0] != "dict":
                raise Unsupported(f"{n.func.attr}() of {ty}")
            if n.func.attr == "items":
                return t, LIST(TUP(ty[1], ty[2]))
            return (f"({t}.map Prod.fst)", LIST(ty[1])) if n.func.attr == "keys" else (f"({t}.map Prod.snd)", LIST(ty[2]))
        # constructors of the module's dataclasses (positional and keyword arguments)
        base = f.split("[")[0]
        if base in CLASS_TO_REC or (base in FIXED_CLASSES and not n.args):
            rec = CLASS_TO_REC[base] if base in CLASS_TO_REC else FIXED_CLASSES[base]
            fields = self.records[rec]
            if len(n.args) == 1 and isinstance(n.args[0], ast.Starred) and not n.keywords:  # `_Allocation(*pair)`
                t, ty = self.ex(n.args[0].value, env)
                if ty[0] != "tup" or [x for x in ty[1]] != [ft for _, ft in fields]:
                    raise Unsupported(f"{base}(*…) of {ty}")
                projs = [f"{t}." + ".".join(["2"] * i + (["1"] if i < len(fields) - 1 else [])) for i in range(len(fields))]
                return "{ " + ", ".join(f"{fn} := {p}" for (fn, _), p in zip(fields, projs)) + f" : {rec} }}", REC(rec)
            vals: dict[str, ast.expr] = {}
            for (fn, _), a in zip(fields, n.args):
                vals[fn] = a
            for kw in n.keywords:
                if kw.arg is None or kw.arg in vals or kw.arg not in [x for x, _ in fields]:
                    raise Unsupported(f"{base}(...): argument {kw.arg}")
                vals[kw.arg] = kw.value
            if len(n.args) > len(fields) or set(vals) != {x for x, _ in fields}:
                raise Unsupported(f"{base}(...): fields {sorted(vals)}")
            parts = []
            for fn, ft in fields:
                t, ty = self.ex(vals[fn], env, ft)
                if ty != ft:
                    raise Unsupported(f"{base}.{fn}: {ty} instead of {ft}")
                parts.append(f"{fn} := {t}")
            return "{ " + ", ".join(parts) + f" : {rec} }}", REC(rec)
        # other translated methods
        callee = n.func.attr if (isinstance(n.func, ast.Attribute) and isinstance(n.func.value, ast.Name)
                                 and n.func.value.id == "self") else (n.func.id if isinstance(n.func, ast.Name) else None)
        if callee in self.sigs and self.sigs[callee]["is_method"] == isinstance(n.func, ast.Attribute):
            sig = self.sigs[callee]
            params = sig["params"]
            bind: dict[str, ast.expr] = dict(zip([p for p, _ in params], n.args))
            for kw in n.keywords:
                if kw.arg is None or kw.arg in bind or kw.arg not in [p for p, _ in params]:
                    raise Unsupported(f"call {f}: argument {kw.arg}")
                bind[kw.arg] = kw.value
            for p, d in sig["defaults"].items():
                bind.setdefault(p, d)
            if set(bind) != {p for p, _ in params}:
                raise Unsupported(f"call {f}: arguments")
            args = []
            for p, pty in params:
                t, ty = self.ex(bind[p], env, pty)
                if pty == BOOL:
                    t = self.prop(bind[p], env)
                    ty = BOOL
                if ty != pty:
                    raise Unsupported(f"call {f}: {p} is {ty}, expected {pty}")
                args.append(t)
            return "(" + " ".join([sig["lean"]] + sig["consts"] + args) + ")", sig["ret"]
        raise Unsupported(f"call {ast.unparse(n)[:70]}")

    # ---- statements
    def tuple_text(self, names: list[str], env: Env) -> str:
        ts = [env.v[n].text for n in names]
        return ts[0] if len(ts) == 1 else "(" + ", ".join(ts) + ")"

    def tuple_ty(self, names: list[str], env: Env) -> str:
        ts = [lean_ty(env.v[n].ty) for n in names]
        return ts[0] if len(ts) == 1 else "(" + " × ".join(ts) + ")"

    def unpack(self, names: list[str], src: str, env: Env, ind: str) -> str:
        if len(names) == 1:
            return f"{ind}let {env.v[names[0]].text} := {src}\n"
        out = ""
        for i, n in enumerate(names):
            proj = ".".join(["2"] * i + (["1"] if i < len(names) - 1 else []))
            out += f"{ind}let {env.v[n].text} := {src}.{proj}\n"
        return out

    def comp(self, stmts: list[ast.stmt], env: Env, k: K, ind: str) -> str:
        if not stmts:
            if k.fall is None:
                raise Unsupported("control falls off the end of a method")
            return ind + k.fall(env)
        s, rest = stmts[0], stmts[1:]
        go = lambda e, i2=None: self.comp(rest, e, k, ind if i2 is None else i2)  # noqa: E731
        if isinstance(s, (ast.Pass, ast.Assert)):
            return go(env)
        if isinstance(s, ast.Expr):
            v = s.value
            if isinstance(v, ast.Constant) and isinstance(v.value, str):
                return go(env)
            if isinstance(v, ast.Call) and ast.unparse(v.func).startswith("_logger."):
                return go(env)
            if isinstance(v, ast.Call) and isinstance(v.func, ast.Attribute) and isinstance(v.func.value, ast.Name):
                recv = v.func.value.id
                var = env.get(recv)
                if v.func.attr == "append" and len(v.args) == 1 and var.ty[0] == "list":
                    t, ty = self.ex(v.args[0], env, var.ty[1])
                    if ty != var.ty[1]:
                        raise Unsupported(f"append of {ty} to {var.ty}")
                    return f"{ind}let {var.text} := {var.text} ++ [{t}]\n" + go(env)
                if v.func.attr == "sort" and not v.args and var.ty[0] == "list":
                    return f"{ind}let {var.text} := {self.sort_call(v, var, env)}\n" + go(env)
            raise Unsupported(f"statement {ast.unparse(s)[:60]}")
        if isinstance(s, ast.AnnAssign):
            if s.value is None:
                return go(env)
            s = ast.Assign(targets=[s.target], value=s.value)
        if isinstance(s, ast.Assign) and isinstance(s.value, (ast.JoinedStr,)) or (
                isinstance(s, ast.Assign) and isinstance(s.value, ast.Constant) and isinstance(s.value.value, str)):
            return go(env)  # message texts
        if isinstance(s, ast.Raise):
            if not self.raises:
                raise Unsupported("raise in a method that was not expected to raise")
            return ind + "none"
        if isinstance(s, ast.Assign):
            if len(s.targets) != 1:
                raise Unsupported("multiple assignment")
            return self.assign(s.targets[0], s.value, env, go, ind)
        if isinstance(s, ast.AugAssign):
            if not isinstance(s.op, (ast.Add, ast.Sub, ast.Mult)):
                raise Unsupported("augmented assignment operator")
            load = copy_load(s.target)
            return self.assign(s.target, ast.BinOp(left=load, op=s.op, right=s.value), env, go, ind)
        if isinstance(s, ast.If):
            c = self.prop(s.test, env)
            if _exits(s.body) or _exits(s.orelse) or not rest:
                return (f"{ind}if {c} then\n" + self.comp(s.body + rest, env, k, ind + "  ")
                        + f"\n{ind}else\n" + self.comp(s.orelse + rest, env, k, ind + "  "))
            mods = [n for n in _assigned(s.body + s.orelse) if env.has(n) or (n in _assigned(s.body) and n in _assigned(s.orelse))]
            # variables first defined in both arms are joined too; the others stay local to their arm
            env2 = env
            for n in mods:
                if not env.has(n):
                    raise Unsupported(f"`{n}` is first assigned inside an `if` and used after it")
            fin = K(fall=lambda e: self.tuple_text(mods, e), ret=k.ret, cont=k.cont, brk=k.brk)
            if not mods:
                return go(env)
            r = self.fresh("r")
            txt = (f"{ind}let {r} : {self.tuple_ty(mods, env)} :=\n{ind}  if {c} then\n" + self.comp(s.body, env, fin, ind + "    ")
                   + f"\n{ind}  else\n" + self.comp(s.orelse, env, fin, ind + "    ") + "\n")
            return txt + self.unpack(mods, r, env2, ind) + go(env2)
        if isinstance(s, ast.For):
            return self.for_loop(s, env, go, ind)
        if isinstance(s, ast.While):
            return self.while_loop(s, env, go, ind)
        if isinstance(s, ast.Return):
            if k.ret is None:
                raise Unsupported("return inside a loop")
            return ind + k.ret(s.value, env)
        if isinstance(s, ast.Continue):
            if k.cont is None:
                raise Unsupported("continue outside a loop")
            return ind + k.cont(env)
        if isinstance(s, ast.Break):
            if k.brk is None:
                raise Unsupported("break outside a while loop")
            return ind + k.brk(env)
        raise Unsupported(f"statement {type(s).__name__}: {ast.unparse(s)[:60]}")

    def sort_call(self, v: ast.Call, var: Var, env: Env) -> str:
        kws = {kw.arg: kw.value for kw in v.keywords}
        if set(kws) - {"key", "reverse"} or "key" not in kws:
            raise Unsupported("sort arguments")
        rev = kws.get("reverse", ast.Constant(value=False))
        key = kws["key"]
        if not (isinstance(rev, ast.Constant) and isinstance(rev.value, bool) and isinstance(key, ast.Lambda)
                and len(key.args.args) == 1 and isinstance(key.body, ast.Tuple) and len(key.body.elts) == 2):
            raise Unsupported("sort key must be `lambda x: (a, b)`, reverse a literal")
        x = "x_key"
        env2 = env.set(key.args.args[0].arg, Var(x, var.ty[1]))
        comps = []
        for e in key.body.elts:
            t, ty = self.ex(e, env2)
            if ty == INT:
                t = f"(({t} : Int) : Rat)"
            elif ty != RAT:
                raise Unsupported("sort key component")
            comps.append(t)
        return f"sortByKey (fun {x} => ({comps[0]}, {comps[1]})) {'true' if rev.value else 'false'} {var.text}"

    def assign(self, tgt: ast.expr, val: ast.expr, env: Env, go, ind: str) -> str:
        if isinstance(tgt, ast.Name):
            name = tgt.id
            for dv in env.v.values():
                if dv.item_of is not None and dv.item_of[1] == name and dv.ty[2][0] == "rec":
                    raise Unsupported(f"`{name}` (the object of the item being iterated) is rebound")
            # an alias of an object stored in a dict: `p = d[k]`
            if isinstance(val, ast.Subscript) and isinstance(val.value, ast.Name) and env.has(val.value.id) \
                    and env.v[val.value.id].ty[0] == "dict" and env.v[val.value.id].ty[2][0] == "rec":
                dvar = env.get(val.value.id)
                ktxt, _ = self.ex(val.slice, env, dvar.ty[1])
                return go(env.set(name, Var(name, dvar.ty[2], alias=(val.value.id, ktxt))))
            if isinstance(val, (ast.Dict, ast.List)) and not (val.keys if isinstance(val, ast.Dict) else val.elts):
                ty = self.empty_ty(name, isinstance(val, ast.Dict))
                return f"{ind}let {name} : {lean_ty(ty)} := []\n" + go(env.set(name, Var(name, ty)))
            want = env.v[name].ty if env.has(name) else None
            if self.is_opt_call(val):
                t, ty = self.ex(val, env)
                inner_ty = ty[1]
                return (f"{ind}match {t} with\n{ind}| none => none\n{ind}| some {name} =>\n"
                        + go(env.set(name, Var(name, inner_ty)), ind + "  "))
            t, ty = self.ex(val, env, want)
            if ty == BOOL:
                raise Unsupported(f"boolean local `{name}` (not put back by the front-end)")
            if env.has(name) and env.v[name].ty != ty:
                raise Unsupported(f"`{name}` changes its type from {env.v[name].ty} to {ty}")
            return f"{ind}let {name} : {lean_ty(ty)} := {t}\n" + go(env.set(name, Var(name, ty)))
        if isinstance(tgt, ast.Tuple) and all(isinstance(e, ast.Name) for e in tgt.elts):
            t, ty = self.ex(val, env)
            if self.is_opt_call(val):
                r = self.fresh("r")
                inner = self.assign(tgt, ast.Name(id=r, ctx=ast.Load()), env.set(r, Var(r, ty[1])),
                                    lambda e, i2=None: go(e, ind + "  "), ind + "  ")
                return f"{ind}match {t} with\n{ind}| none => none\n{ind}| some {r} =>\n" + inner
            if ty[0] == "rec" and len(self.records[ty[1]]) == len(tgt.elts):
                comps = [(f".{f}", ft) for f, ft in self.records[ty[1]]]
            elif ty[0] == "tup" and len(ty[1]) == len(tgt.elts):
                comps = [("." + ".".join(["2"] * i + (["1"] if i < len(ty[1]) - 1 else [])), ft) for i, ft in enumerate(ty[1])]
            else:
                raise Unsupported(f"cannot unpack {ty}")
            r = self.fresh("r")
            out = f"{ind}let {r} := {t}\n"
            for e, (proj, ft) in zip(tgt.elts, comps):
                if e.id == "_":  # type: ignore[attr-defined]
                    continue
                out += f"{ind}let {e.id} : {lean_ty(ft)} := {r}{proj}\n"  # type: ignore[attr-defined]
                env = env.set(e.id, Var(e.id, ft))  # type: ignore[attr-defined]
            return out + go(env)
        if isinstance(tgt, ast.Subscript) and isinstance(tgt.value, ast.Name):
            dname = tgt.value.id
            dvar = env.v[dname] if env.has(dname) and env.v[dname].item_of is not None else env.get(dname)
            if dvar.ty[0] != "dict":
                raise Unsupported(f"store into {dvar.ty}")
            ktxt, kty = self.ex(tgt.slice, env, dvar.ty[1])
            if kty != dvar.ty[1]:
                raise Unsupported(f"key of type {kty} for {dvar.ty}")
            # the dict being iterated by an items-loop: only the own item may be written
            if dvar.item_of is not None:
                key_name, item_name = dvar.item_of  # type: ignore[misc]
                if not (isinstance(tgt.slice, ast.Name) and tgt.slice.id == key_name):
                    raise Unsupported(f"`{dname}` is written at another key while it is iterated")
                if isinstance(val, ast.Name) and val.id == item_name:
                    return go(env)  # `d[k] = v` with the (possibly mutated) stored object itself
                t, ty = self.ex(val, env, dvar.ty[2])
                if ty != dvar.ty[2]:
                    raise Unsupported(f"value of type {ty} for {dvar.ty}")
                iv = env.get(item_name)
                return f"{ind}let {iv.text} : {lean_ty(ty)} := {t}\n" + go(env)
            if isinstance(val, ast.Name) and env.has(val.id) and env.v[val.id].alias == (dname, ktxt):
                return go(env)  # storing the alias back
            t, ty = self.ex(val, env, dvar.ty[2])
            if ty != dvar.ty[2]:
                raise Unsupported(f"value of type {ty} for {dvar.ty}")
            return f"{ind}let {dvar.text} := dictSet {dvar.text} {ktxt} {t}\n" + go(env)
        if isinstance(tgt, ast.Attribute):
            base = tgt.value
            # `<alias>.attr = e` / `d[k].attr = e` / `<item of an items-loop>.attr = e` / `<record local>.attr = e`
            if isinstance(base, ast.Subscript) and isinstance(base.value, ast.Name):
                dvar = env.get(base.value.id)
                ktxt, _ = self.ex(base.slice, env, dvar.ty[1])
                alias = (base.value.id, ktxt)
                rty = dvar.ty[2]
            elif isinstance(base, ast.Name):
                v = env.get(base.id)
                rty = v.ty
                alias = v.alias
                if alias is None:
                    if rty[0] != "rec":
                        raise Unsupported(f"attribute store on {rty}")
                    t, ty = self.ex(val, env, self.field_ty(rty[1], tgt.attr))
                    return f"{ind}let {v.text} : {lean_ty(rty)} := {{ {v.text} with {tgt.attr} := {t} }}\n" + go(env)
            else:
                raise Unsupported(f"store {ast.unparse(tgt)[:50]}")
            if rty[0] != "rec":
                raise Unsupported(f"attribute store on {rty}")
            dname, ktxt = alias
            dvar = env.get(dname)
            if dvar.item_of is not None:
                raise Unsupported(f"`{dname}` is written through an alias while it is iterated")
            t, ty = self.ex(val, env, self.field_ty(rty[1], tgt.attr))
            cur = f"(dictGet {dvar.text} {ktxt})"
            return f"{ind}let {dvar.text} := dictSet {dvar.text} {ktxt} {{ {cur} with {tgt.attr} := {t} }}\n" + go(env)
        raise Unsupported(f"assignment target {ast.unparse(tgt)[:50]}")

    def is_opt_call(self, val: ast.expr) -> bool:
        return (isinstance(val, ast.Call) and isinstance(val.func, ast.Attribute) and isinstance(val.func.value, ast.Name)
                and val.func.value.id == "self" and val.func.attr in self.sigs and self.sigs[val.func.attr]["ret"][0] == "opt")

    def empty_ty(self, name: str, is_dict: bool) -> tuple:
        """Type of `name = {}` / `name = []`: from the first store / append in the current method."""
        fn = self.cur_fn
        ann = next((s.annotation for s in ast.walk(self.cur_src) if isinstance(s, ast.AnnAssign) and isinstance(s.target, ast.Name)
                    and s.target.id == name), None)
        if ann is not None:
            return ann_ty(ann)
        raise Unsupported(f"`{name} = {'{}' if is_dict else '[]'}` without a type annotation")

    # ---- loops
    def loop_state(self, body: list[ast.stmt], env: Env, extra: list[str] = ()) -> list[str]:
        """The loop-carried variables, in a canonical order: the outer variables the body assigns that are read again —
        before being overwritten in a later iteration, or after the loop.  Ordered by type, then by the shape of their
        updates (names erased), so that neither renames nor the order of independent statements matter."""
        out = []
        for n in _assigned(body):
            if not env.has(n) or n in extra:
                continue
            key_name = n
            if env.v[n].item_of is not None:  # the dict an enclosing items-loop iterates: a store goes to the item's cell
                n = env.v[n].item_of[1]
            elif not self.live(key_name, body):
                continue
            if n not in out:
                out.append(n)

        # locals of the body that merely name an expression (assigned once in the body): put back for the comparison of
        # the updates, so that naming a sub-expression does not change the order of the state
        import copy
        assigned_once: dict[str, ast.expr] = {}
        counts: dict[str, int] = {}
        for st in body:
            for x in ast.walk(st):
                if isinstance(x, (ast.Assign, ast.AugAssign, ast.For)):
                    for t in (x.targets if isinstance(x, ast.Assign) else [x.target]):
                        for y in ast.walk(t):
                            if isinstance(y, ast.Name) and isinstance(y.ctx, ast.Store):
                                counts[y.id] = counts.get(y.id, 0) + 1
                                if isinstance(x, ast.Assign) and isinstance(t, ast.Name):
                                    assigned_once[y.id] = x.value
        assigned_once = {k: v for k, v in assigned_once.items() if counts.get(k) == 1 and not env.has(k)}

        def put_back(e: ast.expr, depth: int = 0) -> ast.expr:
            if depth > 10:
                return e
            return D._Subst({k: put_back(v, depth + 1) for k, v in assigned_once.items()
                             if any(isinstance(y, ast.Name) and y.id == k for y in ast.walk(e))}).visit(copy.deepcopy(e))

        def shape(n: str) -> str:
            names = {n} | {d for d, v in env.v.items() if v.item_of is not None and v.item_of[1] == n}
            parts = []
            for st in body:
                for x in ast.walk(st):
                    tgt = None
                    if isinstance(x, ast.Assign) and len(x.targets) == 1:
                        tgt, val, op = x.targets[0], x.value, "="
                    elif isinstance(x, ast.AugAssign):
                        tgt, val, op = x.target, x.value, type(x.op).__name__
                    elif isinstance(x, ast.Expr) and isinstance(x.value, ast.Call) and isinstance(x.value.func, ast.Attribute):
                        tgt, val, op = x.value.func.value, x.value, x.value.func.attr
                    if tgt is None:
                        continue
                    root = tgt
                    while isinstance(root, (ast.Subscript, ast.Attribute)):
                        root = root.value
                    if isinstance(root, ast.Name) and root.id in names:
                        v2 = put_back(val)
                        for y in ast.walk(v2):
                            if isinstance(y, ast.Name):
                                y.id = "_"
                            if isinstance(y, ast.arg):
                                y.arg = "_"
                        parts.append(op + ":" + ast.dump(v2))
            return "|".join(sorted(parts))

        keyed = sorted(out, key=lambda n: (lean_ty(env.v[n].ty), shape(n)))
        if len({(lean_ty(env.v[n].ty), shape(n)) for n in out}) != len(out):
            return out  # indistinguishable updates: keep the order of first assignment
        return keyed

    def live(self, name: str, body: list[ast.stmt]) -> bool:
        """Is the value `name` has at the end of an iteration read later: on some path of the NEXT iteration before it is
        overwritten, or anywhere in the method outside this loop body?"""
        def loads(x: ast.AST) -> bool:
            return any(isinstance(y, ast.Name) and y.id == name and isinstance(y.ctx, ast.Load) for y in ast.walk(x))

        def rbw(stmts: list[ast.stmt]) -> tuple[bool, bool]:
            """(may be read before written, is written on every path) along the statement list"""
            for st in stmts:
                if isinstance(st, ast.If):
                    if loads(st.test):
                        return True, False
                    r1, w1 = rbw(st.body)
                    r2, w2 = rbw(st.orelse)
                    if r1 or r2:
                        return True, False
                    if w1 and w2:
                        return False, True
                    continue
                if isinstance(st, (ast.For, ast.While)):
                    if loads(st.test if isinstance(st, ast.While) else st.iter) or rbw(st.body)[0]:
                        return True, False
                    continue
                if isinstance(st, ast.AugAssign):
                    if loads(st.value) or name in _assigned([st]):
                        return True, False
                    continue
                if isinstance(st, ast.Assign):
                    if loads(st.value) or any(loads(t) for t in st.targets if not isinstance(t, ast.Name)):
                        return True, False
                    if any((isinstance(t, ast.Name) and t.id == name) or (isinstance(t, ast.Tuple) and any(
                            isinstance(e, ast.Name) and e.id == name for e in t.elts)) for t in st.targets):
                        return False, True
                    if name in _assigned([st]):  # a store into the object (`name[k] = …`, `name.a = …`): the object is read
                        return True, False
                    continue
                if loads(st) or name in _assigned([st]):
                    return True, False
            return False, False

        if rbw(body)[0]:
            return True
        inside = {id(x) for st in body for x in ast.walk(st)}
        return any(isinstance(x, ast.Name) and x.id == name and isinstance(x.ctx, ast.Load) and id(x) not in inside
                   for x in ast.walk(self.cur_fn))

    def params_of(self, names: list[str], env: Env) -> tuple[str, str]:
        """(binder list, argument list) for the outer variables a loop body reads"""
        binders, args = [], []
        for n in names:
            if n in ("exponent", "fsOrder"):
                continue
            v = env.v[n]
            binders.append(f"({v.text} : {lean_ty(v.ty)})" + (f" [Decidable {v.text}]" if v.ty == BOOL else ""))
            args.append(v.text)
        return " ".join(binders), " ".join(args)

    def consts_used(self, body_text: str) -> tuple[str, str]:
        b, a = [], []
        if "exponent" in body_text.split() or "exponent)" in body_text or " exponent" in body_text:
            b.append("(exponent : Nat)")
            a.append("exponent")
        if "fsOrder" in body_text:
            b.append("(fsOrder : List Int → List Int)")
            a.append("fsOrder")
        import re
        for f in sorted(set(re.findall(r"\bfuel\d+\b", body_text))):
            b.append(f"({f} : Nat)")
            a.append(f)
        return " ".join(b), " ".join(a)

    def for_loop(self, s: ast.For, env: Env, go, ind: str) -> str:
        if s.orelse:
            raise Unsupported("for-else")
        if any(isinstance(n, ast.Return) for st in s.body for n in ast.walk(st)):
            raise Unsupported("return inside a for loop")
        it = s.iter
        base = it.func.value if (isinstance(it, ast.Call) and isinstance(it.func, ast.Attribute) and not it.args and not it.keywords
                                 and it.func.attr in ("items", "keys", "values")) else it
        if isinstance(base, ast.Attribute) and isinstance(base.value, ast.Name) and env.has(base.value.id) \
                and env.v[base.value.id].ty[0] == "rec" and env.v[base.value.id].alias is None \
                and self.field_ty(env.v[base.value.id].ty[1], base.attr)[0] == "dict":
            # `for … in r.f…:` with `r` a record local: the dict is taken out, looped over and put back
            import copy
            rname, attr = base.value.id, base.attr
            tmp = f"{rname}_{attr}"
            if env.has(tmp):
                raise Unsupported(f"name clash on {tmp}")
            fty = self.field_ty(env.v[rname].ty[1], attr)

            class Sub(ast.NodeTransformer):
                def visit_Attribute(self, node):  # noqa: N802
                    if isinstance(node.value, ast.Name) and node.value.id == rname and node.attr == attr:
                        return ast.Name(id=tmp, ctx=node.ctx)
                    return self.generic_visit(node)

            s2 = ast.fix_missing_locations(Sub().visit(copy.deepcopy(s)))
            if rname in _assigned(s2.body):
                raise Unsupported(f"`{rname}` is changed while its field `{attr}` is iterated")
            rv = env.get(rname)
            env2 = env.set(tmp, Var(tmp, fty))
            back = ast.Attribute(value=ast.Name(id=rname, ctx=ast.Load()), attr=attr, ctx=ast.Store())
            return (f"{ind}let {tmp} : {lean_ty(fty)} := {rv.text}.{attr}\n"
                    + self.for_loop(s2, env2, lambda e, i2=None: self.assign(back, ast.Name(id=tmp, ctx=ast.Load()), e, go,
                                                                              ind if i2 is None else i2), ind))
        if isinstance(base, ast.Name) and env.has(base.id) and env.v[base.id].ty[0] == "dict" and isinstance(s.target, ast.Name) \
                and (base is it or it.func.attr == "keys") and base.id in _assigned(s.body):  # type: ignore[union-attr]
            # `for k in d:` / `for k in d.keys():` whose body stores into `d`
            vn = f"{s.target.id}_val"
            if env.has(vn):
                raise Unsupported(f"name clash on {vn}")
            s = ast.For(target=ast.Tuple(elts=[s.target, ast.Name(id=vn, ctx=ast.Store())], ctx=ast.Store()),
                        iter=ast.Call(func=ast.Attribute(value=base, attr="items", ctx=ast.Load()), args=[], keywords=[]),
                        body=s.body, orelse=[])
            it = s.iter
        name = self.fresh("for")
        items_of = None
        if isinstance(it, ast.Call) and isinstance(it.func, ast.Attribute) and it.func.attr in ("items", "values") and not it.args \
                and isinstance(it.func.value, ast.Name) and env.has(it.func.value.id) and env.v[it.func.value.id].ty[0] == "dict":
            items_of = it.func.value.id
        if items_of is not None and it.func.attr == "values" and isinstance(s.target, ast.Name):  # type: ignore[union-attr]
            s = ast.For(target=ast.Tuple(elts=[ast.Name(id="_key", ctx=ast.Store()), s.target], ctx=ast.Store()),
                        iter=s.iter, body=s.body, orelse=[])
        if items_of is not None and isinstance(s.target, ast.Tuple) and len(s.target.elts) == 2 \
                and all(isinstance(e, ast.Name) for e in s.target.elts):
            kname, vname = (e.id for e in s.target.elts)  # type: ignore[attr-defined]
            dvar = env.get(items_of)
            mutates = items_of in _assigned(s.body) or vname in _assigned(s.body)
            if mutates:
                return self.items_loop(s, name, items_of, kname, vname, env, go, ind)
            ity = TUP(dvar.ty[1], dvar.ty[2])
            it_text = dvar.text
        else:
            it_text, lty = self.ex(it, env)
            if lty[0] == "dict":
                lty = LIST(TUP(lty[1], lty[2]))
            if lty[0] != "list":
                raise Unsupported(f"iteration over {lty}")
            ity = lty[1]
        state = self.loop_state(s.body, env)
        log: list[str] = []
        inner = Env(env.v, log)
        x = "x"
        inner, lets = self.bind_named(s.target, x, ity, inner)
        fin = K(fall=lambda e: self.tuple_text(state, e), cont=lambda e: self.tuple_text(state, e))
        body = lets + self.comp(_no_doc(s.body), inner, fin, "  ")
        caps = [n for n in log if n not in state and env.has(n)]
        for n in caps:
            env.get(n)  # an enclosing loop body reads them too
        pb, pa = self.params_of(caps, env)
        cb, ca = self.consts_used(body)
        sty = self.tuple_ty(state, env) if state else "Unit"
        pre = self.unpack(state, "s", env, "  ") if state else ""
        self.defs.append(f"def {name} {cb} {pb} (s : {sty}) ({x} : {lean_ty(ity)}) : {sty} :=\n{pre}{body}\n")
        if not state:
            return go(env)
        r = self.fresh("r")
        init = self.tuple_text(state, env)
        out = f"{ind}let {r} : {sty} := List.foldl ({' '.join(x for x in [name, ca, pa] if x)}) {init} {it_text}\n"
        return out + self.unpack(state, r, env, ind) + go(env)

    def items_loop(self, s: ast.For, name: str, dname: str, kname: str, vname: str, env: Env, go, ind: str) -> str:
        dvar = env.get(dname)
        if kname in _assigned(s.body):
            raise Unsupported(f"the key variable `{kname}` of an items-loop is rebound")
        state = [n for n in self.loop_state(s.body, env) if n != dname]
        log: list[str] = []
        inner = Env(env.v, log)
        is_obj = dvar.ty[2][0] == "rec"  # a mutable object: the loop variable IS the stored object
        cell = vname if is_obj else f"{vname}_stored"
        inner = inner.set(kname, Var(kname, dvar.ty[1]))
        inner = inner.set(vname, Var(vname, dvar.ty[2]))
        if not is_obj:
            inner = inner.set(cell, Var(cell, dvar.ty[2]))
        marked = Var(dvar.text, dvar.ty)
        marked.item_of = (kname, cell)  # type: ignore[assignment]
        inner = inner.set(dname, marked)
        state = [n for n in state if n != vname]
        lets = f"  let {kname} : {lean_ty(dvar.ty[1])} := k\n  let {vname} : {lean_ty(dvar.ty[2])} := v\n"
        if not is_obj:
            lets += f"  let {cell} : {lean_ty(dvar.ty[2])} := v\n"

        def fin(e: Env) -> str:
            st = self.tuple_text(state, e) if state else "()"
            return f"({st}, {e.v[cell].text})"

        body = lets + self.comp(_no_doc(s.body), inner, K(fall=fin, cont=fin), "  ")
        caps = [n for n in log if n not in state and n != dname and env.has(n)]
        for n in caps:
            env.get(n)
        pb, pa = self.params_of(caps, env)
        cb, ca = self.consts_used(body)
        sty = self.tuple_ty(state, env) if state else "Unit"
        pre = self.unpack(state, "s", env, "  ") if state else ""
        self.defs.append(f"def {name} {cb} {pb} (s : {sty}) (k : {lean_ty(dvar.ty[1])}) (v : {lean_ty(dvar.ty[2])}) : "
                         f"{sty} × {lean_ty(dvar.ty[2])} :=\n{pre}{body}\n")
        r = self.fresh("r")
        init = self.tuple_text(state, env) if state else "()"
        out = f"{ind}let {r} := mapAccumItems ({' '.join(x for x in [name, ca, pa] if x)}) {init} {dvar.text}\n"
        if state:
            out += self.unpack(state, f"{r}.1", env, ind)
        out += f"{ind}let {dvar.text} := {r}.2\n"
        return out + go(env)

    def while_loop(self, s: ast.While, env: Env, go, ind: str) -> str:
        if s.orelse:
            raise Unsupported("while-else")
        if any(isinstance(n, ast.Return) for st in s.body for n in ast.walk(st)):
            raise Unsupported("return inside a while loop")
        name = self.fresh("while")
        state = self.loop_state(s.body, env)
        if not state:
            raise Unsupported("while loop without loop-carried variables")
        log: list[str] = []
        inner = Env(env.v, log)
        cond = self.prop(s.test, inner)
        again = K(fall=lambda e: f"{name}_REC n {self.tuple_text(state, e)}", cont=lambda e: f"{name}_REC n {self.tuple_text(state, e)}",
                  brk=lambda e: self.tuple_text(state, e))
        body = self.comp(_no_doc(s.body), inner, again, "      ")
        caps = [n for n in log if n not in state and env.has(n)]
        for n in caps:
            env.get(n)
        pb, pa = self.params_of(caps, env)
        cb, ca = self.consts_used(body + cond)
        sty = self.tuple_ty(state, env)
        pre = self.unpack(state, "s", env, "    ")
        head = " ".join(x for x in [name, ca, pa] if x)
        body = body.replace(f"{name}_REC", head)
        self.defs.append(f"def {name} {cb} {pb} : Nat → {sty} → {sty}\n  | 0, s => s\n  | n + 1, s =>\n{pre}"
                         f"    if {cond} then\n{body}\n    else {self.tuple_text(state, env)}\n")
        self.fuel_needed.append(name)
        fuel = f"fuel{len(self.fuel_needed)}"
        r = self.fresh("r")
        out = f"{ind}let {r} : {sty} := {head} {fuel} {self.tuple_text(state, env)}\n"
        return out + self.unpack(state, r, env, ind) + go(env)

    # ---- methods
    def method(self, pyname: str, lean: str, ret_ty: tuple | None = None, owner: str | None = "BatteryDistributionAlgorithm") -> None:
        """Translate method `pyname` of class `owner` (`None`: a function of the module).  `__init__` is translated as the
        function from its arguments to the record of the attributes it sets."""
        import copy
        if owner == "BatteryDistributionAlgorithm":
            fn = D._norm_func(self.tree, pyname)
            src = D._func(self.tree, pyname)
        else:
            clsnode = None if owner is None else next(
                (c for c in self.tree.body if isinstance(c, ast.ClassDef) and c.name == owner), None)
            scope = self.tree.body if owner is None else (clsnode.body if clsnode is not None else [])
            src = next((f for f in scope if isinstance(f, ast.FunctionDef) and f.name == pyname), None)
            if src is None:
                raise Unsupported(f"{owner or 'module'}.{pyname} not found")
            fn = D._norm_fn(src, clsnode, self.tree)
        if pyname == "__init__":
            rec = FIXED_CLASSES[owner]  # type: ignore[index]

            class SelfFields(ast.NodeTransformer):
                def visit_Attribute(self, node):  # noqa: N802
                    if isinstance(node.value, ast.Name) and node.value.id == "self":
                        return ast.Name(id=f"self_{node.attr}", ctx=node.ctx)
                    return self.generic_visit(node)

            if any(isinstance(n, ast.Return) for n in ast.walk(fn)):
                raise Unsupported("return inside __init__")
            fn = SelfFields().visit(fn)
            if any(isinstance(n, ast.Name) and n.id == "self" for st in fn.body for n in ast.walk(st)):
                raise Unsupported("__init__ uses `self` other than for its attributes")
            fn.body.append(ast.Return(value=ast.Call(func=ast.Name(id=owner, ctx=ast.Load()), args=[], keywords=[
                ast.keyword(arg=f, value=ast.Name(id=f"self_{f}", ctx=ast.Load())) for f, _ in self.records[rec]])))
            ret_ty = REC(rec)
        fn.body = canon_block(_no_doc(fn.body))
        ast.fix_missing_locations(fn)
        self.cur, self.cur_fn = lean, fn
        self.cur_src = src
        self.cur_owner = owner
        self.fuel_needed: list[str] = []
        args = fn.args
        if args.vararg or args.kwarg or args.kwonlyargs or args.posonlyargs:
            raise Unsupported(f"{pyname}: signature")
        params = [(a.arg, ann_ty(a.annotation)) for a in (args.args[1:] if owner is not None else args.args)]
        defaults = dict(zip([a.arg for a in args.args][len(args.args) - len(args.defaults):], args.defaults))
        ret = ann_ty(fn.returns) if ret_ty is None else ret_ty
        env = Env({p: Var(p, t) for p, t in params})
        n_defs = len(self.defs)
        self.raises = any(isinstance(n, ast.Raise) for n in ast.walk(fn)) or any(
            isinstance(n, ast.Call) and self.is_opt_call(n) for n in ast.walk(fn))
        inner_ret = ret
        if self.raises:
            ret = OPT(ret)

        def ret_k(v: ast.expr | None, e: Env) -> str:
            if v is None:
                raise Unsupported("bare return")
            t, ty = self.ex(v, e, inner_ret)
            if self.raises and self.is_opt_call(v) and ty == OPT(inner_ret):
                return t  # `return self._m(…)` of a method that may raise
            if ty != inner_ret:
                raise Unsupported(f"{pyname} returns {ty}, declared {inner_ret}")
            return f"some {t}" if self.raises else t

        body = self.comp(_no_doc(fn.body), env, K(ret=ret_k), "  ")
        cb, ca = self.consts_used(body + "".join(self.defs[n_defs:]))
        binders = " ".join(f"({p} : {lean_ty(t)})" + (f" [Decidable {p}]" if t == BOOL else "") for p, t in params)
        self.defs.append(f"/-- `{owner + '.' if owner else ''}{pyname}` -/\ndef {lean} {cb} {binders} : {lean_ty(ret)} :=\n{body}\n")
        consts = [x for x in ca.split() if x]
        self.sigs[pyname] = {"lean": lean, "params": params, "ret": ret, "consts": consts, "defaults": defaults,
                             "fuel": len(self.fuel_needed), "is_method": owner is not None}


def copy_load(t: ast.expr) -> ast.expr:
    import copy

    x = copy.deepcopy(t)
    for n in ast.walk(x):
        if hasattr(n, "ctx"):
            n.ctx = ast.Load()
    return x


def generate(repo: pathlib.Path) -> str:
    tree = ast.parse((repo / ALGO).read_text())
    cls = next((n for n in tree.body if isinstance(n, ast.ClassDef) and n.name == "BatteryDistributionAlgorithm"), None)
    if cls is None:
        raise Unsupported("class BatteryDistributionAlgorithm not found")
    c = Compiler(tree, cls)
    c.method("_aggregate_battery_power_bounds", "aggregateBatteryPowerBounds", owner=None)
    c.method("__init__", "aggregatedBatteryData", owner="AggregatedBatteryData")
    c.method("_distribute_multi_inverter_pairs", "distributeMultiInverterPairs")
    c.method("_greedy_distribute_remaining_power", "greedyDistributeRemainingPower")
    c.method("_total_capacity", "totalCapacity")
    c.method("_compute_battery_availability_ratio", "computeBatteryAvailabilityRatio")
    c.method("_distribute_power", "distributePower")
    c.method("_inclusion_exclusion_bounds", "inclusionExclusionBounds")
    c.method("_distribute_consume_power", "distributeConsumePower")
    c.method("_distribute_supply_power", "distributeSupplyPower")
    c.method("distribute_power", "distributePowerTop")
    return PRELUDE + "\n" + c.struct_defs() + "\n" + "\n".join(c.defs) + "\nend Extracted.DistLoops\n"
