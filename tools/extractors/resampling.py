"""`timeseries/_resampling.py` -> Lean definitions used by the resampler models (C07, C08).

Pure `ast`.  The pure parts of the anchored functions are *symbolically executed*: every local is replaced by what it
was computed from (so names, aliases like `conf = self._config`, hoisted locals and the order of independent
statements do not matter), `if`/`else`, early returns, guard clauses, conditional expressions and `not` all become
`if … then … else` terms, `x is None` tests on Optional values become `match`.  What comes out is the VALUE the code
computes at a given point, as a Lean term over the inputs:

* `Resampler._calculate_window_end`            -> `calculateWindowEnd now period align_to`  (the returned pair)
* `Resampler.__init__`                         -> `firstTickTime loopNow period startDelay` (value stored in `_timer._next_tick_time`)
* `Resampler.resample`                         -> `advanceWindowEnd`, `gatherOverSnapshot`, `advanceOnError`
* `_ResamplingHelper._update_source_sample_period` -> `skipPeriodUpdate …` (path condition of `return False`), `minInputPeriodEstimate`
* `_ResamplingHelper._update_buffer_len`       -> `newBufferLenOf …` (the `maxlen` the deque is rebuilt with, clamps included)
* `_ResamplingHelper.resample`                 -> `relevanceLowKey`, `relevanceHighKey` (the keys of the bisections that bound the slice)
* `_StreamingHelper._receive_samples`          -> `acceptsSample isNone isNaN isInf` (path condition of `add_sample`)
* module constants and `ResamplerConfig` defaults.

`datetime`/`timedelta` are `Int` microseconds, `x.total_seconds()` the exact rational `x / 1_000_000`, `timedelta * float`
is `tdMulFloat` (exact product, half-even to 1 µs).  Anything outside the understood subset raises (the check then
treats the proofs as broken and searches for a failing input).
"""
from __future__ import annotations

import ast
import pathlib
import re
from fractions import Fraction

NAME = "Resampling"
SOURCES = ["src/frequenz/sdk/timeseries/_resampling.py"]


class Unsupported(Exception):
    pass


PRELUDE = """\
/-- Round a rational to the nearest integer, ties to even (CPython `_divide_and_round`). -/
def roundHalfEven (q : Rat) : Int :=
  let f := q.floor
  let r := q - (f : Rat)
  if r < 1 / 2 then f else if 1 / 2 < r then f + 1 else if f % 2 = 0 then f else f + 1

/-- `timedelta * float`: exact product of the microseconds with the float's exact ratio, rounded half-to-even. -/
def tdMulFloat (td : Int) (f : Rat) : Int := roundHalfEven ((td : Rat) * f)

/-- `timedelta.total_seconds()` as an exact rational. -/
def totalSeconds (td : Int) : Rat := (td : Rat) / 1000000

"""


# ------------------------------------------------------------------------------------------------ typed expressions
# Types: "Int" (time, µs), "Nat", "Rat", "OptInt", "Bool".
def find_class(tree: ast.Module, name: str) -> ast.ClassDef:
    for n in tree.body:
        if isinstance(n, ast.ClassDef) and n.name == name:
            return n
    raise Unsupported(f"class {name} not found")


def find_method(cls: ast.ClassDef, name: str) -> ast.FunctionDef | ast.AsyncFunctionDef:
    for n in cls.body:
        if isinstance(n, (ast.FunctionDef, ast.AsyncFunctionDef)) and n.name == name:
            return n
    raise Unsupported(f"method {cls.name}.{name} not found")


def strip_doc(body: list[ast.stmt]) -> list[ast.stmt]:
    if body and isinstance(body[0], ast.Expr) and isinstance(body[0].value, ast.Constant) and isinstance(body[0].value.value, str):
        return body[1:]
    return body


def is_logging(s: ast.stmt) -> bool:
    return isinstance(s, ast.Expr) and isinstance(s.value, ast.Call) and ast.unparse(s.value.func).startswith("_logger.")


# ------------------------------------------------------------------------------------------------ pieces
def constants(tree: ast.Module) -> str:
    want = {"DEFAULT_BUFFER_LEN_INIT": "defaultBufferLenInit", "DEFAULT_BUFFER_LEN_MAX": "defaultBufferLenMax",
            "DEFAULT_BUFFER_LEN_WARN": "defaultBufferLenWarn"}
    out = []
    for n in tree.body:
        if isinstance(n, ast.Assign) and len(n.targets) == 1 and isinstance(n.targets[0], ast.Name) \
                and n.targets[0].id in want:
            if not (isinstance(n.value, ast.Constant) and isinstance(n.value.value, int) and n.value.value >= 0):
                raise Unsupported(f"{n.targets[0].id} is not a natural literal")
            out.append(f"def {want.pop(n.targets[0].id)} : Nat := {n.value.value}")
    if want:
        raise Unsupported(f"constants not found: {sorted(want)}")
    cfg = find_class(tree, "ResamplerConfig")
    defaults: dict[str, ast.expr] = {}
    for n in cfg.body:
        if isinstance(n, ast.AnnAssign) and isinstance(n.target, ast.Name) and n.value is not None:
            defaults[n.target.id] = n.value
    v = defaults.get("max_data_age_in_periods")
    if not (isinstance(v, ast.Constant) and isinstance(v.value, (int, float))):
        raise Unsupported("default of max_data_age_in_periods")
    fr = Fraction(v.value)
    out.append(f"def defaultMaxDataAgeInPeriods : Rat := ({fr.numerator} : Rat) / {fr.denominator}")
    for py, lean in (("initial_buffer_len", "defaultInitialBufferLen"), ("warn_buffer_len", "defaultWarnBufferLen"),
                     ("max_buffer_len", "defaultMaxBufferLen")):
        v = defaults.get(py)
        if v is None:
            raise Unsupported(f"default of {py}")
        src = ast.unparse(v)
        m = {"DEFAULT_BUFFER_LEN_INIT": "defaultBufferLenInit", "DEFAULT_BUFFER_LEN_MAX": "defaultBufferLenMax",
             "DEFAULT_BUFFER_LEN_WARN": "defaultBufferLenWarn"}
        if src in m:
            out.append(f"def {lean} : Nat := {m[src]}")
        elif isinstance(v, ast.Constant) and isinstance(v.value, int):
            out.append(f"def {lean} : Nat := {v.value}")
        else:
            raise Unsupported(f"default of {py}: {src}")
    v = defaults.get("align_to")
    if v is None:
        raise Unsupported("default of align_to")
    src = ast.unparse(v)
    if src == "UNIX_EPOCH":
        out.append("/-- default `align_to` (UNIX_EPOCH = 0 µs). -/\ndef defaultAlignTo : Option Int := some 0")
    elif src == "None":
        out.append("def defaultAlignTo : Option Int := none")
    else:
        raise Unsupported(f"default of align_to: {src}")
    # ResamplerConfig.__post_init__: the lower bound of max_data_age_in_periods
    post = find_method(cfg, "__post_init__")
    bound = None
    for s in ast.walk(post):
        if isinstance(s, ast.If) and isinstance(s.test, ast.Compare) and \
                ast.unparse(s.test.left) == "self.max_data_age_in_periods" and len(s.test.ops) == 1 \
                and isinstance(s.test.ops[0], ast.Lt) and isinstance(s.test.comparators[0], ast.Constant) \
                and any(isinstance(b, ast.Raise) for b in s.body):
            bound = Fraction(s.test.comparators[0].value)
    if bound is None:
        raise Unsupported("max_data_age_in_periods lower-bound check not found")
    out.append(f"/-- `ResamplerConfig` rejects `max_data_age_in_periods` below this. -/\n"
               f"def minMaxDataAgeInPeriods : Rat := ({bound.numerator} : Rat) / {bound.denominator}")
    return "\n".join(out)


def bisect_import(tree: ast.Module) -> None:
    for n in tree.body:
        if isinstance(n, ast.ImportFrom) and n.module == "bisect":
            for a in n.names:
                if (a.asname or a.name) == "bisect" and a.name not in ("bisect", "bisect_right"):
                    raise Unsupported(f"`bisect` is bisect.{a.name}, not bisect_right")
            return
    raise Unsupported("`from bisect import bisect` not found")




# ------------------------------------------------------------------------------------------------ symbolic values
class Num:
    """A Lean term of type Int / Nat / Rat / Bool / OptInt."""

    def __init__(self, term: str, ty: str):
        self.term, self.ty = term, ty

    def __repr__(self) -> str:
        return f"Num({self.term}:{self.ty})"


class Obj:
    """A symbolic object identified by an access path (`self._config`, …)."""

    def __init__(self, path: str):
        self.path = path


class Tup:
    def __init__(self, items: list):
        self.items = items


class NoneV:
    pass


class Opaque:
    """Something the extraction does not need to understand (it must never reach an extracted term)."""

    def __init__(self, why: str):
        self.why = why


class Est:
    """The float estimate of the input period, with the lower clamp (µs) applied to it."""

    def __init__(self, floor: int):
        self.floor = floor


class Bisect:
    def __init__(self, key: "Num"):
        self.key = key


class Slice:
    def __init__(self, lo, hi):  # type: ignore[no-untyped-def]
        self.lo, self.hi = lo, hi


class Bottom:
    """The target statement is not reached on this path."""


def cast(t: str, ty: str, to: str) -> str:
    if ty == to:
        return t
    if to == "Rat" and ty == "Int":
        return f"(({t} : Int) : Rat)"
    if to == "Rat" and ty == "Nat":
        return f"((({t} : Nat) : Int) : Rat)"
    if to == "Int" and ty == "Nat":
        return f"(({t} : Nat) : Int)"
    raise Unsupported(f"cast {ty} -> {to}")


def unify(a: Num, b: Num) -> tuple[str, str, str]:
    order = ["Nat", "Int", "Rat"]
    if "Unk" in (a.ty, b.ty):
        raise Unsupported(f"a value computed from an un-narrowed Optional is used: {a.term} / {b.term}")
    if a.ty == b.ty:
        return a.term, b.term, a.ty
    if a.ty in order and b.ty in order:
        ty = order[max(order.index(a.ty), order.index(b.ty))]
        return cast(a.term, a.ty, ty), cast(b.term, b.ty, ty), ty
    raise Unsupported(f"cannot unify {a.ty} and {b.ty}")


def ite(c: Num, a, b):  # type: ignore[no-untyped-def]
    """`if c then a else b` over symbolic values (paths that do not reach the target are dropped)."""
    if isinstance(a, Bottom):
        return b
    if isinstance(b, Bottom):
        return a
    if isinstance(a, Tup) and isinstance(b, Tup) and len(a.items) == len(b.items):
        return Tup([ite(c, x, y) for x, y in zip(a.items, b.items)])
    if isinstance(a, Num) and isinstance(b, Num):
        if a.term == b.term and a.ty == b.ty:
            return a
        if a.ty == "Bool" and b.ty == "Bool":
            return Num(f"(if {c.term} then {a.term} else {b.term})", "Bool")
        x, y, ty = unify(a, b)
        return Num(f"(if {c.term} then {x} else {y})", ty)
    if isinstance(a, Est) and isinstance(b, Est) and a.floor == b.floor:
        return a
    if isinstance(a, Obj) and isinstance(b, Obj) and a.path == b.path:
        return a
    if isinstance(a, NoneV) and isinstance(b, NoneV):
        return a
    if isinstance(a, Bisect) and isinstance(b, Bisect):
        return Bisect(ite(c, a.key, b.key))
    return Opaque("values that differ between branches")


class Sym:
    """Symbolic execution of straight-line / branching code."""

    def __init__(self, leaves: dict[str, Num], params: dict[str, object], calls: dict[str, object] | None = None):
        self.leaves = leaves  # access path -> term
        self.calls = calls or {}  # source text of a call -> value
        self.params = params

    # ------------------------------------------------------------------ expressions
    def ev(self, n: ast.expr, env: dict):  # type: ignore[no-untyped-def]
        src = ast.unparse(n)
        if src in self.calls:
            return self.calls[src]
        if isinstance(n, ast.Name):
            if n.id in env:
                return env[n.id]
            if n.id == "self":
                return Obj("self")
            return Opaque(f"name {n.id}")
        if isinstance(n, ast.Constant):
            if n.value is None:
                return NoneV()
            if isinstance(n.value, bool):
                return Num("true" if n.value else "false", "Bool")
            if isinstance(n.value, int):
                return Num(f"({n.value} : Int)", "Int")
            if isinstance(n.value, float):
                fr = Fraction(n.value)
                return Num(f"(({fr.numerator} : Rat) / {fr.denominator})", "Rat")
            return Opaque("constant")
        if isinstance(n, ast.Tuple):
            return Tup([self.ev(e, env) for e in n.elts])
        if isinstance(n, ast.Attribute):
            if src == "timedelta.resolution":
                return Num("(1 : Int)", "Int")
            base = self.ev(n.value, env)
            if isinstance(base, Obj):
                path = f"{base.path}.{n.attr}"
                if path in env:
                    return env[path]
                if path in self.leaves:
                    return self.leaves[path]
                return Obj(path)
            return Opaque(f"attribute {src}")
        if isinstance(n, ast.UnaryOp) and isinstance(n.op, ast.Not):
            return Num(f"(!{self.cond(n.operand, env).term})", "Bool")
        if isinstance(n, ast.UnaryOp) and isinstance(n.op, ast.USub):
            v = self.ev(n.operand, env)
            if isinstance(v, Num) and v.ty in ("Int", "Rat"):
                return Num(f"(-{v.term})", v.ty)
            return Opaque(src)
        if isinstance(n, (ast.BoolOp, ast.Compare)):
            return self.cond(n, env)
        if isinstance(n, ast.IfExp):
            return self.branch(n.test, env, lambda e: self.ev(n.body, e), lambda e: self.ev(n.orelse, e))
        if isinstance(n, ast.BinOp):
            a, b = self.ev(n.left, env), self.ev(n.right, env)
            if isinstance(a, Num) and isinstance(b, Num) and (a.ty in ("OptInt", "Unk") or b.ty in ("OptInt", "Unk")):
                # an Optional the code has narrowed by a guard we do not track: usable for shape recognition only
                return Num(f"({a.term} ? {b.term})", "Unk")
            if not (isinstance(a, Num) and isinstance(b, Num)) or "Bool" in (a.ty, b.ty):
                return Opaque(src)
            if isinstance(n.op, ast.Mult):
                if a.ty == "Int" and b.ty == "Rat":
                    return Num(f"(tdMulFloat {a.term} {b.term})", "Int")
                if a.ty == "Rat" and b.ty == "Int":
                    return Num(f"(tdMulFloat {b.term} {a.term})", "Int")
                x, y, ty = unify(a, b)
                return Num(f"({x} * {y})", ty)
            if isinstance(n.op, (ast.Add, ast.Sub)):
                x, y, ty = unify(a, b)
                return Num(f"({x} {'+' if isinstance(n.op, ast.Add) else '-'} {y})", ty)
            if isinstance(n.op, ast.Div):
                return Num(f"({cast(a.term, a.ty, 'Rat')} / {cast(b.term, b.ty, 'Rat')})", "Rat")
            if isinstance(n.op, ast.Mod) and a.ty == b.ty == "Int":
                return Num(f"({a.term} % {b.term})", "Int")  # timedelta % timedelta: floor mod = Int.emod (divisor > 0)
            return Opaque(src)
        if isinstance(n, ast.Call):
            return self.call(n, env)
        if isinstance(n, ast.Starred):
            return Opaque(src)
        return Opaque(src)

    def call(self, n: ast.Call, env: dict):  # type: ignore[no-untyped-def]
        src = ast.unparse(n)
        if src in self.leaves:
            return self.leaves[src]
        f = ast.unparse(n.func)
        kw = {k.arg: k.value for k in n.keywords}
        if f == "datetime.now":
            a = [ast.unparse(x) for x in n.args] + [f"{k.arg}={ast.unparse(k.value)}" for k in n.keywords]
            if a not in (["timezone.utc"], ["tz=timezone.utc"]):
                return Opaque("datetime.now() not in UTC")
            return self.leaves.get("<now>", Opaque("datetime.now()"))
        if f == "asyncio.get_running_loop().time" or f.endswith(".time") and "loop" in f:
            return self.leaves.get("<loop-time>", Opaque("loop time"))
        if f == "timedelta":
            if not n.keywords and len(n.args) == 1 and ast.unparse(n.args[0]) == "0":
                return Num("(0 : Int)", "Int")
            if not n.args and list(kw) == ["microseconds"] and ast.unparse(kw["microseconds"]) == "1":
                return Num("(1 : Int)", "Int")
            if not n.args and list(kw) == ["seconds"]:
                v = self.ev(kw["seconds"], env)
                if isinstance(v, Num) and v.ty == "Int":
                    return v  # a loop time, already integer µs
                if isinstance(v, Num) and v.ty in ("Unk", "Rat") and re.fullmatch(
                        r"\(\(totalSeconds \(now [?-] samplingStart(_v)?\)\) [?/] (received|\(\(\(received : Nat\) : Int\) : Rat\))\)",
                        v.term):
                    return Est(0)  # timedelta(seconds=(now - sampling_start).total_seconds() / received_samples)
                return Opaque("float seconds")
            return Opaque(src)
        if f == "_to_microseconds" and len(n.args) == 1:
            return self.ev(n.args[0], env)
        if isinstance(n.func, ast.Attribute) and n.func.attr == "total_seconds" and not n.args:
            v = self.ev(n.func.value, env)
            if isinstance(v, Num) and v.ty == "Int":
                return Num(f"(totalSeconds {v.term})", "Rat")
            if isinstance(v, Num) and v.ty == "Unk":
                return Num(f"(totalSeconds {v.term})", "Unk")
            return Opaque(src)
        if f in ("max", "min") and len(n.args) == 2 and not n.keywords:
            a, b = self.ev(n.args[0], env), self.ev(n.args[1], env)
            if isinstance(a, Est) or isinstance(b, Est):
                e, o = (a, b) if isinstance(a, Est) else (b, a)
                if f == "max" and isinstance(o, Num) and o.term == "(1 : Int)":
                    return Est(max(e.floor, 1))
                raise Unsupported(f"shape of the input-period estimate: {src[:80]}")
            if isinstance(a, Num) and isinstance(b, Num) and a.ty != "OptInt" and b.ty != "OptInt":
                x, y, ty = unify(a, b)
                op = ">" if f == "max" else "<"
                return Num(f"(if {y} {op} {x} then {y} else {x})", ty)  # Python: the first wins on ties
            if any(isinstance(v, Num) and v.ty == "OptInt" for v in (a, b)):
                raise Unsupported(f"{f}() of an Optional that is not narrowed: {src}")
            return Opaque(src)
        if f == "math.ceil" and len(n.args) == 1:
            v = self.ev(n.args[0], env)
            if isinstance(v, Num) and v.ty in ("Rat", "Int", "Nat"):
                return Num(f"(Rat.ceil {cast(v.term, v.ty, 'Rat')})", "Int")
            return Opaque(src)
        if f == "len" and len(n.args) == 1:
            v = self.ev(n.args[0], env)
            if isinstance(v, Obj) and f"len({v.path})" in self.leaves:
                return self.leaves[f"len({v.path})"]
            return Opaque(src)
        if f in ("bisect", "bisect_right", "bisect.bisect", "bisect.bisect_right"):
            buf = self.ev(n.args[0], env) if n.args else None
            key = kw.get("key")
            if not (len(n.args) == 2 and isinstance(buf, Obj) and buf.path == "self._buffer" and set(kw) == {"key"}
                    and isinstance(key, ast.Lambda) and len(key.args.args) == 1 and isinstance(key.body, ast.Attribute)
                    and isinstance(key.body.value, ast.Name) and key.body.value.id == key.args.args[0].arg
                    and key.body.attr == "timestamp"):
                raise Unsupported(f"not bisect(self._buffer, <key>, key=lambda s: s.timestamp): {src[:80]}")
            k = self.ev(n.args[1], env)
            if not (isinstance(k, Num) and k.ty == "Int"):
                raise Unsupported(f"bisect key is not a time: {src[:80]}")
            return Bisect(k)
        if f in ("bisect_left", "bisect.bisect_left"):
            raise Unsupported("bisect_left")
        if f in ("itertools.islice", "islice") and len(n.args) == 3:
            buf = self.ev(n.args[0], env)
            if isinstance(buf, Obj) and buf.path == "self._buffer":
                return Slice(self.ev(n.args[1], env), self.ev(n.args[2], env))
            return Opaque(src)
        if f in ("list", "tuple") and len(n.args) == 1 and not n.keywords:
            v = self.ev(n.args[0], env)
            return v if isinstance(v, Slice) else Opaque(src)
        if f == "cast" and len(n.args) == 2:
            return self.ev(n.args[1], env)
        if f in ("math.isnan", "math.isinf", "math.isfinite") and len(n.args) == 1:
            v = self.ev(n.args[0], env)
            if isinstance(v, Obj) and f"{f}({v.path})" in self.leaves:
                return self.leaves[f"{f}({v.path})"]
            return Opaque(src)
        if isinstance(n.func, ast.Attribute) and not n.args and not n.keywords:
            v = self.ev(n.func.value, env)
            if isinstance(v, Obj) and f"{v.path}.{n.func.attr}()" in self.leaves:
                return self.leaves[f"{v.path}.{n.func.attr}()"]
        return Opaque(src)

    # ------------------------------------------------------------------ conditions
    def none_test(self, n: ast.expr, env: dict):  # type: ignore[no-untyped-def]
        """(value, is_none_test) when `n` is `<x> is None` / `<x> is not None`."""
        if isinstance(n, ast.Compare) and len(n.ops) == 1 and isinstance(n.ops[0], (ast.Is, ast.IsNot)) \
                and isinstance(n.comparators[0], ast.Constant) and n.comparators[0].value is None:
            return self.ev(n.left, env), isinstance(n.ops[0], ast.Is)
        if isinstance(n, ast.UnaryOp) and isinstance(n.op, ast.Not):
            r = self.none_test(n.operand, env)
            if r is not None:
                return r[0], not r[1]
        return None

    def cond(self, n: ast.expr, env: dict) -> Num:
        src = ast.unparse(n)
        if isinstance(n, ast.BoolOp):
            j = " && " if isinstance(n.op, ast.And) else " || "
            return Num("(" + j.join(self.cond(v, env).term for v in n.values) + ")", "Bool")
        if isinstance(n, ast.UnaryOp) and isinstance(n.op, ast.Not):
            return Num(f"(!{self.cond(n.operand, env).term})", "Bool")
        nt = self.none_test(n, env)
        if nt is not None:
            v, is_none = nt
            if isinstance(v, Num) and v.ty == "OptInt":
                return Num(f"({v.term}.isNone)" if is_none else f"({v.term}.isSome)", "Bool")
            if isinstance(v, Num) and v.ty == "Bool" and v.term.startswith("<isNone:"):
                t = v.term[len("<isNone:"):-1]
                return Num(t if is_none else f"(!{t})", "Bool")
            if isinstance(v, NoneV):
                return Num("true" if is_none else "false", "Bool")
            if isinstance(v, Num):  # a narrowed Optional
                return Num("false" if is_none else "true", "Bool")
            raise Unsupported(f"None test on {src}")
        if isinstance(n, ast.Compare):
            ops = {ast.Lt: "<", ast.LtE: "≤", ast.Gt: ">", ast.GtE: "≥", ast.Eq: "=", ast.NotEq: "≠"}
            parts = []
            left = n.left
            for op, right in zip(n.ops, n.comparators):
                sym = next((v for k, v in ops.items() if isinstance(op, k)), None)
                a, b = self.ev(left, env), self.ev(right, env)
                if sym is None or not (isinstance(a, Num) and isinstance(b, Num)):
                    raise Unsupported(f"comparison {src}")
                if b.ty == "OptInt" and a.ty != "OptInt":  # guarded by a None test elsewhere in the same chain
                    parts.append(f"({b.term}.any fun opt_v => decide ({a.term} {sym} opt_v))")
                elif a.ty == "OptInt" and b.ty != "OptInt":
                    parts.append(f"({a.term}.any fun opt_v => decide (opt_v {sym} {b.term}))")
                else:
                    x, y, _ = unify(a, b)
                    parts.append(f"(decide ({x} {sym} {y}))")
                left = right
            return Num(parts[0] if len(parts) == 1 else "(" + " && ".join(parts) + ")", "Bool")
        v = self.ev(n, env)
        if isinstance(v, Num) and v.ty == "Bool":
            return v
        if isinstance(v, Num) and v.ty == "Int":  # truthiness of a timedelta
            return Num(f"(decide ({v.term} ≠ 0))", "Bool")
        if isinstance(v, Slice):
            return Num("<slice-nonempty>", "Bool")
        raise Unsupported(f"condition {src}")

    def branch(self, test: ast.expr, env: dict, then, orelse):  # type: ignore[no-untyped-def]
        """Evaluate both continuations of a test; a None test on an Optional leaf becomes a `match`."""
        nt = self.none_test(test, env)
        if nt is not None and isinstance(nt[0], Num) and nt[0].ty == "OptInt" and re.fullmatch(r"\w+", nt[0].term):
            v, is_none = nt
            some_env = {k: (Num(f"{v.term}_v", "Int") if isinstance(x, Num) and x.term == v.term and x.ty == "OptInt" else x)
                        for k, x in env.items()}
            saved = self.leaves
            self.leaves = {k: (Num(f"{v.term}_v", "Int") if x.term == v.term and x.ty == "OptInt" else x)
                           for k, x in saved.items()}
            try:
                some_val = (orelse if is_none else then)(some_env)
            finally:
                self.leaves = saved
            none_env = {k: (NoneV() if isinstance(x, Num) and x.term == v.term and x.ty == "OptInt" else x)
                        for k, x in env.items()}
            self.leaves = {k: x for k, x in saved.items()}
            none_leaf_keys = [k for k, x in saved.items() if x.term == v.term and x.ty == "OptInt"]
            for k in none_leaf_keys:
                none_env[k] = NoneV()
            try:
                none_val = (then if is_none else orelse)(none_env)
            finally:
                self.leaves = saved
            return self.match_opt(v.term, none_val, some_val)
        c = self.cond(test, env)
        return ite(c, then(dict(env)), orelse(dict(env)))

    @staticmethod
    def match_opt(opt: str, none_val, some_val):  # type: ignore[no-untyped-def]
        if isinstance(none_val, Bottom):
            return some_val if not (isinstance(some_val, Num) and f"{opt}_v" in some_val.term) else Opaque("narrowed")
        if isinstance(some_val, Bottom):
            return none_val
        if isinstance(none_val, Tup) and isinstance(some_val, Tup) and len(none_val.items) == len(some_val.items):
            return Tup([Sym.match_opt(opt, a, b) for a, b in zip(none_val.items, some_val.items)])
        if isinstance(none_val, Num) and isinstance(some_val, Num):
            if none_val.ty == "Bool" and some_val.ty == "Bool":
                ty, a, b = "Bool", none_val.term, some_val.term
            else:
                a, b, ty = unify(none_val, some_val)
            if a == b and f"{opt}_v" not in b:
                return Num(a, ty)
            return Num(f"(match {opt} with | none => {a} | some {opt}_v => {b})", ty)
        if isinstance(none_val, Bisect) and isinstance(some_val, Bisect):
            return Bisect(Sym.match_opt(opt, none_val.key, some_val.key))
        return Opaque("values that differ between None / not None")

    # ------------------------------------------------------------------ statements (continuation passing)
    def run(self, stmts: list[ast.stmt], env: dict, target):  # type: ignore[no-untyped-def]
        """The value `target(stmt, env)` yields at the first statement where it is not None, as a function of the
        inputs; `Bottom` on paths that return / fall off before."""
        if not stmts:
            return Bottom()
        s, rest = stmts[0], stmts[1:]
        hit = target(s, env)
        if hit is not None:
            return hit
        if isinstance(s, ast.Return):
            return Bottom()
        if isinstance(s, (ast.Assert, ast.Pass, ast.Import, ast.ImportFrom)):
            return self.run(rest, env, target)
        if isinstance(s, ast.Expr):
            return self.run(rest, env, target)
        if isinstance(s, ast.AnnAssign):
            if s.value is None:
                return self.run(rest, env, target)
            env = dict(env)
            self.assign(s.target, self.ev(s.value, env), env)
            return self.run(rest, env, target)
        if isinstance(s, ast.Assign):
            env = dict(env)
            v = self.ev(s.value, env)
            for t in s.targets:
                self.assign(t, v, env)
            return self.run(rest, env, target)
        if isinstance(s, ast.AugAssign):
            env = dict(env)
            cur = self.ev(s.target, env)
            rhs = self.ev(s.value, env)
            if isinstance(cur, Num) and isinstance(rhs, Num) and isinstance(s.op, (ast.Add, ast.Sub)) \
                    and "OptInt" not in (cur.ty, rhs.ty):
                x, y, ty = unify(cur, rhs)
                self.assign(s.target, Num(f"({x} {'+' if isinstance(s.op, ast.Add) else '-'} {y})", ty), env)
            else:
                self.assign(s.target, Opaque("augmented assignment"), env)
            return self.run(rest, env, target)
        if isinstance(s, ast.If):
            return self.branch(s.test, env, lambda e: self.run(s.body + rest, e, target),
                               lambda e: self.run(s.orelse + rest, e, target))
        if isinstance(s, ast.Try) and not s.finalbody:
            # the protected statements cannot raise in the understood subset: body, then `else`
            return self.run(s.body + s.orelse + rest, env, target)
        raise Unsupported(f"statement {type(s).__name__}: {ast.unparse(s)[:60]}")

    def assign(self, t: ast.expr, v, env: dict) -> None:  # type: ignore[no-untyped-def]
        if isinstance(t, ast.Name):
            env[t.id] = v
        elif isinstance(t, ast.Tuple):
            items = v.items if isinstance(v, Tup) and len(v.items) == len(t.elts) else [Opaque("unpacked")] * len(t.elts)
            for e, x in zip(t.elts, items):
                self.assign(e, x, env)
        elif isinstance(t, ast.Attribute):
            base = self.ev(t.value, env)
            if isinstance(base, Obj):
                env[f"{base.path}.{t.attr}"] = v
        # subscripts etc.: not tracked


def need_int(v, what: str) -> str:  # type: ignore[no-untyped-def]
    if isinstance(v, Num) and v.ty in ("Int", "Nat"):
        return cast(v.term, v.ty, "Int")
    raise Unsupported(f"{what}: not an integer/time value ({type(v).__name__} {getattr(v, 'why', getattr(v, 'term', ''))})")


# ------------------------------------------------------------------------------------------------ pieces
CONFIG_LEAVES = {
    "self._config.resampling_period": Num("resamplingPeriod", "Int"),
    "self._config.max_data_age_in_periods": Num("maxAge", "Rat"),
    "self._config.max_buffer_len": Num("maxBufferLen", "Nat"),
    "self._config.warn_buffer_len": Num("warnBufferLen", "Nat"),
}
HELPER_LEAVES = {
    **CONFIG_LEAVES,
    "self._source_properties.sampling_period": Num("samplingPeriod", "OptInt"),
    "self._source_properties.sampling_start": Num("samplingStart", "OptInt"),
    "self._source_properties.received_samples": Num("received", "Nat"),
    "len(self._buffer)": Num("bufLen", "Nat"),
    "self._buffer.maxlen": Num("maxlen", "Nat"),
}


def body_of(fn) -> list[ast.stmt]:  # type: ignore[no-untyped-def]
    return strip_doc(fn.body)


def calc_window_end(res: ast.ClassDef) -> str:
    fn = find_method(res, "_calculate_window_end")
    sym = Sym({"self._config.resampling_period": Num("period", "Int"), "self._config.align_to": Num("align_to", "OptInt"),
               "<now>": Num("now", "Int")}, {})

    def target(s: ast.stmt, env: dict):  # type: ignore[no-untyped-def]
        if isinstance(s, ast.Return):
            if s.value is None:
                raise Unsupported("bare return in _calculate_window_end")
            v = sym.ev(s.value, env)
            if not (isinstance(v, Tup) and len(v.items) == 2):
                raise Unsupported("_calculate_window_end does not return a pair")
            return Tup([Num(need_int(x, "window end / start delay"), "Int") for x in v.items])
        return None

    r = sym.run(body_of(fn), {}, target)
    if not isinstance(r, Tup):
        raise Unsupported("_calculate_window_end: no returned pair")
    return ("/-- `Resampler._calculate_window_end` with `datetime.now()` as the parameter `now`: "
            "(window end, timer start delay). -/\n"
            "def calculateWindowEnd (now period : Int) (align_to : Option Int) : Int × Int :=\n"
            f"  ({r.items[0].term},\n   {r.items[1].term})")


def timer_hack(res: ast.ClassDef) -> str:
    init = find_method(res, "__init__")
    if [a.arg for a in init.args.args] != ["self", "config"]:
        raise Unsupported("Resampler.__init__ signature")
    sym = Sym({"self._config.resampling_period": Num("period", "Int"), "<loop-time>": Num("loopNow", "Int")}, {},
              calls={"self._calculate_window_end()": Tup([Num("windowEnd0", "Int"), Num("startDelay", "Int")])})
    timer_ok = []

    def target(s: ast.stmt, env: dict):  # type: ignore[no-untyped-def]
        for n in ast.walk(s):
            if isinstance(n, ast.Call) and ast.unparse(n.func) == "Timer":
                a0 = sym.ev(n.args[0], env) if n.args else None
                timer_ok.append(len(n.args) == 2 and isinstance(a0, Num) and a0.term == "period"
                                and ast.unparse(n.args[1]) == "TriggerAllMissed()" and not n.keywords)
        if isinstance(s, ast.Assign) and any(ast.unparse(t) == "self._timer._next_tick_time" for t in s.targets):
            return Num(need_int(sym.ev(s.value, env), "first tick time"), "Int")
        if isinstance(s, (ast.Assign, ast.AnnAssign)) and ast.unparse(s.targets[0] if isinstance(s, ast.Assign) else s.target) == "self._window_end":
            v = sym.ev(s.value, env)
            if not (isinstance(v, Num) and v.term == "windowEnd0"):
                raise Unsupported("self._window_end is not initialised with the calculated window end")
        return None

    r = sym.run(body_of(init), {"config": Obj("self._config")}, target)
    if not isinstance(r, Num):
        raise Unsupported("assignment to self._timer._next_tick_time not found")
    if timer_ok != [True]:
        raise Unsupported("Timer(<resampling period>, TriggerAllMissed()) not found")
    return ("/-- The hand-aligned `Timer._next_tick_time` of `Resampler.__init__` (loop clock, µs). -/\n"
            f"def firstTickTime (loopNow period startDelay : Int) : Int :=\n  {r.term}")


def resample_loop(res: ast.ClassDef) -> str:
    fn = find_method(res, "resample")
    sym = Sym({"self._config.resampling_period": Num("period", "Int"), "self._window_end": Num("windowEnd", "Int")}, {})
    stmts = body_of(fn)
    li = next((i for i, s in enumerate(stmts) if isinstance(s, ast.AsyncFor)), None)
    if li is None or ast.unparse(stmts[li].iter) != "self._timer":  # type: ignore[attr-defined]
        raise Unsupported("`async for … in self._timer` not found in resample()")
    # locals defined before the loop (hoisted `period = …`)
    env: dict = {}
    for s in stmts[:li]:
        if isinstance(s, ast.Assign) and len(s.targets) == 1 and isinstance(s.targets[0], ast.Name):
            env[s.targets[0].id] = sym.ev(s.value, env)
    body = stmts[li].body  # type: ignore[attr-defined]
    gather_idx = None
    for i, s in enumerate(body):
        for n in ast.walk(s):
            if isinstance(n, ast.Await) and isinstance(n.value, ast.Call) and ast.unparse(n.value.func) == "asyncio.gather":
                gather_idx, gather_call = i, n.value
    if gather_idx is None:
        raise Unsupported("await asyncio.gather(…) not found in resample()")
    # what is gathered: `<helper>.resample(self._window_end)` for each registered series
    if not any(isinstance(n, ast.Call) and isinstance(n.func, ast.Attribute) and n.func.attr == "resample"
               and len(n.args) == 1 and ast.unparse(n.args[0]) == "self._window_end"
               for s in body[:gather_idx + 1] for n in ast.walk(s)):
        raise Unsupported("gathered calls are not `.resample(self._window_end)`")
    if {k.arg: ast.unparse(k.value) for k in gather_call.keywords}.get("return_exceptions") != "True":
        raise Unsupported("gather without return_exceptions=True")
    live_after = any(ast.unparse(n) == "self._resamplers" for s in body[gather_idx + 1:] for n in ast.walk(s))
    if not any(ast.unparse(n) == "self._resamplers" for s in body[:gather_idx + 1] for n in ast.walk(s)):
        raise Unsupported("resample() never reads self._resamplers")
    adv = [(i, s) for i, s in enumerate(body) if isinstance(s, ast.AugAssign) and ast.unparse(s.target) == "self._window_end"]
    other = [s for s in ast.walk(fn) if isinstance(s, (ast.Assign, ast.AnnAssign)) and
             any(ast.unparse(t) == "self._window_end" for t in (s.targets if isinstance(s, ast.Assign) else [s.target]))]
    nested = [s for s in ast.walk(fn) if isinstance(s, ast.AugAssign) and ast.unparse(s.target) == "self._window_end"]
    if len(adv) != 1 or len(nested) != 1 or other or adv[0][0] < gather_idx:
        raise Unsupported("expected exactly one unconditional `self._window_end += …` after the gather")
    raise_idx = [i for i, st in enumerate(body) if isinstance(st, ast.If) and
                 any(isinstance(n, ast.Raise) and n.exc is not None and "ResamplingError" in ast.unparse(n.exc)
                     for n in ast.walk(st))]
    if len(raise_idx) != 1 or raise_idx[0] < gather_idx:
        raise Unsupported("expected exactly one `if exceptions: raise ResamplingError(…)` after the gather")
    s = adv[0][1]
    if not isinstance(s.op, (ast.Add, ast.Sub)):
        raise Unsupported("window advance operator")
    t = need_int(sym.ev(s.value, env), "window advance")
    symb = "+" if isinstance(s.op, ast.Add) else "-"
    return (f"/-- `self._window_end {symb}= …` after every gather. -/\n"
            f"def advanceWindowEnd (windowEnd period : Int) : Int :=\n  windowEnd {symb} {t}\n\n"
            "/-- `true`: after the gather `resample()` only uses a snapshot of the series taken before it;\n"
            "`false`: it reads the live `self._resamplers` again (series added/removed in flight are mis-indexed). -/\n"
            f"def gatherOverSnapshot : Bool := {'false' if live_after else 'true'}\n\n"
            "/-- `true`: the window end is advanced before the errors of the tick are raised (a tick that ends with a\n"
            "`ResamplingError` still consumes its window); `false`: only error-free ticks advance it. -/\n"
            f"def advanceOnError : Bool := {'true' if adv[0][0] < raise_idx[0] else 'false'}")


def helper_parts(hel: ast.ClassDef) -> str:
    out = []
    # --- _update_source_sample_period(now): when is the estimate NOT taken, and what is stored
    fn = find_method(hel, "_update_source_sample_period")
    if [a.arg for a in fn.args.args] != ["self", "now"]:
        raise Unsupported("_update_source_sample_period signature")
    sym = Sym(dict(HELPER_LEAVES), {})
    stored: list = []

    def target_guard(s: ast.stmt, env: dict):  # type: ignore[no-untyped-def]
        if isinstance(s, ast.Return):
            v = sym.ev(s.value, env) if s.value is not None else None
            if not (isinstance(v, Num) and v.term in ("true", "false")):
                raise Unsupported("_update_source_sample_period returns something else than True/False")
            return Num("true" if v.term == "false" else "false", "Bool")  # skipped = returned False
        if isinstance(s, ast.Assign):
            for t in s.targets:
                tv = sym.ev(t.value, env) if isinstance(t, ast.Attribute) else None
                if isinstance(t, ast.Attribute) and isinstance(tv, Obj) and f"{tv.path}.{t.attr}" == "self._source_properties.sampling_period":
                    stored.append(sym.ev(s.value, env))
        return None

    guard = sym.run(body_of(fn), {"now": Num("now", "Int")}, target_guard)
    if not (isinstance(guard, Num) and guard.ty == "Bool"):
        raise Unsupported("guard of _update_source_sample_period not understood")
    if not stored or not all(isinstance(v, Est) for v in stored) or len({v.floor for v in stored}) != 1:
        raise Unsupported("shape of the input-period estimate")
    out.append("/-- `true` = `_update_source_sample_period(now)` returns False without estimating the input period. -/\n"
               "def skipPeriodUpdate (samplingPeriod samplingStart : Option Int) (received : Nat) (resamplingPeriod : Int)\n"
               "    (maxAge : Rat) (bufLen maxlen : Nat) (now : Int) : Bool :=\n  " + guard.term)
    out.append("/-- Lower clamp (µs) applied to the estimated input period (0: the estimate may round down to zero). -/\n"
               f"def minInputPeriodEstimate : Int := {stored[0].floor}")

    # --- _update_buffer_len: the maxlen the deque is rebuilt with
    fn = find_method(hel, "_update_buffer_len")
    leaves = dict(HELPER_LEAVES)
    leaves["self._source_properties.sampling_period"] = Num("inputPeriod", "Int")  # asserted not None by the function
    sym = Sym(leaves, {})

    def target_len(s: ast.stmt, env: dict):  # type: ignore[no-untyped-def]
        if isinstance(s, ast.Assign) and any(ast.unparse(t) == "self._buffer" for t in s.targets):
            c = s.value
            if not (isinstance(c, ast.Call) and ast.unparse(c.func) == "deque" and len(c.args) == 1
                    and isinstance(sym.ev(c.args[0], env), Obj) and sym.ev(c.args[0], env).path == "self._buffer"
                    and [k.arg for k in c.keywords] == ["maxlen"]):
                raise Unsupported("the buffer is not rebuilt with deque(self._buffer, maxlen=…)")
            return Num(need_int(sym.ev(c.keywords[0].value, env), "new buffer length"), "Int")
        return None

    r = sym.run(body_of(fn), {}, target_len)
    if not isinstance(r, Num):
        raise Unsupported("deque rebuild of _update_buffer_len not found")
    out.append("/-- The `maxlen` `_update_buffer_len` rebuilds the deque with (clamps included; exact rationals for the\n"
               "float `math.ceil`; `inputPeriod` = the estimated input period). -/\n"
               "def newBufferLenOf (inputPeriod resamplingPeriod : Int) (maxAge : Rat) (maxBufferLen warnBufferLen : Nat) : Int :=\n  "
               + r.term)

    # --- resample(timestamp): the slice handed to the resampling function
    fn = find_method(hel, "resample")
    if [a.arg for a in fn.args.args] != ["self", "timestamp"]:
        raise Unsupported("_ResamplingHelper.resample signature")
    body = body_of(fn)
    # the update happens first: a statement `if self._update_source_sample_period(timestamp): self._update_buffer_len()`
    # before anything reads the buffer or the source properties
    first = body[0] if body else None
    if not (isinstance(first, ast.If) and ast.unparse(first.test) == "self._update_source_sample_period(timestamp)"
            and len(first.body) == 1 and ast.unparse(first.body[0]) == "self._update_buffer_len()" and not first.orelse):
        lead = [s for s in body if not (isinstance(s, ast.Assign) and ast.unparse(s.value) in ("self._config", "self._source_properties"))]
        first = lead[0] if lead else None
        if not (isinstance(first, ast.If) and ast.unparse(first.test) == "self._update_source_sample_period(timestamp)"
                and len(first.body) == 1 and ast.unparse(first.body[0]) == "self._update_buffer_len()" and not first.orelse):
            raise Unsupported("resample() does not start with the period/buffer update")
    rest = [s for s in body if s is not first]
    sym = Sym(dict(HELPER_LEAVES), {})
    found: dict = {}

    def target_slice(s: ast.stmt, env: dict):  # type: ignore[no-untyped-def]
        for n in ast.walk(s):
            if isinstance(n, ast.Call) and isinstance(n.func, ast.Attribute) and n.func.attr == "resampling_function":
                base = sym.ev(n.func.value, env)
                a = [sym.ev(x, env) for x in n.args]
                if not (isinstance(base, Obj) and base.path == "self._config" and len(a) == 3 and isinstance(a[0], Slice)
                        and isinstance(a[1], Obj) and a[1].path == "self._config"
                        and isinstance(a[2], Obj) and a[2].path == "self._source_properties"):
                    raise Unsupported("call of the resampling function changed shape")
                if not (isinstance(a[0].lo, Bisect) and isinstance(a[0].hi, Bisect)):
                    raise Unsupported("the slice is not bounded by two bisections")
                return Tup([a[0].lo.key, a[0].hi.key])
        return None

    r = sym.run(rest, {"timestamp": Num("timestamp", "Int")}, target_slice)
    if not isinstance(r, Tup):
        raise Unsupported("window computation of _ResamplingHelper.resample not understood")
    # every return hands out `Sample(timestamp, …)`
    for n in ast.walk(fn):
        if isinstance(n, ast.Return):
            if not (isinstance(n.value, ast.Call) and ast.unparse(n.value.func) == "Sample" and len(n.value.args) == 2
                    and ast.unparse(n.value.args[0]) == "timestamp"):
                raise Unsupported("resample() returns something else than Sample(timestamp, …)")
    sig = "(timestamp resamplingPeriod : Int) (samplingPeriod : Option Int) (maxAge : Rat) : Int"
    out.append("/-- `islice(buffer, bisect_right(buffer, <this>), …)`: the older edge of the relevance window. -/\n"
               f"def relevanceLowKey {sig} :=\n  {need_int(r.items[0], 'low key')}")
    out.append("/-- `islice(buffer, …, bisect_right(buffer, <this>))`: the newer edge of the relevance window. -/\n"
               f"def relevanceHighKey {sig} :=\n  {need_int(r.items[1], 'high key')}")
    return "\n\n".join(out)


def add_sample_shape(hel: ast.ClassDef) -> None:
    fn = find_method(hel, "add_sample")
    if [a.arg for a in fn.args.args] != ["self", "sample"]:
        raise Unsupported("add_sample signature")
    src = sorted(ast.unparse(s) for s in body_of(fn))
    want = sorted(["self._buffer.append(sample)",
                   "if self._source_properties.sampling_start is None:\n    self._source_properties.sampling_start = sample.timestamp",
                   "self._source_properties.received_samples += 1"])
    if src != want:
        raise Unsupported("add_sample changed shape")
    init = find_method(hel, "__init__")
    if "deque(maxlen=config.initial_buffer_len)" not in ast.unparse(init):
        raise Unsupported("initial buffer is not deque(maxlen=config.initial_buffer_len)")


def receive_filter(stream: ast.ClassDef) -> str:
    fn = find_method(stream, "_receive_samples")
    loop = next((s for s in body_of(fn) if isinstance(s, ast.AsyncFor)), None)
    if loop is None or not isinstance(loop.target, ast.Name) or ast.unparse(loop.iter) != "self._source":
        raise Unsupported("_receive_samples loop shape")
    v = loop.target.id
    finite = Num("((!isNaN) && (!isInf))", "Bool")
    sym = Sym({f"{v}.value": Num("<isNone:isNone>", "Bool"), f"{v}.value.isnan()": Num("isNaN", "Bool"),
               f"{v}.value.isinf()": Num("isInf", "Bool"),
               f"math.isnan({v}.value.base_value)": Num("isNaN", "Bool"),
               f"math.isinf({v}.value.base_value)": Num("isInf", "Bool"),
               f"math.isfinite({v}.value.base_value)": finite}, {})
    added: list[bool] = []

    def target(s: ast.stmt, env: dict):  # type: ignore[no-untyped-def]
        if isinstance(s, ast.Expr) and ast.unparse(s.value) == f"self._helper.add_sample({v})":
            added.append(True)
            return Num("true", "Bool")
        if isinstance(s, ast.Continue):
            return Num("false", "Bool")
        return None

    # falling off the end of the body = not added
    r = sym.run(list(loop.body) + [ast.Continue()], {v: Obj(v)}, target)
    if not added or not isinstance(r, Num) or r.ty != "Bool":
        raise Unsupported("_receive_samples does not add the accepted sample")
    return ("/-- The condition under which `_StreamingHelper._receive_samples` hands a sample to the helper\n"
            "(`isInf`: the value is +inf or -inf). -/\n"
            "def acceptsSample (isNone isNaN isInf : Bool) : Bool :=\n  " + r.term)


def generate(repo: pathlib.Path) -> str:
    tree = ast.parse((repo / SOURCES[0]).read_text())
    res = find_class(tree, "Resampler")
    hel = find_class(tree, "_ResamplingHelper")
    stream = find_class(tree, "_StreamingHelper")
    bisect_import(tree)
    add_sample_shape(hel)
    parts = [constants(tree), calc_window_end(res), timer_hack(res), resample_loop(res), helper_parts(hel),
             receive_filter(stream)]
    return ("set_option linter.unusedVariables false\n\nnamespace Extracted.Resampling\n\n" + PRELUDE + "\n"
            + "\n\n".join(parts) + "\n\nend Extracted.Resampling\n")
