"""`timeseries/_resampling.py` -> Lean definitions used by the resampler models (C07, C08).

Pure `ast`.  `datetime`/`timedelta` become `Int` microseconds, `x.total_seconds()` becomes the exact rational
`x / 1_000_000`, `float` configuration values become `Rat`, `timedelta * float` becomes `tdMulFloat` (exact product
rounded half-to-even to a microsecond, which is what CPython does).  Translated:

* module constants `DEFAULT_BUFFER_LEN_*`, the defaults of `ResamplerConfig`;
* `Resampler._calculate_window_end`                     -> `calculateWindowEnd now period align_to`
* the timer alignment hack of `Resampler.__init__`      -> `firstTickTime loopNow period startDelay`
* `self._window_end += …` of `Resampler.resample`       -> `advanceWindowEnd windowEnd period`
* whether `resample()` still reads `self._resamplers` after the gather (live dict) or only a snapshot taken before it
                                                        -> `gatherOverSnapshot : Bool`
* the guard of `_ResamplingHelper._update_source_sample_period` -> `skipPeriodUpdate …`
* the `math.ceil(…)` formula of `_update_buffer_len`    -> `rawBufferLen …`
* `period = max(…) if … else …`, `minimum_relevant_timestamp = …` and the two `bisect` calls of
  `_ResamplingHelper.resample`                          -> `relevancePeriod`, `minimumRelevantTimestamp`, `minIndexKey`/`maxIndexKey`
* the filter of `_StreamingHelper._receive_samples`     -> `acceptsSample isNone isNaN isInf`
* whether `_window_end` is advanced before `ResamplingError` is raised -> `advanceOnError : Bool`

Anything that does not have the expected shape raises (the check then treats the proofs as broken).
"""
from __future__ import annotations

import ast
import pathlib
from fractions import Fraction

NAME = "Resampling"
SOURCES = ["src/frequenz/sdk/timeseries/_resampling.py"]


class Unsupported(Exception):
    pass


PRELUDE = """\
/-- Round a rational to the nearest integer, ties to even (CPython `_divide_and_round`). -/
def roundHalfEven (q : Rat) : Int :=
  let f := q.floor
  let r := q - (f : Rat)
  if r < 1 / 2 then f else if 1 / 2 < r then f + 1 else if f % 2 = 0 then f else f + 1

/-- `timedelta * float`: exact product of the microseconds with the float's exact ratio, rounded half-to-even. -/
def tdMulFloat (td : Int) (f : Rat) : Int := roundHalfEven ((td : Rat) * f)

/-- `timedelta.total_seconds()` as an exact rational. -/
def totalSeconds (td : Int) : Rat := (td : Rat) / 1000000

/-- Which key a `bisect` call of `_ResamplingHelper.resample` searches for. -/
inductive BisectKey where
  | minimumRelevantTimestamp
  | timestamp
deriving Repr, DecidableEq
"""


# ------------------------------------------------------------------------------------------------ typed expressions
# Types: "Int" (time, µs), "Nat", "Rat", "OptInt", "Bool".
class Tr:
    """Expression translator driven by a table `source text of a sub-expression -> (lean term, type)`."""

    def __init__(self, names: dict[str, tuple[str, str]]):
        self.names = dict(names)

    def num(self, n: ast.expr) -> tuple[str, str]:
        src = ast.unparse(n)
        if src in self.names:
            return self.names[src]
        if isinstance(n, ast.Constant) and isinstance(n.value, bool):
            raise Unsupported(f"bool constant as number: {src}")
        if isinstance(n, ast.Constant) and isinstance(n.value, int):
            return (f"({n.value} : Int)", "Int")
        if isinstance(n, ast.Constant) and isinstance(n.value, float):
            fr = Fraction(n.value)
            return (f"(({fr.numerator} : Rat) / {fr.denominator})", "Rat")
        if isinstance(n, ast.Call):
            f = ast.unparse(n.func)
            if f == "timedelta" and not n.keywords and len(n.args) == 1 and ast.unparse(n.args[0]) == "0":
                return ("(0 : Int)", "Int")
            if f == "timedelta" and not n.args and len(n.keywords) == 1 and n.keywords[0].arg == "seconds":
                # timedelta(seconds=<loop time>) — only for a term that is already integer µs in the table
                t, ty = self.num(n.keywords[0].value)
                if ty != "Int":
                    raise Unsupported(f"timedelta(seconds=…) of a non-time value: {src}")
                return (t, "Int")
            if f == "_to_microseconds" and len(n.args) == 1:
                t, ty = self.num(n.args[0])
                if ty != "Int":
                    raise Unsupported(src)
                return (t, "Int")
            if isinstance(n.func, ast.Attribute) and n.func.attr == "total_seconds" and not n.args:
                t, ty = self.num(n.func.value)
                if ty != "Int":
                    raise Unsupported(src)
                return (f"(totalSeconds {t})", "Rat")
            if f == "max" and len(n.args) == 2 and not n.keywords:
                (a, ta), (b, tb) = self.num(n.args[0]), self.num(n.args[1])
                a, b, ty = self.unify(a, ta, b, tb)
                return (f"(if {b} > {a} then {b} else {a})", ty)  # Python: first wins on ties
            if f == "min" and len(n.args) == 2 and not n.keywords:
                (a, ta), (b, tb) = self.num(n.args[0]), self.num(n.args[1])
                a, b, ty = self.unify(a, ta, b, tb)
                return (f"(if {b} < {a} then {b} else {a})", ty)
            if f == "math.ceil" and len(n.args) == 1:
                t, ty = self.num(n.args[0])
                return (f"(Rat.ceil {self.cast(t, ty, 'Rat')})", "Int")
            raise Unsupported(f"call {src}")
        if isinstance(n, ast.BinOp):
            (a, ta), (b, tb) = self.num(n.left), self.num(n.right)
            if isinstance(n.op, ast.Mult):
                # timedelta * float / timedelta * int
                if ta == "Int" and tb == "Rat":
                    return (f"(tdMulFloat {a} {b})", "Int")
                if ta == "Rat" and tb == "Int":
                    return (f"(tdMulFloat {b} {a})", "Int")
                a, b, ty = self.unify(a, ta, b, tb)
                return (f"({a} * {b})", ty)
            if isinstance(n.op, (ast.Add, ast.Sub)):
                a, b, ty = self.unify(a, ta, b, tb)
                return (f"({a} {'+' if isinstance(n.op, ast.Add) else '-'} {b})", ty)
            if isinstance(n.op, ast.Div):
                return (f"({self.cast(a, ta, 'Rat')} / {self.cast(b, tb, 'Rat')})", "Rat")
            if isinstance(n.op, ast.Mod):
                if ta == tb == "Int":
                    return (f"({a} % {b})", "Int")  # timedelta % timedelta: floor mod = Int.emod for a positive divisor
                raise Unsupported(src)
            raise Unsupported(f"operator in {src}")
        if isinstance(n, ast.IfExp):
            c = self.cond(n.test)
            (a, ta), (b, tb) = self.num(n.body), self.num(n.orelse)
            a, b, ty = self.unify(a, ta, b, tb)
            return (f"(if {c} then {a} else {b})", ty)
        raise Unsupported(f"expression {src}")

    @staticmethod
    def cast(t: str, ty: str, to: str) -> str:
        if ty == to:
            return t
        if to == "Rat" and ty in ("Int", "Nat"):
            return f"(({t} : {ty}) : Rat)" if ty == "Int" else f"((({t} : Nat) : Int) : Rat)"
        if to == "Int" and ty == "Nat":
            return f"(({t} : Nat) : Int)"
        raise Unsupported(f"cast {ty} -> {to}")

    def unify(self, a: str, ta: str, b: str, tb: str) -> tuple[str, str, str]:
        if ta == tb:
            return a, b, ta
        order = ["Nat", "Int", "Rat"]
        if ta in order and tb in order:
            ty = order[max(order.index(ta), order.index(tb))]
            return self.cast(a, ta, ty), self.cast(b, tb, ty), ty
        raise Unsupported(f"cannot unify {ta} and {tb}")

    def cond(self, n: ast.expr) -> str:
        """A Lean `Bool` term."""
        src = ast.unparse(n)
        if src in self.names and self.names[src][1] == "Bool":
            return self.names[src][0]
        if isinstance(n, ast.BoolOp):
            j = " && " if isinstance(n.op, ast.And) else " || "
            return "(" + j.join(self.cond(v) for v in n.values) + ")"
        if isinstance(n, ast.UnaryOp) and isinstance(n.op, ast.Not):
            return f"(!{self.cond(n.operand)})"
        if isinstance(n, ast.Compare) and len(n.ops) == 1:
            op, right = n.ops[0], n.comparators[0]
            if isinstance(op, (ast.Is, ast.IsNot)) and isinstance(right, ast.Constant) and right.value is None:
                t, ty = self.num(n.left)
                if ty != "OptInt":
                    raise Unsupported(f"None test on non-optional {src}")
                return f"({t}.isNone)" if isinstance(op, ast.Is) else f"({t}.isSome)"
            ops = {ast.Lt: "<", ast.LtE: "≤", ast.Gt: ">", ast.GtE: "≥", ast.Eq: "=", ast.NotEq: "≠"}
            for k, v in ops.items():
                if isinstance(op, k):
                    (a, ta), (b, tb) = self.num(n.left), self.num(right)
                    # comparison against an Optional that the surrounding `or`/`if` has narrowed
                    if tb == "OptInt" and ta != "OptInt":
                        return f"({b}.any fun opt_v => decide ({a} {v} opt_v))"
                    if ta == "OptInt" and tb != "OptInt":
                        return f"({a}.any fun opt_v => decide (opt_v {v} {b}))"
                    a, b, _ = self.unify(a, ta, b, tb)
                    return f"(decide ({a} {v} {b}))"
            raise Unsupported(f"comparison {src}")
        # truthiness of a timedelta
        t, ty = self.num(n)
        if ty == "Int":
            return f"(decide ({t} ≠ 0))"
        raise Unsupported(f"condition {src}")


# ------------------------------------------------------------------------------------------------ AST helpers
def find_class(tree: ast.Module, name: str) -> ast.ClassDef:
    for n in tree.body:
        if isinstance(n, ast.ClassDef) and n.name == name:
            return n
    raise Unsupported(f"class {name} not found")


def find_method(cls: ast.ClassDef, name: str) -> ast.FunctionDef | ast.AsyncFunctionDef:
    for n in cls.body:
        if isinstance(n, (ast.FunctionDef, ast.AsyncFunctionDef)) and n.name == name:
            return n
    raise Unsupported(f"method {cls.name}.{name} not found")


def strip_doc(body: list[ast.stmt]) -> list[ast.stmt]:
    if body and isinstance(body[0], ast.Expr) and isinstance(body[0].value, ast.Constant) and isinstance(body[0].value.value, str):
        return body[1:]
    return body


def is_logging(s: ast.stmt) -> bool:
    return isinstance(s, ast.Expr) and isinstance(s.value, ast.Call) and ast.unparse(s.value.func).startswith("_logger.")


# ------------------------------------------------------------------------------------------------ pieces
def constants(tree: ast.Module) -> str:
    want = {"DEFAULT_BUFFER_LEN_INIT": "defaultBufferLenInit", "DEFAULT_BUFFER_LEN_MAX": "defaultBufferLenMax",
            "DEFAULT_BUFFER_LEN_WARN": "defaultBufferLenWarn"}
    out = []
    for n in tree.body:
        if isinstance(n, ast.Assign) and len(n.targets) == 1 and isinstance(n.targets[0], ast.Name) \
                and n.targets[0].id in want:
            if not (isinstance(n.value, ast.Constant) and isinstance(n.value.value, int) and n.value.value >= 0):
                raise Unsupported(f"{n.targets[0].id} is not a natural literal")
            out.append(f"def {want.pop(n.targets[0].id)} : Nat := {n.value.value}")
    if want:
        raise Unsupported(f"constants not found: {sorted(want)}")
    cfg = find_class(tree, "ResamplerConfig")
    defaults: dict[str, ast.expr] = {}
    for n in cfg.body:
        if isinstance(n, ast.AnnAssign) and isinstance(n.target, ast.Name) and n.value is not None:
            defaults[n.target.id] = n.value
    v = defaults.get("max_data_age_in_periods")
    if not (isinstance(v, ast.Constant) and isinstance(v.value, (int, float))):
        raise Unsupported("default of max_data_age_in_periods")
    fr = Fraction(v.value)
    out.append(f"def defaultMaxDataAgeInPeriods : Rat := ({fr.numerator} : Rat) / {fr.denominator}")
    for py, lean in (("initial_buffer_len", "defaultInitialBufferLen"), ("warn_buffer_len", "defaultWarnBufferLen"),
                     ("max_buffer_len", "defaultMaxBufferLen")):
        v = defaults.get(py)
        if v is None:
            raise Unsupported(f"default of {py}")
        src = ast.unparse(v)
        m = {"DEFAULT_BUFFER_LEN_INIT": "defaultBufferLenInit", "DEFAULT_BUFFER_LEN_MAX": "defaultBufferLenMax",
             "DEFAULT_BUFFER_LEN_WARN": "defaultBufferLenWarn"}
        if src in m:
            out.append(f"def {lean} : Nat := {m[src]}")
        elif isinstance(v, ast.Constant) and isinstance(v.value, int):
            out.append(f"def {lean} : Nat := {v.value}")
        else:
            raise Unsupported(f"default of {py}: {src}")
    v = defaults.get("align_to")
    if v is None:
        raise Unsupported("default of align_to")
    src = ast.unparse(v)
    if src == "UNIX_EPOCH":
        out.append("/-- default `align_to` (UNIX_EPOCH = 0 µs). -/\ndef defaultAlignTo : Option Int := some 0")
    elif src == "None":
        out.append("def defaultAlignTo : Option Int := none")
    else:
        raise Unsupported(f"default of align_to: {src}")
    # ResamplerConfig.__post_init__: the lower bound of max_data_age_in_periods
    post = find_method(cfg, "__post_init__")
    bound = None
    for s in ast.walk(post):
        if isinstance(s, ast.If) and isinstance(s.test, ast.Compare) and \
                ast.unparse(s.test.left) == "self.max_data_age_in_periods" and len(s.test.ops) == 1 \
                and isinstance(s.test.ops[0], ast.Lt) and isinstance(s.test.comparators[0], ast.Constant) \
                and any(isinstance(b, ast.Raise) for b in s.body):
            bound = Fraction(s.test.comparators[0].value)
    if bound is None:
        raise Unsupported("max_data_age_in_periods lower-bound check not found")
    out.append(f"/-- `ResamplerConfig` rejects `max_data_age_in_periods` below this. -/\n"
               f"def minMaxDataAgeInPeriods : Rat := ({bound.numerator} : Rat) / {bound.denominator}")
    return "\n".join(out)


def calc_window_end(res: ast.ClassDef) -> str:
    fn = find_method(res, "_calculate_window_end")
    names = {
        "now": ("now", "Int"),
        "self._config.resampling_period": ("period", "Int"),
        "self._config.align_to": ("align_to", "OptInt"),
    }
    tr = Tr(names)
    local_alias: dict[str, str] = {}

    def block(stmts: list[ast.stmt], ind: str, narrowed: bool) -> str:
        if not stmts:
            raise Unsupported("_calculate_window_end may fall off its end")
        s, rest = stmts[0], stmts[1:]
        if isinstance(s, ast.Assign) and len(s.targets) == 1 and isinstance(s.targets[0], ast.Name):
            tgt, src = s.targets[0].id, ast.unparse(s.value)
            if src.replace(" ", "") in ("datetime.now(timezone.utc)", "datetime.now(tz=timezone.utc)"):
                if tgt != "now":
                    tr.names[tgt] = ("now", "Int")
                return block(rest, ind, narrowed)
            if src in names and src != "now":
                tr.names[tgt] = names[src]
                local_alias[tgt] = src
                return block(rest, ind, narrowed)
            t, ty = tr.num(s.value)
            tr.names[tgt] = (tgt, ty)
            return f"{ind}let {tgt} : {ty} := {t}\n" + block(rest, ind, narrowed)
        if isinstance(s, ast.Return) and isinstance(s.value, ast.Tuple) and len(s.value.elts) == 2:
            (a, ta), (b, tb) = tr.num(s.value.elts[0]), tr.num(s.value.elts[1])
            if ta != "Int" or tb != "Int":
                raise Unsupported("return type of _calculate_window_end")
            return f"{ind}({a}, {b})"
        if isinstance(s, ast.If):
            test = s.test
            if isinstance(test, ast.Compare) and len(test.ops) == 1 and isinstance(test.ops[0], (ast.Is, ast.IsNot)) \
                    and isinstance(test.comparators[0], ast.Constant) and test.comparators[0].value is None:
                v = tr.names.get(ast.unparse(test.left))
                if v is None or v[1] != "OptInt" or narrowed:
                    raise Unsupported("None test in _calculate_window_end")
                key = ast.unparse(test.left)
                saved = dict(tr.names)
                none_branch, some_branch = (s.body, s.orelse) if isinstance(test.ops[0], ast.Is) else (s.orelse, s.body)
                none_txt = block(none_branch + rest, ind + "  ", True)
                tr.names = dict(saved)
                for k, val in saved.items():
                    if val == v:
                        tr.names[k] = (f"{v[0]}_v", "Int")
                some_txt = block(some_branch + rest, ind + "  ", True)
                tr.names = saved
                _ = key
                return f"{ind}match {v[0]} with\n{ind}| none =>\n{none_txt}\n{ind}| some {v[0]}_v =>\n{some_txt}"
            c = tr.cond(test)
            saved = dict(tr.names)
            a = block(s.body + rest, ind + "  ", narrowed)
            tr.names = dict(saved)
            b = block(s.orelse + rest, ind + "  ", narrowed)
            tr.names = saved
            return f"{ind}if {c} then\n{a}\n{ind}else\n{b}"
        raise Unsupported(f"statement in _calculate_window_end: {ast.unparse(s)[:60]}")

    body = block(strip_doc(fn.body), "  ", False)
    return ("/-- `Resampler._calculate_window_end` with `datetime.now()` as the parameter `now`: "
            "(window end, timer start delay). -/\n"
            "def calculateWindowEnd (now period : Int) (align_to : Option Int) : Int × Int :=\n" + body)


def timer_hack(res: ast.ClassDef) -> str:
    init = find_method(res, "__init__")
    start_delay_name = None
    for s in ast.walk(init):
        if isinstance(s, ast.Assign) and isinstance(s.targets[0], ast.Tuple) and \
                ast.unparse(s.value) == "self._calculate_window_end()":
            elts = s.targets[0].elts
            if len(elts) == 2 and isinstance(elts[1], ast.Name):
                start_delay_name = elts[1].id
    if start_delay_name is None:
        raise Unsupported("`window_end, start_delay = self._calculate_window_end()` not found in __init__")
    timer_ok = False
    for s in ast.walk(init):
        if isinstance(s, ast.Call) and ast.unparse(s.func) == "Timer":
            if len(s.args) == 2 and ast.unparse(s.args[0]) == "config.resampling_period" \
                    and ast.unparse(s.args[1]) == "TriggerAllMissed()" and not s.keywords:
                timer_ok = True
    if not timer_ok:
        raise Unsupported("Timer(config.resampling_period, TriggerAllMissed()) not found")
    for s in init.body:
        if isinstance(s, ast.Assign) and ast.unparse(s.targets[0]) == "self._timer._next_tick_time":
            tr = Tr({
                "asyncio.get_running_loop().time()": ("loopNow", "Int"),
                "config.resampling_period": ("period", "Int"),
                "self._config.resampling_period": ("period", "Int"),
                start_delay_name: ("startDelay", "Int"),
            })
            t, ty = tr.num(s.value)
            if ty != "Int":
                raise Unsupported("timer hack type")
            return ("/-- The hand-aligned `Timer._next_tick_time` of `Resampler.__init__` (loop clock, µs). -/\n"
                    f"def firstTickTime (loopNow period startDelay : Int) : Int :=\n  {t}")
    raise Unsupported("assignment to self._timer._next_tick_time not found")


def resample_loop(res: ast.ClassDef) -> str:
    fn = find_method(res, "resample")
    loop = next((s for s in fn.body if isinstance(s, ast.AsyncFor)), None)
    if loop is None or ast.unparse(loop.iter) != "self._timer":
        raise Unsupported("`async for … in self._timer` not found in resample()")
    body = loop.body
    gather_idx = None
    for i, s in enumerate(body):
        for n in ast.walk(s):
            if isinstance(n, ast.Await) and isinstance(n.value, ast.Call) and ast.unparse(n.value.func) == "asyncio.gather":
                gather_idx = i
                gather_call = n.value
    if gather_idx is None:
        raise Unsupported("await asyncio.gather(…) not found in resample()")
    # every gathered coroutine is `<x>.resample(self._window_end)`
    ok = False
    for n in ast.walk(gather_call):
        if isinstance(n, ast.Call) and isinstance(n.func, ast.Attribute) and n.func.attr == "resample":
            if len(n.args) == 1 and ast.unparse(n.args[0]) == "self._window_end":
                ok = True
    if not ok:
        raise Unsupported("gathered calls are not `.resample(self._window_end)`")
    kws = {k.arg: ast.unparse(k.value) for k in gather_call.keywords}
    if kws.get("return_exceptions") != "True":
        raise Unsupported("gather without return_exceptions=True")
    live_after = any(ast.unparse(n) == "self._resamplers" for s in body[gather_idx + 1:] for n in ast.walk(s))
    live_in_gather = any(ast.unparse(n) == "self._resamplers" for n in ast.walk(body[gather_idx]))
    snapshot_before = any(ast.unparse(n) == "self._resamplers" for s in body[:gather_idx] for n in ast.walk(s))
    if not (live_in_gather or snapshot_before):
        raise Unsupported("resample() never reads self._resamplers")
    # the window advance: exactly one augmented assignment, not before the gather
    adv = [(i, s) for i, s in enumerate(body) if isinstance(s, ast.AugAssign) and ast.unparse(s.target) == "self._window_end"]
    other = [s for s in ast.walk(fn) if isinstance(s, ast.Assign) and any(ast.unparse(t) == "self._window_end" for t in s.targets)]
    if len(adv) != 1 or other or adv[0][0] < gather_idx:
        raise Unsupported("expected exactly one `self._window_end += …` after the gather")
    # where the errors of the tick are raised: `if exceptions: raise ResamplingError(exceptions)`
    raise_idx = [i for i, st in enumerate(body) if isinstance(st, ast.If) and
                 any(isinstance(n, ast.Raise) and n.exc is not None and "ResamplingError" in ast.unparse(n.exc)
                     for n in ast.walk(st))]
    if len(raise_idx) != 1 or raise_idx[0] < gather_idx:
        raise Unsupported("expected exactly one `if exceptions: raise ResamplingError(…)` after the gather")
    advance_on_error = adv[0][0] < raise_idx[0]
    s = adv[0][1]
    tr = Tr({"self._config.resampling_period": ("period", "Int"), "self._window_end": ("windowEnd", "Int")})
    if not isinstance(s.op, (ast.Add, ast.Sub)):
        raise Unsupported("window advance operator")
    t, ty = tr.num(s.value)
    if ty != "Int":
        raise Unsupported("window advance type")
    sym = "+" if isinstance(s.op, ast.Add) else "-"
    return (f"/-- `self._window_end {sym}= …` after every gather. -/\n"
            f"def advanceWindowEnd (windowEnd period : Int) : Int :=\n  windowEnd {sym} {t}\n\n"
            "/-- `true`: after the gather `resample()` only uses a snapshot of the series taken before it;\n"
            "`false`: it reads the live `self._resamplers` again (series added/removed in flight are mis-indexed). -/\n"
            f"def gatherOverSnapshot : Bool := {'false' if live_after else 'true'}\n\n"
            "/-- `true`: the window end is advanced before the errors of the tick are raised (a tick that ends with a\n"
            "`ResamplingError` still consumes its window); `false`: only error-free ticks advance it. -/\n"
            f"def advanceOnError : Bool := {'true' if advance_on_error else 'false'}")


HELPER_NAMES = {
    "props.sampling_period": ("samplingPeriod", "OptInt"),
    "self._source_properties.sampling_period": ("samplingPeriod", "OptInt"),
    "props.sampling_start": ("samplingStart", "OptInt"),
    "self._source_properties.sampling_start": ("samplingStart", "OptInt"),
    "props.received_samples": ("received", "Nat"),
    "self._source_properties.received_samples": ("received", "Nat"),
    "config.resampling_period": ("resamplingPeriod", "Int"),
    "conf.resampling_period": ("resamplingPeriod", "Int"),
    "self._config.resampling_period": ("resamplingPeriod", "Int"),
    "config.max_data_age_in_periods": ("maxAge", "Rat"),
    "conf.max_data_age_in_periods": ("maxAge", "Rat"),
    "self._config.max_data_age_in_periods": ("maxAge", "Rat"),
    "len(self._buffer)": ("bufLen", "Nat"),
    "self._buffer.maxlen": ("maxlen", "Nat"),
}


def helper_parts(hel: ast.ClassDef) -> str:
    out = []
    # --- _update_source_sample_period: `if (<guard>): return False`
    fn = find_method(hel, "_update_source_sample_period")
    if [a.arg for a in fn.args.args] != ["self", "now"]:
        raise Unsupported("_update_source_sample_period signature")
    guard = None
    for s in fn.body:
        if isinstance(s, ast.If) and len(s.body) == 1 and isinstance(s.body[0], ast.Return) \
                and ast.unparse(s.body[0].value) == "False" and not s.orelse:
            guard = s.test
            break
    if guard is None:
        raise Unsupported("guard of _update_source_sample_period not found")
    tr = Tr({**HELPER_NAMES, "now": ("now", "Int")})
    out.append("/-- The guard of `_update_source_sample_period`: `true` = the input period is NOT (re)estimated now. -/\n"
               "def skipPeriodUpdate (samplingPeriod samplingStart : Option Int) (received : Nat) (resamplingPeriod : Int)\n"
               "    (maxAge : Rat) (bufLen maxlen : Nat) (now : Int) : Bool :=\n  " + tr.cond(guard))
    # what is estimated: timedelta(seconds=(now - start).total_seconds() / received) — a float computation whose value
    # the model takes from the implementation; what IS extracted is the lower clamp (0 = none) applied to it.
    def is_raw(v: ast.expr) -> bool:
        return (isinstance(v, ast.Call) and ast.unparse(v.func) == "timedelta" and not v.args and len(v.keywords) == 1
                and v.keywords[0].arg == "seconds" and isinstance(v.keywords[0].value, ast.BinOp)
                and isinstance(v.keywords[0].value.op, ast.Div)
                and ast.unparse(v.keywords[0].value.left).endswith(".total_seconds()")
                and ast.unparse(v.keywords[0].value.right) in ("props.received_samples",
                                                                "self._source_properties.received_samples"))

    def is_resolution(v: ast.expr) -> bool:
        return ast.unparse(v) in ("timedelta.resolution", "timedelta(microseconds=1)")

    floor = None
    for s in ast.walk(fn):
        if isinstance(s, ast.Assign) and ast.unparse(s.targets[0]) in ("props.sampling_period", "self._source_properties.sampling_period"):
            v = s.value
            if is_raw(v):
                floor = 0
            elif isinstance(v, ast.Call) and ast.unparse(v.func) == "max" and len(v.args) == 2 and not v.keywords and \
                    ((is_raw(v.args[0]) and is_resolution(v.args[1])) or (is_raw(v.args[1]) and is_resolution(v.args[0]))):
                floor = 1
            else:
                raise Unsupported(f"shape of the input-period estimate: {ast.unparse(v)[:80]}")
    if floor is None:
        raise Unsupported("assignment of the estimated sampling period not found")
    out.append("/-- Lower clamp (µs) applied to the estimated input period (0: the estimate may round down to zero). -/\n"
               f"def minInputPeriodEstimate : Int := {floor}")

    # --- _update_buffer_len: new_buffer_len = math.ceil(<expr>)
    fn = find_method(hel, "_update_buffer_len")
    tr = Tr(dict(HELPER_NAMES))
    raw = None
    for s in strip_doc(fn.body):
        if isinstance(s, ast.Assign) and len(s.targets) == 1 and isinstance(s.targets[0], ast.Name):
            src = ast.unparse(s.value)
            if src in HELPER_NAMES:
                tr.names[s.targets[0].id] = HELPER_NAMES[src]
                continue
            if src == "self._config":
                continue
            if s.targets[0].id == "new_buffer_len" and raw is None:
                # Option narrowing: the function asserts sampling_period is not None
                tr.names = {k: (("inputPeriod", "Int") if v == ("samplingPeriod", "OptInt") else v) for k, v in tr.names.items()}
                t, ty = tr.num(s.value)
                if ty != "Int":
                    raise Unsupported("new_buffer_len is not math.ceil(…)")
                raw = t
                break
    if raw is None:
        raise Unsupported("new_buffer_len = math.ceil(…) not found")
    # the clamps that follow: max(1, n); > max_buffer_len -> max_buffer_len
    rest_src = ast.unparse(fn)
    if "new_buffer_len = max(1, new_buffer_len)" not in rest_src or \
            "if new_buffer_len > config.max_buffer_len:" not in rest_src or \
            "new_buffer_len = config.max_buffer_len" not in rest_src or \
            "self._buffer = deque(self._buffer, maxlen=new_buffer_len)" not in rest_src:
        raise Unsupported("clamps / deque rebuild of _update_buffer_len changed")
    out.append("/-- `math.ceil(…)` of `_update_buffer_len` over exact rationals (`inputPeriod` = the estimated input period). -/\n"
               "def rawBufferLen (inputPeriod resamplingPeriod : Int) (maxAge : Rat) : Int :=\n  " + raw)

    # --- resample(): period, minimum_relevant_timestamp, the two bisects, islice
    fn = find_method(hel, "resample")
    if [a.arg for a in fn.args.args] != ["self", "timestamp"]:
        raise Unsupported("_ResamplingHelper.resample signature")
    body = strip_doc(fn.body)
    first = body[0]
    if not (isinstance(first, ast.If) and ast.unparse(first.test) == "self._update_source_sample_period(timestamp)"
            and len(first.body) == 1 and ast.unparse(first.body[0]) == "self._update_buffer_len()" and not first.orelse):
        raise Unsupported("resample() does not start with the period/buffer update")
    tr = Tr({**HELPER_NAMES, "timestamp": ("timestamp", "Int")})
    period_txt = min_txt = None
    min_name = None  # local holding minimum_relevant_timestamp
    bis: dict[str, str] = {}  # local name -> BisectKey of the bisect call assigned to it
    slice_names: tuple[str, str] | None = None
    rel_name = None
    CFG = ("conf", "config", "self._config")
    PROPS = ("props", "self._source_properties")
    for s in body[1:]:
        if isinstance(s, ast.Assign) and len(s.targets) == 1 and isinstance(s.targets[0], ast.Name):
            tgt, v, src = s.targets[0].id, s.value, ast.unparse(s.value)
            if src in ("self._config", "self._source_properties"):
                continue
            if isinstance(v, ast.IfExp) and ast.unparse(v.test) in tuple(f"{p}.sampling_period is not None" for p in PROPS):
                # `max(a, b) if b is not None else a`: narrow b in the `then` branch
                tr_some = Tr({k: (("sp", "Int") if val == ("samplingPeriod", "OptInt") else val) for k, val in tr.names.items()})
                a, ta = tr_some.num(v.body)
                b, tb = tr.num(v.orelse)
                if ta != "Int" or tb != "Int" or period_txt is not None:
                    raise Unsupported("relevance period")
                period_txt = f"match samplingPeriod with\n  | some sp => {a}\n  | none => {b}"
                tr.names[tgt] = ("period", "Int")
            elif isinstance(v, ast.Call) and ast.unparse(v.func) in ("bisect", "bisect_right", "bisect.bisect", "bisect.bisect_right"):
                if not (len(v.args) == 2 and ast.unparse(v.args[0]) == "self._buffer"
                        and {k.arg: ast.unparse(k.value) for k in v.keywords} == {"key": "lambda s: s.timestamp"}):
                    raise Unsupported(f"{tgt} is not bisect(self._buffer, <key>, key=lambda s: s.timestamp)")
                key = ast.unparse(v.args[1])
                if key == "timestamp":
                    bis[tgt] = "BisectKey.timestamp"
                elif min_name is not None and key == min_name:
                    bis[tgt] = "BisectKey.minimumRelevantTimestamp"
                else:
                    raise Unsupported(f"{tgt}: unknown bisect key {key}")
            elif isinstance(v, ast.Call) and ast.unparse(v.func) in ("bisect_left", "bisect.bisect_left", "insort"):
                raise Unsupported(f"{tgt} uses {ast.unparse(v.func)}")
            elif src.replace(" ", "").startswith("list(itertools.islice(self._buffer,"):
                inner = v.args[0]  # type: ignore[attr-defined]
                if not (isinstance(inner, ast.Call) and len(inner.args) == 3 and all(isinstance(a, ast.Name) for a in inner.args[1:])):
                    raise Unsupported("relevant samples are not list(islice(self._buffer, <name>, <name>))")
                slice_names = (inner.args[1].id, inner.args[2].id)  # type: ignore[attr-defined]
                rel_name = tgt
            elif isinstance(v, ast.BinOp) and isinstance(v.op, ast.Sub) and ast.unparse(v.left) == "timestamp" and min_txt is None:
                t, ty = tr.num(v)
                if ty != "Int":
                    raise Unsupported("minimum_relevant_timestamp type")
                min_txt, min_name = t, tgt
    if period_txt is None or min_txt is None or slice_names is None or not set(slice_names) <= set(bis):
        raise Unsupported("window computation of _ResamplingHelper.resample changed shape")
    out.append("/-- `period` of `_ResamplingHelper.resample`: the larger of the resampling period and the input period. -/\n"
               "def relevancePeriod (resamplingPeriod : Int) (samplingPeriod : Option Int) : Int :=\n  " + period_txt)
    out.append("/-- `minimum_relevant_timestamp` of `_ResamplingHelper.resample`. -/\n"
               "def minimumRelevantTimestamp (timestamp period : Int) (maxAge : Rat) : Int :=\n  " + min_txt)
    out.append(f"/-- `min_index = bisect_right(buffer, <this key>)`. -/\ndef minIndexKey : BisectKey := {bis[slice_names[0]]}")
    out.append(f"/-- `max_index = bisect_right(buffer, <this key>)`. -/\ndef maxIndexKey : BisectKey := {bis[slice_names[1]]}")
    # the value: function applied when there are relevant samples, else None
    norm = lambda x: ast.unparse(x).replace(" ", "").replace("\n", "")  # noqa: E731
    val_name = None
    for s in body:
        if isinstance(s, ast.Assign) and len(s.targets) == 1 and isinstance(s.targets[0], ast.Name) and isinstance(s.value, ast.IfExp):
            v = s.value
            if norm(v.test) == rel_name and norm(v.orelse) == "None" and isinstance(v.body, ast.Call) \
                    and norm(v.body.func) in tuple(f"{c}.resampling_function" for c in CFG) \
                    and len(v.body.args) == 3 and norm(v.body.args[0]) == rel_name:
                val_name = s.targets[0].id
    ret_ok = val_name is not None and any(
        isinstance(s, ast.Return) and norm(s.value) == f"Sample(timestamp,Noneif{val_name}isNoneelseQuantity({val_name}))"
        for s in body)
    if not ret_ok:
        raise Unsupported("value / return of _ResamplingHelper.resample changed shape")
    return "\n\n".join(out)


def bisect_import(tree: ast.Module) -> None:
    for n in tree.body:
        if isinstance(n, ast.ImportFrom) and n.module == "bisect":
            for a in n.names:
                if (a.asname or a.name) == "bisect" and a.name not in ("bisect", "bisect_right"):
                    raise Unsupported(f"`bisect` is bisect.{a.name}, not bisect_right")
            return
    raise Unsupported("`from bisect import bisect` not found")


def add_sample_shape(hel: ast.ClassDef) -> None:
    fn = find_method(hel, "add_sample")
    src = [ast.unparse(s) for s in strip_doc(fn.body)]
    want = ["self._buffer.append(sample)",
            "if self._source_properties.sampling_start is None:\n    self._source_properties.sampling_start = sample.timestamp",
            "self._source_properties.received_samples += 1"]
    if sorted(src) != sorted(want):
        raise Unsupported("add_sample changed shape")
    init = find_method(hel, "__init__")
    if "deque(maxlen=config.initial_buffer_len)" not in ast.unparse(init):
        raise Unsupported("initial buffer is not deque(maxlen=config.initial_buffer_len)")


def receive_filter(stream: ast.ClassDef) -> str:
    fn = find_method(stream, "_receive_samples")
    loop = next((s for s in fn.body if isinstance(s, ast.AsyncFor)), None)
    if loop is None or len(loop.body) != 1 or not isinstance(loop.body[0], ast.If) or loop.body[0].orelse:
        raise Unsupported("_receive_samples loop shape")
    iff = loop.body[0]
    if [ast.unparse(s) for s in iff.body] != ["self._helper.add_sample(sample)"]:
        raise Unsupported("_receive_samples does not add the accepted sample")
    finite = "((!isNaN) && (!isInf))"
    tr = Tr({"sample.value is None": ("isNone", "Bool"), "sample.value is not None": ("(!isNone)", "Bool"),
             "sample.value.isnan()": ("isNaN", "Bool"),
             "sample.value.isinf()": ("isInf", "Bool"),
             "math.isnan(sample.value.base_value)": ("isNaN", "Bool"),
             "math.isinf(sample.value.base_value)": ("isInf", "Bool"),
             "math.isfinite(sample.value.base_value)": (finite, "Bool")})
    return ("/-- The filter of `_StreamingHelper._receive_samples` (`isInf`: the value is +inf or -inf). -/\n"
            "def acceptsSample (isNone isNaN isInf : Bool) : Bool :=\n  " + tr.cond(iff.test))


def generate(repo: pathlib.Path) -> str:
    tree = ast.parse((repo / SOURCES[0]).read_text())
    res = find_class(tree, "Resampler")
    hel = find_class(tree, "_ResamplingHelper")
    stream = find_class(tree, "_StreamingHelper")
    bisect_import(tree)
    add_sample_shape(hel)
    parts = [constants(tree), calc_window_end(res), timer_hack(res), resample_loop(res), helper_parts(hel),
             receive_filter(stream)]
    return "set_option linter.unusedVariables false\n\nnamespace Extracted.Resampling\n\n" + PRELUDE + "\n" + "\n\n".join(parts) + "\n\nend Extracted.Resampling\n"
